(* Model of /repo/internal/index/converters/cachefile.go (C15).  Definitions only.

   The cache file is a list of bytes ([list N], every element < 256).  A reader
   (bufio.Reader / io.ByteReader) is the list of the bytes not yet consumed; a read
   function returns [Some (value, rest)] or [None] for "ran into the end of the
   input" (io.EOF / io.ErrUnexpectedEOF, the only errors a regular file produces).
   Loops of the Go code that consume at least one byte per iteration are recursions
   on a fuel list that is the input itself (only its length matters), so fuel can
   never run out before the input does.

   uint64 arithmetic is written with an explicit [mod W64] where the code can wrap on
   well-formed input or where the property depends on it (readVarInt's `result <<= 7`,
   the microsecond deltas).  `x | y<<k` is written `x + y*2^k` where x < 2^k holds by
   construction (see CacheFileProofs.lor_shl_add).

   The model follows the code *with the three C15 repairs applied*; each repair has
   a switch in [fixes] and [fx_none] is the code as it is at /repo 913d8a0:
     fx_torn   fixes/C15-torn-tail.patch     a partly written last record is dropped on open
     fx_tomb   fixes/C15-tombstone.patch     invalidation / replacement is written to the file
     fx_empty  fixes/C15-empty-chunk.patch   chunks without content are not stored
*)
From Coq Require Export NArith ZArith List Bool.
Export ListNotations.
Open Scope N_scope.

Record fixes := mkFixes { fx_torn : bool; fx_tomb : bool; fx_empty : bool }.
Definition fx_all : fixes := mkFixes true true true.
Definition fx_none : fixes := mkFixes false false false.

Definition W64 : N := 18446744073709551616.          (* 2^64 *)
Definition Z64 : Z := 18446744073709551616%Z.
Definition Z63 : Z := 9223372036854775808%Z.

(* ------------------------------------------------------------------ *)
(* small list helpers                                                   *)
(* ------------------------------------------------------------------ *)
Definition len (l : list N) : N := N.of_nat (length l).

(* io.ReadFull / Discard of n bytes: fails when fewer are left.  n is compared with
   the length first, so a huge n from a damaged file is never turned into a nat. *)
Definition take (n : N) (l : list N) : option (list N * list N) :=
  if n <=? len l then Some (firstn (N.to_nat n) l, skipn (N.to_nat n) l) else None.

(* slicing of in-memory slices whose length is known to be enough *)
Definition firstN (n : N) (l : list N) : list N := if n <=? len l then firstn (N.to_nat n) l else l.
Definition skipN (n : N) (l : list N) : list N := if n <=? len l then skipn (N.to_nat n) l else [].

Fixpoint list_eqb (a b : list N) : bool :=
  match a, b with
  | [], [] => true
  | x :: a', y :: b' => (x =? y) && list_eqb a' b'
  | _, _ => false
  end.

(* binary.Write/Read of a fixed-size little-endian integer *)
Fixpoint le_bytes (k : nat) (n : N) : list N :=
  match k with O => [] | S k' => n mod 256 :: le_bytes k' (n / 256) end.
Fixpoint le_val (l : list N) : N :=
  match l with [] => 0 | b :: r => b + 256 * le_val r end.

(* ------------------------------------------------------------------ *)
(* readVarInt / writeVarInt  (cachefile.go:59-87)                       *)
(* ------------------------------------------------------------------ *)
Fixpoint read_varint_go (acc : N) (l : list N) : option (N * list N) :=
  match l with
  | [] => None
  | b :: r =>
      let acc' := (acc * 128 + b mod 128) mod W64 in     (* result <<= 7; result |= b & 0x7f *)
      if b <? 128 then Some (acc', r) else read_varint_go acc' r
  end.
Definition read_varint (l : list N) : option (N * list N) := read_varint_go 0 l.

(* the groups above the lowest one, filled in from the end of buf[10] *)
Fixpoint varint_hi (fuel : nat) (n : N) (acc : list N) : list N :=
  match fuel with
  | O => acc
  | S f => if n =? 0 then acc else varint_hi f (n / 128) ((128 + n mod 128) :: acc)
  end.
Definition write_varint (n : N) : list N := varint_hi 9 (n / 128) [n mod 128].

(* ------------------------------------------------------------------ *)
(* readVarBytes / writeVarBytes  (cachefile.go:113-164)                 *)
(* ------------------------------------------------------------------ *)
(* one data byte through the writer; state = (buf, bufFilled) *)
Definition wvb_step (buf fl b : N) : list N * N * N :=
  let buf1 := buf + b * 2 ^ fl in
  let o1 := 128 + buf1 mod 128 in
  let buf2 := buf1 / 128 in
  let fl2 := fl + 1 in
  if fl2 <=? 7 then ([o1], buf2, fl2)
  else ([o1; 128 + buf2 mod 128], buf2 / 128, fl2 - 7).

Fixpoint wvb_go (buf fl : N) (data : list N) : list N :=
  match data with
  | [] => if fl =? 0 then [] else [buf mod 256]
  | b :: r => let '(o, buf', fl') := wvb_step buf fl b in o ++ wvb_go buf' fl' r
  end.
Definition write_varbytes (data : list N) : list N :=
  match data with [] => [0] | _ => wvb_go 0 0 data end.

Fixpoint rvb_go (buf fl : N) (l : list N) : option (list N * list N) :=
  match l with
  | [] => None
  | b :: r =>
      let buf1 := buf + (b mod 128) * 2 ^ fl in
      let fl1 := fl + 7 in
      let emit := 8 <=? fl1 in
      let buf2 := if emit then buf1 / 256 else buf1 in
      let fl2 := if emit then fl1 - 8 else fl1 in
      let out := if emit then [buf1 mod 256] else [] in
      if b <? 128 then Some (out, r)
      else match rvb_go buf2 fl2 r with
           | None => None
           | Some (o, r') => Some (out ++ o, r')
           end
  end.
Definition read_varbytes (l : list N) : option (list N * list N) := rvb_go 0 0 l.

(* ------------------------------------------------------------------ *)
(* readString / writeString  (cachefile.go:89-111)                      *)
(* ------------------------------------------------------------------ *)
Definition write_string (s : list N) : list N := write_varint (len s) ++ s.
Definition read_string (l : list N) : option (list N * list N) :=
  match read_varint l with
  | None => None
  | Some (n, r) => take n r
  end.

(* ------------------------------------------------------------------ *)
(* one record: what setData writes after the 8-byte stream id           *)
(* ------------------------------------------------------------------ *)
(* index.Data; direction false = client-to-server (0), true = server-to-client (1);
   time = nanoseconds since the Unix epoch *)
Record chunk := mkChunk { c_dir : bool; c_data : list N; c_time : Z; c_ct : list N }.

Definition nonempty (c : chunk) : bool := match c_data c with [] => false | _ => true end.

(* chunk sizes (cachefile.go:601-627): a zero length flips the expected direction,
   two zero lengths end the list *)
Fixpoint enc_sizes (want : bool) (cs : list chunk) : list N :=
  match cs with
  | [] => [0; 0]
  | c :: r => (if Bool.eqb (c_dir c) want then [] else [0])
              ++ write_varint (len (c_data c)) ++ enc_sizes (negb (c_dir c)) r
  end.

Fixpoint enc_data (d : bool) (cs : list chunk) : list N :=
  match cs with
  | [] => []
  | c :: r => (if Bool.eqb (c_dir c) d then c_data c else []) ++ enc_data d r
  end.

(* uint64(int64) and back *)
Definition u64_of_Z (z : Z) : N := Z.to_N (z mod Z64).
Definition i64_of_N (n : N) : Z := let z := Z.of_N n in if (z <? Z63)%Z then z else (z - Z64)%Z.
Definition wrap64 (z : Z) : Z := ((z + Z63) mod Z64 - Z63)%Z.

(* relative times (cachefile.go:643-652): Duration.Microseconds() truncates toward zero *)
Fixpoint enc_times (last : Z) (cs : list chunk) : list N :=
  match cs with
  | [] => []
  | c :: r => let rel := (c_time c - last)%Z in
              write_varint (u64_of_Z (Z.quot rel 1000)) ++ enc_times (last + rel)%Z r
  end.

(* content-type bitmaps (cachefile.go:654-663): bm[i/8] |= 1 << (i&7), grown with zero bytes *)
Fixpoint bm_set (bm : list N) (byte_ix : nat) (bit : N) : list N :=
  match byte_ix, bm with
  | O, [] => [2 ^ bit]
  | O, b :: r => N.lor b (2 ^ bit) :: r
  | S k, [] => 0 :: bm_set [] k bit
  | S k, b :: r => b :: bm_set r k bit
  end.
Definition bm_set_ix (bm : list N) (i : N) : list N := bm_set bm (N.to_nat (i / 8)) (i mod 8).

(* the Go map string -> bitmap as an association list in order of first occurrence
   (Go iterates the map in an unspecified order; the decoder does not depend on it) *)
Fixpoint ct_update (m : list (list N * list N)) (ct : list N) (i : N) : list (list N * list N) :=
  match m with
  | [] => [(ct, bm_set_ix [] i)]
  | (k, bm) :: r => if list_eqb k ct then (k, bm_set_ix bm i) :: r else (k, bm) :: ct_update r ct i
  end.
Fixpoint collect_cts (i : N) (cs : list chunk) (m : list (list N * list N)) : list (list N * list N) :=
  match cs with
  | [] => m
  | c :: r => collect_cts (i + 1) r (match c_ct c with [] => m | _ => ct_update m (c_ct c) i end)
  end.
Fixpoint enc_cts (m : list (list N * list N)) : list N :=
  match m with
  | [] => [0]
  | (ct, bm) :: r => write_varbytes bm ++ write_string ct ++ enc_cts r
  end.

Definition encode_record (t0 : Z) (cs : list chunk) : list N :=
  enc_sizes false cs ++ enc_data false cs ++ enc_data true cs ++ enc_times t0 cs
  ++ enc_cts (collect_cts 0 cs []).

(* ------------------------------------------------------------------ *)
(* skipStream  (cachefile.go:166-218)                                   *)
(* ------------------------------------------------------------------ *)
(* sizes until two zeros in a row; returns (sum of sizes, number of non-zero sizes) *)
Fixpoint skip_sizes (fuel l : list N) (nzeros : bool) (dsz cnt : N) : option (N * N * list N) :=
  match fuel with
  | [] => None
  | _ :: f =>
      match read_varint l with
      | None => None
      | Some (sz, r) =>
          if sz =? 0 then (if nzeros then Some (dsz, cnt, r) else skip_sizes f r true dsz cnt)
          else skip_sizes f r false (dsz + sz) (cnt + 1)
      end
  end.

Fixpoint skip_varints (fuel : list N) (cnt : N) (l : list N) : option (list N) :=
  if cnt =? 0 then Some l else
  match fuel with
  | [] => None
  | _ :: f => match read_varint l with
              | None => None
              | Some (_, r) => skip_varints f (cnt - 1) r
              end
  end.

Fixpoint skip_cts (fuel l : list N) : option (list N) :=
  match fuel with
  | [] => None
  | _ :: f =>
      match read_varbytes l with
      | None => None
      | Some ([], r) => Some r
      | Some (_, r) => match read_string r with
                       | None => None
                       | Some (_, r') => skip_cts f r'
                       end
      end
  end.

(* returns the input after the record; the Go function returns the number of bytes consumed *)
Definition skip_stream (l : list N) : option (list N) :=
  match skip_sizes l l false 0 0 with
  | None => None
  | Some (dsz, cnt, r1) =>
      match take dsz r1 with
      | None => None
      | Some (_, r2) =>
          match skip_varints r2 cnt r2 with
          | None => None
          | Some r3 => skip_cts r3 r3
          end
      end
  end.

(* ------------------------------------------------------------------ *)
(* data()  (cachefile.go:362-463)                                       *)
(* ------------------------------------------------------------------ *)
(* the chunk-size loop; the result still contains the entry for the first terminator zero *)
Fixpoint dec_sizes (fuel l : list N) (prev_zero dir : bool) : option (list (bool * N) * list N) :=
  match fuel with
  | [] => None
  | _ :: f =>
      match read_varint l with
      | None => None
      | Some (sz, r) =>
          if (sz =? 0) && prev_zero then Some ([], r)
          else match dec_sizes f r (sz =? 0) (negb dir) with
               | None => None
               | Some (ss, r') => Some ((dir, sz) :: ss, r')
               end
      end
  end.

Fixpoint sum_dir (d : bool) (ss : list (bool * N)) : N :=
  match ss with
  | [] => 0
  | (d', sz) :: r => (if Bool.eqb d d' then sz else 0) + sum_dir d r
  end.

Fixpoint dec_chunks (ss : list (bool * N)) (cd sd : list N) (last : Z) (l : list N)
  : option (list chunk * list N) :=
  match ss with
  | [] => Some ([], l)
  | (d, sz) :: r =>
      if sz =? 0 then dec_chunks r cd sd last l else
      match read_varint l with
      | None => None
      | Some (rel, l') =>
          let t := (last + wrap64 (i64_of_N rel * 1000))%Z in
          let bytes := if d then firstN sz sd else firstN sz cd in
          let cd' := if d then cd else skipN sz cd in
          let sd' := if d then skipN sz sd else sd in
          match dec_chunks r cd' sd' t l' with
          | None => None
          | Some (cs, l'') => Some (mkChunk d bytes t [] :: cs, l'')
          end
      end
  end.

Fixpoint set_ct (data : list chunk) (i : nat) (ct : list N) : option (list chunk) :=
  match data, i with
  | [], _ => None                                   (* "content type bitmask out of range" *)
  | c :: r, O => Some (mkChunk (c_dir c) (c_data c) (c_time c) ct :: r)
  | c :: r, S i' => match set_ct r i' ct with None => None | Some r' => Some (c :: r') end
  end.

(* `for b != 0 { if b&1 != 0 {...}; bit++; b >>= 1 }`; b is a byte, 8 rounds are enough *)
Fixpoint apply_bits (fuel : nat) (b : N) (bit : nat) (ct : list N) (data : list chunk) : option (list chunk) :=
  match fuel with
  | O => Some data
  | S f =>
      if b =? 0 then Some data else
      match (if N.odd b then set_ct data bit ct else Some data) with
      | None => None
      | Some d' => apply_bits f (b / 2) (S bit) ct d'
      end
  end.

Fixpoint apply_bm (bm : list N) (bit : nat) (ct : list N) (data : list chunk) : option (list chunk) :=
  match bm with
  | [] => Some data
  | b :: r => match apply_bits 8 b bit ct data with
              | None => None
              | Some d' => apply_bm r (8 + bit) ct d'
              end
  end.

Fixpoint dec_cts (fuel l : list N) (data : list chunk) : option (list chunk) :=
  match fuel with
  | [] => None
  | _ :: f =>
      match read_varbytes l with
      | None => None
      | Some ([], _) => Some data
      | Some (bm, r) =>
          match read_string r with
          | None => None
          | Some (ct, r') => match apply_bm bm 0 ct data with
                             | None => None
                             | Some d' => dec_cts f r' d'
                             end
          end
      end
  end.

(* decoded record: chunks, client bytes, server bytes *)
Definition decode_record (t0 : Z) (l : list N) : option (list chunk * N * N) :=
  match dec_sizes l l false false with
  | None => None
  | Some (ss0, r1) =>
      let ss := removelast ss0 in
      let cb := sum_dir false ss in
      let sb := sum_dir true ss in
      match take cb r1 with
      | None => None
      | Some (cd, r2) =>
          match take sb r2 with
          | None => None
          | Some (sd, r3) =>
              match dec_chunks ss cd sd t0 r3 with
              | None => None
              | Some (cs, r4) =>
                  match dec_cts r4 r4 cs with
                  | None => None
                  | Some cs' => Some (cs', cb, sb)
                  end
              end
          end
      end
  end.

(* DataForSearch (cachefile.go:465-521): running totals per direction *)
Fixpoint dfs_sizes (fuel l : list N) (prev_zero dir : bool) (c s : N) : option (list (N * N) * N * N * list N) :=
  match fuel with
  | [] => None
  | _ :: f =>
      match read_varint l with
      | None => None
      | Some (sz, r) =>
          if sz =? 0 then
            (if prev_zero then Some ([], c, s, r) else dfs_sizes f r true (negb dir) c s)
          else
            let c' := if dir then c else c + sz in
            let s' := if dir then s + sz else s in
            match dfs_sizes f r false (negb dir) c' s' with
            | None => None
            | Some (ps, cb, sb, r') => Some ((c', s') :: ps, cb, sb, r')
            end
      end
  end.

Definition decode_search (l : list N) : option (list N * list N * list (N * N) * N * N) :=
  match dfs_sizes l l false false 0 0 with
  | None => None
  | Some (ps, cb, sb, r1) =>
      match take cb r1 with
      | None => None
      | Some (cd, r2) =>
          match take sb r2 with
          | None => None
          | Some (sd, _) => Some (cd, sd, (0, 0) :: ps, cb, sb)
          end
      end
  end.

(* ------------------------------------------------------------------ *)
(* the cacheFile object                                                 *)
(* ------------------------------------------------------------------ *)
Definition infos_t := list (N * (N * N)).            (* stream id -> (offset, size) *)

Record state := mkState {
  st_file : list N;
  st_infos : infos_t;
  st_fileSize : N;
  st_freeSize : N;
  st_freeStart : N }.

Fixpoint lookup (m : infos_t) (id : N) : option (N * N) :=
  match m with
  | [] => None
  | (k, v) :: r => if k =? id then Some v else lookup r id
  end.
Fixpoint remove (m : infos_t) (id : N) : infos_t :=
  match m with
  | [] => []
  | (k, v) :: r => if k =? id then remove r id else (k, v) :: remove r id
  end.
Definition update (m : infos_t) (id : N) (v : N * N) : infos_t := (id, v) :: remove m id.

Definition hdr_size : N := 8.                         (* cacheFileHeaderSize = streamHeaderSize = 8 *)
Definition file_header : list N := [80; 50; 67; 67; 1; 0; 0; 0].     (* "P2CC", version 1 *)
Definition invalid_id : N := W64 - 1.                 (* invalidStreamID of the tombstone patch *)
Definition cleanup_min_free : N := 16777216.          (* 16 MiB *)

Definition reset_state : state := mkState file_header [] hdr_size 0 hdr_size.

Inductive result (A : Type) := Absent | Failed | Ok (a : A).
Arguments Absent {A}. Arguments Failed {A}. Arguments Ok {A} a.

Definition section (st : state) (off sz : N) : list N := firstN sz (skipN off (st_file st)).

Definition contains (st : state) (id : N) : bool :=
  match lookup (st_infos st) id with Some _ => true | None => false end.
Definition stream_count (st : state) : N := N.of_nat (length (st_infos st)).

Definition data (st : state) (id : N) (t0 : Z) : result (list chunk * N * N) :=
  match lookup (st_infos st) id with
  | None => Absent
  | Some (off, sz) => match decode_record t0 (section st off sz) with
                      | None => Failed
                      | Some x => Ok x
                      end
  end.

Definition data_for_search (st : state) (id : N) : result (list N * list N * list (N * N) * N * N) :=
  match lookup (st_infos st) id with
  | None => Absent
  | Some (off, sz) => match decode_search (section st off sz) with
                      | None => Failed
                      | Some x => Ok x
                      end
  end.

(* truncateFile (cachefile.go:523-576): rewrite [freeStart, fileSize) keeping the live records.
   The loop state is (old offset, new file size, infos, output so far (reversed pieces)). *)
Fixpoint compact_go (fuel l : list N) (old_off new_size : N) (infos : infos_t) (out : list N)
  : option (N * infos_t * list N) :=
  match l with
  | [] => Some (new_size, infos, out)               (* io.EOF on the stream header *)
  | _ =>
    match fuel with
    | [] => None
    | _ :: f =>
      match take hdr_size l with
      | None => None                                  (* io.ErrUnexpectedEOF *)
      | Some (h, r) =>
          let id := le_val h in
          let off := old_off + hdr_size in
          match lookup infos id with
          | Some (o, sz) =>
              if o =? off then
                match take sz r with
                | None => None
                | Some (body, r') =>
                    compact_go f r' (off + sz) (new_size + hdr_size + sz)
                               (update infos id (new_size + hdr_size, sz)) (out ++ h ++ body)
                end
              else
                match skip_stream r with
                | None => None
                | Some r' => compact_go f r' (off + (len r - len r')) new_size infos out
                end
          | None =>
              match skip_stream r with
              | None => None
              | Some r' => compact_go f r' (off + (len r - len r')) new_size infos out
              end
          end
      end
    end
  end.

Definition truncate_file (st : state) : option state :=
  let region := firstN (st_fileSize st - st_freeStart st) (skipN (st_freeStart st) (st_file st)) in
  match compact_go region region (st_freeStart st) (st_freeStart st) (st_infos st) [] with
  | None => None
  | Some (new_size, infos, out) =>
      Some (mkState (firstN (st_freeStart st) (st_file st) ++ out) infos new_size 0 new_size)
  end.

(* overwrite the 8-byte stream id at [off] (WriteAt of the tombstone patch) *)
Definition write_at (file : list N) (off : N) (bytes : list N) : list N :=
  firstN off file ++ bytes ++ skipN (off + len bytes) file.

(* forget a stream: InvalidateChangedStreams' loop body (cachefile.go:715-722) *)
Definition free_stream (fx : fixes) (st : state) (id : N) : state :=
  match lookup (st_infos st) id with
  | None => st
  | Some (off, sz) =>
      mkState (if fx_tomb fx then write_at (st_file st) (off - hdr_size) (le_bytes 8 invalid_id) else st_file st)
              (remove (st_infos st) id)
              (st_fileSize st)
              (st_freeSize st + sz + hdr_size)
              (if off - hdr_size <? st_freeStart st then off - hdr_size else st_freeStart st)
  end.

Fixpoint invalidate (fx : fixes) (st : state) (ids : list N) : state * list N :=
  match ids with
  | [] => (st, [])
  | id :: r =>
      let hit := contains st id in
      let '(st', inv) := invalidate fx (free_stream fx st id) r in
      (st', if hit then id :: inv else inv)
  end.

Definition should_compact (st : state) : bool :=
  (cleanup_min_free <=? st_freeSize st) && (st_fileSize st / 2 <=? st_freeSize st).

(* setData (cachefile.go:582-703) *)
Definition set_data (fx : fixes) (st : state) (id : N) (t0 : Z) (cs : list chunk) : option state :=
  let cs := if fx_empty fx then filter nonempty cs else cs in
  let st := if fx_tomb fx then free_stream fx st id else st in
  match (if should_compact st then truncate_file st else Some st) with
  | None => None
  | Some st =>
      let rec := encode_record t0 cs in
      let sz := len rec in
      Some (mkState (st_file st ++ le_bytes 8 id ++ rec)
                    (update (st_infos st) id (st_fileSize st + hdr_size, sz))
                    (st_fileSize st + hdr_size + sz)
                    (st_freeSize st)
                    (if st_freeStart st =? st_fileSize st then st_freeStart st + hdr_size + sz
                     else st_freeStart st))
  end.

(* NewCacheFile (cachefile.go:220-297): the scan over the records after the file header.
   Loop state: infos, fileSize, freeSize, freeStart.  Result: the state and whether the scan
   stopped at a partly written record. *)
Inductive scan_result :=
| ScanError                                            (* NewCacheFile returns an error *)
| ScanDone (infos : infos_t) (fileSize freeSize freeStart : N) (torn : bool).

Fixpoint scan (fx : fixes) (fuel l : list N) (infos : infos_t) (fileSize freeSize freeStart : N) : scan_result :=
  match l with
  | [] => ScanDone infos fileSize freeSize freeStart false
  | _ =>
    match fuel with
    | [] => ScanError
    | _ :: f =>
      match take hdr_size l with
      | None => if fx_torn fx then ScanDone infos fileSize freeSize freeStart true else ScanError
      | Some (h, r) =>
          match skip_stream r with
          | None => if fx_torn fx then ScanDone infos fileSize freeSize freeStart true else ScanError
          | Some r' =>
              let id := le_val h in
              let sz := len r - len r' in
              let off := fileSize + hdr_size in
              if fx_tomb fx && (id =? invalid_id) then
                scan fx f r' infos (off + sz) (freeSize + hdr_size + sz)
                     (if freeSize =? 0 then fileSize else freeStart)
              else
                match lookup infos id with
                | Some (o, s) =>
                    scan fx f r' (update infos id (off, sz)) (off + sz) (freeSize + hdr_size + s)
                         (if (freeSize =? 0) || (o - hdr_size <? freeStart) then o - hdr_size else freeStart)
                | None =>
                    scan fx f r' (update infos id (off, sz)) (off + sz) freeSize freeStart
                end
          end
      end
    end
  end.

Definition new_cache_file (fx : fixes) (file : list N) : option state :=
  match file with
  | [] => Some reset_state                            (* io.EOF on the file header: new file *)
  | _ =>
    match take hdr_size file with
    | None => if fx_torn fx then Some reset_state else None
    | Some (h, body) =>
        if negb (list_eqb h file_header) then Some reset_state else
        match scan fx body body [] hdr_size 0 hdr_size with
        | ScanError => None
        | ScanDone infos fileSize freeSize freeStart torn =>
            let file' := if torn then firstN fileSize file else file in
            if freeSize =? 0 then Some (mkState file' infos fileSize 0 fileSize)
            else truncate_file (mkState file' infos fileSize freeSize freeStart)
        end
    end
  end.

(* Close followed by NewCacheFile on the same path; a crash leaves a prefix of the file *)
Definition reopen (fx : fixes) (st : state) : option state := new_cache_file fx (st_file st).
Definition crash (fx : fixes) (st : state) (n : N) : option state := new_cache_file fx (firstN n (st_file st)).
