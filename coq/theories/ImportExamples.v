(* Concrete runs of the faithful import model (Import.v): the refutation witness for arbitrary arrival
   order, non-vacuity examples for the hypotheses of ImportProofs, and the snapshot choice lemma. *)
From Pk Require Import Import ImportProofs.
From Coq Require Import Lia.
From Coq Require Import ZifyBool ZifyN ZifyNat.

Definition mkU (ts file idx : N) (payload : list N) : packet :=
  mkPacket ts file idx (1, 1000) (2, 2000) false false false false false 0 payload.

(* three captures with one datagram each of one UDP flow: p1 at t, p2 at t + 4 min, p3 at t + 8 min *)
Definition st3 : store :=
  [(0, [mkU 0 0 0 [112; 49]]); (1, [mkU 240000000 1 0 [112; 50]]); (2, [mkU 480000000 2 0 [112; 51]])].

Definition run3 (final_flush : bool) (batches : list (list N)) : builder * list index :=
  fold_left (fun bs f => import_and_publish (fun a => a) 100000 final_flush bs st3 f) batches (mkBuilder [] [], []).

Definition visible_payloads (stack : list index) : list (N * list (bool * list N)) :=
  map (fun e => (fst e, coalesce (stream_data (snd e)))) (visible stack).

(* C08 theorem (3): for arbitrary arrival order the statement fails on the faithful model (and on the code:
   corpus/C08/kf-stale-id.json).  Importing p1, then p3, then p2 leaves id 1 (= p3) visible beside the
   rewritten id 0 (= p1 p2 p3); the one-shot import of the same three captures shows one stream. *)
Theorem arrival_order_independence_refuted :
  exists (order oneshot : list (list N)),
    concat order = [0; 2; 1] /\ concat oneshot = [0; 1; 2] /\
    visible_payloads (snd (run3 false order)) =
      [(0, [(false, [112; 49; 112; 50; 112; 51])]); (1, [(false, [112; 51])])] /\
    visible_payloads (snd (run3 false oneshot)) = [(0, [(false, [112; 49; 112; 50; 112; 51])])].
Proof. exists [[0]; [2]; [1]], [[0; 1; 2]]. vm_compute. repeat split. Qed.

(* the same holds with the final flush of fixes/C08-flush-queued-at-end.patch *)
Example arrival_order_refuted_with_final_flush :
  length (visible (snd (run3 true [[0]; [2]; [1]]))) = 2%nat /\ length (visible (snd (run3 true [[0; 1; 2]]))) = 1%nat.
Proof. vm_compute. split; reflexivity. Qed.

(* chronological arrival in three batches gives the one-shot map, ids included (instance of batches_visible) *)
Example chronological_batches_example :
  visible_payloads (snd (run3 false [[0]; [1]; [2]])) = visible_payloads (snd (run3 false [[0; 1; 2]])) /\
  visible_payloads (snd (run3 false [[0; 1]; [2]])) = visible_payloads (snd (run3 false [[0; 1; 2]])).
Proof. vm_compute. split; reflexivity. Qed.

(* non-vacuity of [extends] / [wf_factory] / [chain]: the stream lists of the run above *)
Definition s_p1 : stream := add_udp_packet (new_stream false (1, 1000) (2, 2000)) (0, 0, 0) false [112; 49].
Definition s_p12 : stream := add_udp_packet s_p1 (1, 0, 240000000) false [112; 50].

Example extends_example : extends [1] [s_p1] [s_p12] /\ wf_factory [s_p1] /\ wf_factory [s_p12] /\
                          chain [] [([0], [s_p1]); ([1], [s_p12])].
Proof.
  assert (W1 : wf_factory [s_p1]).
  { constructor.
    - intros [|[|j]] s H; simpl in H; inversion H; subst; vm_compute; discriminate.
    - intros [|[|i]] [|[|j]] si sj Hi Hj _; simpl in *; try discriminate; auto. }
  assert (W2 : wf_factory [s_p12]).
  { constructor.
    - intros [|[|j]] s H; simpl in H; inversion H; subst; vm_compute; discriminate.
    - intros [|[|i]] [|[|j]] si sj Hi Hj _; simpl in *; try discriminate; auto. }
  assert (E12 : extends [1] [s_p1] [s_p12]).
  { constructor.
    - intros [|[|j]] so H; simpl in H; inversion H; subst.
      split; [vm_compute; repeat constructor|].
      exists s_p12. split; [reflexivity|]. right. exists [((1, 0, 240000000), false)].
      split; [discriminate|]. split; [vm_compute; reflexivity|]. vm_compute. repeat constructor.
    - intros [|[|j]] sn Hle H; simpl in *; try lia; discriminate. }
  assert (E01 : extends [0] [] [s_p1]).
  { constructor.
    - intros [|j] so H; discriminate.
    - intros [|[|j]] sn _ H; simpl in H; inversion H; subst.
      split; [vm_compute; discriminate|vm_compute; repeat constructor]. }
  split; [exact E12|]. split; [exact W1|]. split; [exact W2|].
  constructor; [exact W1|exact E01|]. constructor; [exact W2|exact E12|]. constructor.
Qed.

(* ---- choice of the snapshot (builder.go "find last snapshot with ts < oldest new package") ---- *)
Lemma best_snapshot_acc : forall snaps oldest acc b,
  (forall a, acc = Some a -> sn_ts a <= oldest) ->
  best_snapshot snaps oldest acc = Some b ->
  (acc = Some b \/ In b snaps) /\
  (forall a, acc = Some a -> sn_ts a <= sn_ts b) /\
  (forall s, In s snaps -> sn_ts s <= oldest -> sn_ts s <= sn_ts b) /\
  sn_ts b <= oldest.
Proof.
  induction snaps as [|ss r IH]; intros oldest acc b Hacc H; simpl in H.
  - subst. split; [left; auto|]. split; [intros a Ha; inversion Ha; lia|]. split; [intros s []|]. apply Hacc; auto.
  - assert (Hsame : best_snapshot r oldest acc = Some b ->
              (forall s, s = ss -> sn_ts s <= oldest -> exists a, acc = Some a /\ sn_ts s <= sn_ts a) \/ oldest < sn_ts ss ->
              (acc = Some b \/ In b (ss :: r)) /\ (forall a, acc = Some a -> sn_ts a <= sn_ts b) /\
              (forall s, In s (ss :: r) -> sn_ts s <= oldest -> sn_ts s <= sn_ts b) /\ sn_ts b <= oldest).
    { intros H' Hss. destruct (IH _ _ _ Hacc H') as (A & B & C & D).
      split; [destruct A; auto; right; right; auto|]. split; auto. split; auto.
      intros s [<-|Hs] Hle; auto.
      destruct Hss as [Hss|Hss]; [|lia].
      destruct (Hss _ eq_refl Hle) as (a & Ha & Hl). specialize (B a Ha). lia. }
    assert (Htake : best_snapshot r oldest (Some ss) = Some b -> sn_ts ss <= oldest ->
              (forall a, acc = Some a -> sn_ts a <= sn_ts ss) ->
              (acc = Some b \/ In b (ss :: r)) /\ (forall a, acc = Some a -> sn_ts a <= sn_ts b) /\
              (forall s, In s (ss :: r) -> sn_ts s <= oldest -> sn_ts s <= sn_ts b) /\ sn_ts b <= oldest).
    { intros H' Hle Hold.
      destruct (IH oldest (Some ss) b) as (A & B & C & D); auto.
      { intros a Ha; inversion Ha; subst; auto. }
      split; [destruct A as [A|A]; [inversion A; subst; right; left; auto|right; right; auto]|].
      split; [intros a Ha; specialize (Hold a Ha); specialize (B ss eq_refl); lia|].
      split; auto. intros s [<-|Hs] Hl; [apply B; auto|auto]. }
    destruct acc as [a0|].
    + destruct (N.ltb_spec (sn_ts ss) (sn_ts a0)).
      * apply Hsame; auto. left. intros s -> _. exists a0. split; auto. lia.
      * destruct (N.ltb_spec oldest (sn_ts ss)).
        -- apply Hsame; auto.
        -- apply Htake; auto. intros a Ha; inversion Ha; subst; lia.
    + destruct (N.ltb_spec oldest (sn_ts ss)).
      * apply Hsame; auto.
      * apply Htake; auto. intros a Ha; discriminate.
Qed.

(* the snapshot used by an import is a stored one, not younger than the oldest new packet, and the
   youngest such *)
Theorem snapshot_choice_sound : forall snaps oldest b,
  best_snapshot snaps oldest None = Some b ->
  In b snaps /\ sn_ts b <= oldest /\ (forall s, In s snaps -> sn_ts s <= oldest -> sn_ts s <= sn_ts b).
Proof.
  intros snaps oldest b H.
  assert (H0 : forall a, @None snapshot = Some a -> sn_ts a <= oldest) by (intros a Ha; discriminate).
  destruct (best_snapshot_acc snaps oldest None b H0 H) as ([A|A] & _ & C & D); [discriminate|auto].
Qed.

(* and when no snapshot is chosen, none was usable *)
Theorem snapshot_choice_complete : forall snaps oldest,
  best_snapshot snaps oldest None = None -> forall s, In s snaps -> oldest < sn_ts s.
Proof.
  intros snaps oldest. generalize (eq_refl (@None snapshot)).
  assert (G : forall snaps acc, best_snapshot snaps oldest acc = None -> acc = None /\ forall s, In s snaps -> oldest < sn_ts s).
  { induction snaps0 as [|ss r IH]; intros acc H; simpl in H.
    - split; auto. intros s [].
    - destruct acc as [a0|].
      + destruct (sn_ts ss <? sn_ts a0); [destruct (IH _ H); discriminate|].
        destruct (oldest <? sn_ts ss); destruct (IH _ H); discriminate.
      + simpl in H. destruct (N.ltb_spec oldest (sn_ts ss)).
        * destruct (IH _ H) as [_ Hr]. split; auto. intros s [<-|Hs]; auto.
        * destruct (IH _ H); discriminate. }
  intros _ H. apply (G snaps None H).
Qed.
