//go:build verif

package manager

// Read accessor for the C19 harness (overlay, add-only): the names queued for import,
// read inside the service loop.
func (mgr *Manager) VerifC19ImportJobs() []string {
	c := make(chan []string, 1)
	mgr.jobs <- func() {
		c <- append([]string(nil), mgr.importJobs...)
	}
	return <-c
}
