package main

// Correspondence + oracle harness for C19, injected with `go test -overlay` (add-only).
//
// Reads cases (one JSON object per line) from $VERIF_CASES and writes one JSON
// observation line per step to $VERIF_OUT.  Every case gets a fresh sandbox
//
//	root/outside.pcap                sentinel (outside base)
//	root/base/secret.pcap            sentinel (outside the capture dir)
//	root/base/pcapX/x.pcap           sentinel (sibling whose name extends "pcap")
//	root/base/pcap/                  the capture directory (*baseDir="root/base", *pcapDir="pcap")
//	root/base/pcap/sub/inner.pcap    file below a subdirectory of the capture dir
//	root/base/{index,snapshot,state,converter}
//
// a real manager (import jobs parked at the `import.start` gate so the queue can be
// read) and the real router of setupRouter behind a real net/http server; requests
// are written as raw bytes on a TCP connection.  A thin wrapper around the router
// only installs a chi route context so that the pattern chosen and the parameter the
// handler saw can be read back.  Before and after every step the whole sandbox tree
// is snapshotted (type, mode, size, mtime, sha256).
import (
	"bufio"
	"bytes"
	"context"
	"crypto/sha256"
	"encoding/hex"
	"encoding/json"
	"fmt"
	"io"
	"log"
	"net"
	"net/http"
	"net/http/httptest"
	"os"
	"path/filepath"
	"sort"
	"strings"
	"sync"
	"testing"
	"time"

	"github.com/go-chi/chi/v5"
	"github.com/spq/pkappa2/internal/index/manager"
)

type c19Req struct {
	M      string `json:"m"`      // method
	T      string `json:"t"`      // raw request target, hex
	Body   string `json:"body"`   // hex
	CL     int    `json:"cl"`     // declared Content-Length (-1: len(body)); larger than the body = body fails midway
	Split  int    `json:"split"`  // send the body in two parts, cut at this offset (0: one write)
	Delay  int    `json:"delay"`  // microseconds between the two parts
	Direct bool   `json:"direct"` // bypass net/http parsing: call router.ServeHTTP with URL.Path = target (no RawPath)
}

type c19Step struct {
	K    string   `json:"k"` // req | pair | path | match
	A    *c19Req  `json:"a,omitempty"`
	B    *c19Req  `json:"b,omitempty"`
	S    string   `json:"s,omitempty"`    // path: string (hex); match: route path (hex)
	Dirs []string `json:"dirs,omitempty"` // path: leading Join elements (hex)
	M    string   `json:"m,omitempty"`    // match: method
}

type c19Pre struct {
	Name    string `json:"name"` // hex, relative to the capture dir
	Content string `json:"content"`
}

type c19Case struct {
	ID    int       `json:"id"`
	Pre   []c19Pre  `json:"pre"`
	Steps []c19Step `json:"steps"`
}

type c19Res struct {
	Sent       bool     `json:"sent"`
	Status     int      `json:"status"`  // as read by the client (0: no response read)
	SStatus    int      `json:"sstatus"` // as written by the handler (0: handler not entered)
	Entered    bool     `json:"entered"`
	Incomplete bool     `json:"incomplete"` // the harness could not observe this request (dial / wait timed out under load)
	Pattern    string   `json:"pattern"`
	Params     []string `json:"params"` // key=hex(value)
	Path       string   `json:"path"`
	RawPath    string   `json:"rawpath"`
	BodyLen    int      `json:"bodylen"`
	BodySha    string   `json:"bodysha"`
	BodyHead   string   `json:"bodyhead"` // first 64 bytes, hex
	Tokens     []string `json:"tokens"`   // sentinel tokens found in the response
	Err        string   `json:"err,omitempty"`
}

type c19Obs struct {
	Case   int        `json:"case"`
	Step   int        `json:"step"`
	K      string     `json:"k"`
	Res    []c19Res   `json:"res,omitempty"`
	Diff   [][]string `json:"diff"`  // [kind(created|removed|changed), hex(relpath), before, after]
	Queue  []string   `json:"queue"` // names appended to the import queue by this step (hex)
	Out    []string   `json:"out,omitempty"`
	Panic  string     `json:"panic,omitempty"`
	Routes [][]string `json:"routes,omitempty"`
}

// generous: the check may run on a busy machine; nothing in a healthy run waits this long
const c19Wait = 120 * time.Second

var c19Tokens = []string{"SENTINEL-OUT", "SENTINEL-BASE", "SENTINEL-SIB", "SENTINEL-SUB", "SENTINEL-STATE"}

func c19hex(s string) string { return hex.EncodeToString([]byte(s)) }
func c19unhex(s string) string {
	b, err := hex.DecodeString(s)
	if err != nil {
		panic(err)
	}
	return string(b)
}

func c19Snapshot(root string) map[string]string {
	m := map[string]string{}
	_ = filepath.Walk(root, func(p string, fi os.FileInfo, err error) error {
		rel, _ := filepath.Rel(root, p)
		if err != nil {
			m[rel] = "ERR " + err.Error()
			return nil
		}
		sig := fmt.Sprintf("%v %d %d", fi.Mode(), fi.Size(), fi.ModTime().UnixNano())
		if fi.Mode().IsRegular() {
			b, e := os.ReadFile(p)
			if e != nil {
				sig += " ERR"
			} else {
				h := sha256.Sum256(b)
				sig += " " + hex.EncodeToString(h[:8])
				if len(b) <= 48 {
					sig += " " + hex.EncodeToString(b)
				}
			}
		} else if fi.IsDir() {
			// a directory's size/mtime change whenever an entry is added; keep type+mode only
			sig = fmt.Sprintf("%v", fi.Mode())
		}
		m[rel] = sig
		return nil
	})
	return m
}

func c19Diff(a, b map[string]string) [][]string {
	out := [][]string{}
	keys := map[string]bool{}
	for k := range a {
		keys[k] = true
	}
	for k := range b {
		keys[k] = true
	}
	ks := []string{}
	for k := range keys {
		ks = append(ks, k)
	}
	sort.Strings(ks)
	for _, k := range ks {
		x, okx := a[k]
		y, oky := b[k]
		switch {
		case !okx:
			out = append(out, []string{"created", c19hex(k), "", y})
		case !oky:
			out = append(out, []string{"removed", c19hex(k), x, ""})
		case x != y:
			out = append(out, []string{"changed", c19hex(k), x, y})
		}
	}
	return out
}

type c19Rec struct {
	pattern string
	params  []string
	path    string
	rawpath string
	done    chan struct{}
	status  int
}

// records the status the handler writes: the client may fail to read the response of a request
// whose body it cut short
type c19Writer struct {
	http.ResponseWriter
	rec *c19Rec
}

func (w *c19Writer) WriteHeader(code int) {
	if w.rec.status == 0 {
		w.rec.status = code
	}
	w.ResponseWriter.WriteHeader(code)
}

func (w *c19Writer) Write(b []byte) (int, error) {
	if w.rec.status == 0 {
		w.rec.status = 200
	}
	return w.ResponseWriter.Write(b)
}

type c19Env struct {
	root    string
	mgr     *manager.Manager
	router  *chi.Mux
	srv     *httptest.Server
	recs    sync.Map // id -> *c19Rec
	nextID  int
	release chan struct{}
	qlen    int
}

func (e *c19Env) wrap(w http.ResponseWriter, r *http.Request) {
	id := r.Header.Get("X-Verif-Id")
	rec := &c19Rec{done: make(chan struct{})}
	rec.path, rec.rawpath = r.URL.Path, r.URL.RawPath
	e.recs.Store(id, rec)
	rctx := chi.NewRouteContext()
	r = r.WithContext(context.WithValue(r.Context(), chi.RouteCtxKey, rctx))
	defer func() {
		rec.pattern = rctx.RoutePattern()
		for i, k := range rctx.URLParams.Keys {
			if i < len(rctx.URLParams.Values) {
				rec.params = append(rec.params, k+"="+c19hex(rctx.URLParams.Values[i]))
			}
		}
		close(rec.done)
	}()
	e.router.ServeHTTP(&c19Writer{ResponseWriter: w, rec: rec}, r)
}

func c19NewEnv(t *testing.T, tmp string, c *c19Case) *c19Env {
	root := filepath.Join(tmp, fmt.Sprintf("case%d", c.ID))
	base := filepath.Join(root, "base")
	for _, d := range []string{"pcap/sub", "pcapX", "index", "snapshot", "state", "converter"} {
		if err := os.MkdirAll(filepath.Join(base, d), 0755); err != nil {
			t.Fatal(err)
		}
	}
	w := func(rel, content string) {
		if err := os.WriteFile(filepath.Join(root, rel), []byte(content), 0644); err != nil {
			t.Fatal(err)
		}
	}
	w("outside.pcap", "SENTINEL-OUT outside the base directory")
	w("base/secret.pcap", "SENTINEL-BASE next to the capture directory")
	w("base/pcapX/x.pcap", "SENTINEL-SIB sibling directory")
	w("base/pcap/sub/inner.pcap", "SENTINEL-SUB below the capture directory")
	w("base/state/secret.pcap", "SENTINEL-STATE state directory")
	for _, p := range c.Pre {
		if err := os.WriteFile(filepath.Join(base, "pcap", c19unhex(p.Name)), []byte(c19unhex(p.Content)), 0644); err != nil {
			t.Fatal(err)
		}
	}
	e := &c19Env{root: root, release: make(chan struct{})}
	rel := e.release
	manager.VerifGate = func(point string) {
		if point == "import.start" {
			<-rel
		}
	}
	*baseDir = base
	*pcapDir = "pcap"
	mgr, err := manager.New(filepath.Join(base, "pcap"), filepath.Join(base, "index"), filepath.Join(base, "snapshot"),
		filepath.Join(base, "state"), filepath.Join(base, "converter"), "")
	if err != nil {
		t.Fatal(err)
	}
	e.mgr = mgr
	e.router = setupRouter(mgr, nil, nil)
	e.srv = httptest.NewServer(http.HandlerFunc(e.wrap))
	return e
}

func (e *c19Env) close() {
	e.srv.Close()
	close(e.release)
	for i := 0; i < 2000; i++ {
		if len(e.mgr.VerifC19ImportJobs()) == 0 {
			break
		}
		time.Sleep(time.Millisecond)
	}
	e.mgr.Close()
	os.RemoveAll(e.root)
}

func c19Result(status int, body []byte) c19Res {
	h := sha256.Sum256(body)
	r := c19Res{Sent: true, Status: status, BodyLen: len(body), BodySha: hex.EncodeToString(h[:8]), Tokens: []string{}, Params: []string{}}
	hd := body
	if len(hd) > 64 {
		hd = hd[:64]
	}
	r.BodyHead = hex.EncodeToString(hd)
	for _, tk := range c19Tokens {
		if bytes.Contains(body, []byte(tk)) {
			r.Tokens = append(r.Tokens, tk)
		}
	}
	return r
}

func (e *c19Env) fill(res *c19Res, id string) {
	if v, ok := e.recs.Load(id); ok {
		rec := v.(*c19Rec)
		select {
		case <-rec.done:
		case <-time.After(c19Wait):
			res.Err += " handler did not finish"
			res.Incomplete = true
			return
		}
		res.Entered = true
		res.SStatus = rec.status
		if res.SStatus == 0 {
			res.SStatus = 200 // handler returned without writing: net/http answers 200
		}
		res.Pattern, res.Path, res.RawPath = rec.pattern, c19hex(rec.path), c19hex(rec.rawpath)
		if rec.params != nil {
			res.Params = rec.params
		}
	}
}

func (e *c19Env) do(q *c19Req, id string) (res c19Res) {
	defer func() {
		if r := recover(); r != nil {
			res.Err += fmt.Sprintf(" PANIC %v", r)
		}
	}()
	target, body := c19unhex(q.T), []byte(c19unhex(q.Body))
	// absolute-path attacks need the sandbox location: @ROOT@ = its path, @ROOTENC@ = the same with %2f
	target = strings.ReplaceAll(target, "@ROOTENC@", strings.ReplaceAll(e.root, "/", "%2f"))
	target = strings.ReplaceAll(target, "@ROOT@", e.root)
	if q.Direct {
		req := httptest.NewRequest(q.M, "/x", bytes.NewReader(body))
		req.URL.Path, req.URL.RawPath = target, ""
		req.Header.Set("X-Verif-Id", id)
		rr := httptest.NewRecorder()
		e.wrap(rr, req)
		res = c19Result(rr.Code, rr.Body.Bytes())
		e.fill(&res, id)
		return res
	}
	conn, err := net.DialTimeout("tcp", e.srv.Listener.Addr().String(), c19Wait)
	if err != nil {
		return c19Res{Err: err.Error(), Incomplete: true, Tokens: []string{}, Params: []string{}}
	}
	defer conn.Close()
	_ = conn.SetDeadline(time.Now().Add(c19Wait))
	cl := q.CL
	if cl < 0 {
		cl = len(body)
	}
	var hd bytes.Buffer
	fmt.Fprintf(&hd, "%s %s HTTP/1.1\r\nHost: verif\r\nX-Verif-Id: %s\r\nConnection: close\r\n", q.M, target, id)
	if q.M != "GET" || cl > 0 {
		fmt.Fprintf(&hd, "Content-Length: %d\r\n", cl)
	}
	hd.WriteString("\r\n")
	_, _ = conn.Write(hd.Bytes())
	if q.Split > 0 && q.Split < len(body) {
		_, _ = conn.Write(body[:q.Split])
		time.Sleep(time.Duration(q.Delay) * time.Microsecond)
		_, _ = conn.Write(body[q.Split:])
	} else {
		_, _ = conn.Write(body)
	}
	if cl > len(body) {
		// the body fails midway: the server sees EOF before Content-Length bytes
		if tc, ok := conn.(*net.TCPConn); ok {
			_ = tc.CloseWrite()
		}
	}
	br := bufio.NewReader(conn)
	resp, err := http.ReadResponse(br, nil)
	if err != nil {
		res = c19Res{Sent: true, Err: "read response: " + err.Error(), Tokens: []string{}, Params: []string{}}
		if ne, ok := err.(net.Error); ok && ne.Timeout() {
			res.Incomplete = true
		}
		e.fill(&res, id)
		return res
	}
	rb, _ := io.ReadAll(io.LimitReader(resp.Body, 1<<22))
	resp.Body.Close()
	res = c19Result(resp.StatusCode, rb)
	e.fill(&res, id)
	return res
}

func (e *c19Env) queueDelta() []string {
	q := e.mgr.VerifC19ImportJobs()
	out := []string{}
	for _, n := range q[e.qlen:] {
		out = append(out, c19hex(n))
	}
	e.qlen = len(q)
	return out
}

func TestVerifC19(t *testing.T) {
	in := os.Getenv("VERIF_CASES")
	if in == "" {
		t.Skip("no VERIF_CASES")
	}
	log.SetOutput(io.Discard)
	f, err := os.Open(in)
	if err != nil {
		t.Fatal(err)
	}
	defer f.Close()
	of, err := os.Create(os.Getenv("VERIF_OUT"))
	if err != nil {
		t.Fatal(err)
	}
	defer of.Close()
	w := bufio.NewWriter(of)
	defer w.Flush()
	emit := func(o *c19Obs) {
		if o.Diff == nil {
			o.Diff = [][]string{}
		}
		if o.Queue == nil {
			o.Queue = []string{}
		}
		b, _ := json.Marshal(o)
		w.Write(b)
		w.WriteByte('\n')
		w.Flush()
	}
	tmp := t.TempDir()
	sc := bufio.NewScanner(f)
	sc.Buffer(make([]byte, 1<<20), 1<<28)
	first := true
	for sc.Scan() {
		if len(bytes.TrimSpace(sc.Bytes())) == 0 {
			continue
		}
		var c c19Case
		if err := json.Unmarshal(sc.Bytes(), &c); err != nil {
			t.Fatalf("bad case line: %v", err)
		}
		e := c19NewEnv(t, tmp, &c)
		if first {
			first = false
			routes := [][]string{}
			_ = chi.Walk(e.router, func(method, route string, _ http.Handler, _ ...func(http.Handler) http.Handler) error {
				routes = append(routes, []string{method, route})
				return nil
			})
			emit(&c19Obs{Case: -1, Step: -1, K: "routes", Routes: routes})
		}
		for si := range c.Steps {
			st := &c.Steps[si]
			o := &c19Obs{Case: c.ID, Step: si, K: st.K}
			func() {
				defer func() {
					if r := recover(); r != nil {
						o.Panic = fmt.Sprintf("PANIC %v", r)
					}
				}()
				switch st.K {
				case "path":
					s := c19unhex(st.S)
					el := []string{}
					for _, d := range st.Dirs {
						el = append(el, c19unhex(d))
					}
					el = append(el, s)
					o.Out = []string{c19hex(filepath.Base(s)), c19hex(filepath.Clean(s)), c19hex(filepath.Join(el...))}
				case "match":
					rctx := chi.NewRouteContext()
					ok := e.router.Match(rctx, st.M, c19unhex(st.S))
					o.Out = []string{fmt.Sprint(ok), rctx.RoutePattern()}
					for i, k := range rctx.URLParams.Keys {
						if i < len(rctx.URLParams.Values) {
							o.Out = append(o.Out, k+"="+c19hex(rctx.URLParams.Values[i]))
						}
					}
				case "req":
					before := c19Snapshot(e.root)
					e.nextID++
					o.Res = []c19Res{e.do(st.A, fmt.Sprint(e.nextID))}
					o.Queue = e.queueDelta()
					o.Diff = c19Diff(before, c19Snapshot(e.root))
				case "pair":
					before := c19Snapshot(e.root)
					e.nextID += 2
					ida, idb := fmt.Sprint(e.nextID-1), fmt.Sprint(e.nextID)
					var ra, rb c19Res
					var wg sync.WaitGroup
					wg.Add(2)
					go func() { defer wg.Done(); ra = e.do(st.A, ida) }()
					go func() { defer wg.Done(); rb = e.do(st.B, idb) }()
					wg.Wait()
					o.Res = []c19Res{ra, rb}
					o.Queue = e.queueDelta()
					o.Diff = c19Diff(before, c19Snapshot(e.root))
				default:
					o.Panic = "unknown step kind " + st.K
				}
			}()
			emit(o)
		}
		e.close()
	}
	if !strings.HasPrefix(tmp, os.TempDir()) {
		t.Logf("tmp %s", tmp)
	}
}
