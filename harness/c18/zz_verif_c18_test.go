package regexanalysis

// Correspondence harness for C18, injected with `go test -overlay` (add-only).
// For every case (a regular expression, a small alphabet, two length bounds) it prints
//   - the compiled program exactly as AcceptedLength/ConstantSuffix see it
//     (syntax.Compile(Simplify(Parse(re, Perl)))), for the Coq model,
//   - the results of AcceptedLength and ConstantSuffix,
//   - a brute-force oracle through the real matcher: which strings over the alphabet up to
//     length la the expression matches as a whole, and for every text up to length lf the
//     length of the match found and whether it ends with the computed suffix.

import (
	"bufio"
	"encoding/hex"
	"fmt"
	"os"
	"strconv"
	"strings"
	"testing"
	"unicode"

	"rsc.io/binaryregexp"
	"rsc.io/binaryregexp/syntax"
)

func verifC18Cost(p *syntax.Prog) float64 {
	memo := map[uint32]float64{}
	onStack := map[uint32]bool{}
	var cost func(pc uint32) float64
	cost = func(pc uint32) float64 {
		steps := 0
		for {
			if int(pc) >= len(p.Inst) || steps > len(p.Inst)+1 {
				return 1
			}
			steps++
			i := p.Inst[pc]
			switch i.Op {
			case syntax.InstAlt, syntax.InstAltMatch:
				if onStack[pc] {
					return 1
				}
				if v, ok := memo[pc]; ok {
					return v
				}
				onStack[pc] = true
				v := 1 + cost(i.Out) + cost(i.Arg)
				onStack[pc] = false
				memo[pc] = v
				return v
			case syntax.InstMatch, syntax.InstFail:
				return 1
			default:
				pc = i.Out
			}
		}
	}
	return cost(uint32(p.Start))
}

func verifC18Dump(p *syntax.Prog) string {
	sb := strings.Builder{}
	fmt.Fprintf(&sb, "%d %d ", p.Start, len(p.Inst))
	for k, i := range p.Inst {
		if k != 0 {
			sb.WriteByte(';')
		}
		rs := make([]string, 0, len(i.Rune))
		for _, r := range i.Rune {
			rs = append(rs, strconv.Itoa(int(r)))
		}
		orb := []string{}
		switch i.Op {
		case syntax.InstRune, syntax.InstRune1, syntax.InstRuneAny, syntax.InstRuneAnyNotNL:
			if len(i.Rune) == 1 && syntax.Flags(i.Arg)&syntax.FoldCase != 0 {
				r0 := i.Rune[0]
				for r1 := unicode.SimpleFold(r0); r1 != r0; r1 = unicode.SimpleFold(r1) {
					orb = append(orb, strconv.Itoa(int(r1)))
				}
			}
		}
		fmt.Fprintf(&sb, "%d,%d,%d,%s,%s", int(i.Op), i.Out, i.Arg, strings.Join(rs, "."), strings.Join(orb, "."))
	}
	return sb.String()
}

// all strings over alpha of length 0..l, by length then lexicographic in alphabet order
func verifC18Enum(alpha []byte, l int, f func(w []byte)) {
	for n := 0; n <= l; n++ {
		w := make([]byte, n)
		idx := make([]int, n)
		for k := range w {
			w[k] = alpha[0]
		}
		for {
			f(w)
			k := n - 1
			for k >= 0 {
				idx[k]++
				if idx[k] < len(alpha) {
					w[k] = alpha[idx[k]]
					break
				}
				idx[k] = 0
				w[k] = alpha[0]
				k--
			}
			if k < 0 {
				break
			}
		}
	}
}

func verifC18Case(id, re string, alpha []byte, la, lf int, costLimit float64, probes [][]byte) (line string) {
	defer func() {
		if r := recover(); r != nil {
			line = fmt.Sprintf("%s PANIC %v", id, r)
		}
	}()
	parsed, err := syntax.Parse(re, syntax.Perl)
	if err != nil {
		return id + " ERR parse"
	}
	p, err := syntax.Compile(parsed.Simplify())
	if err != nil {
		return id + " ERR compile"
	}
	if len(p.Inst) > 6000 {
		return id + " ERR big"
	}
	cost := verifC18Cost(p)
	al, err := AcceptedLength(re)
	if err != nil {
		return id + " ERR acceptedlength " + err.Error()
	}
	suf := "skip"
	var sufb []byte
	if cost <= costLimit {
		sufb, err = ConstantSuffix(re)
		if err != nil {
			return id + " ERR constantsuffix " + err.Error()
		}
		suf = "x" + hex.EncodeToString(sufb)
	}
	rx, err := binaryregexp.Compile(re)
	if err != nil {
		return id + " ERR recompile"
	}
	whole, err := binaryregexp.Compile(`\A(?:` + re + `)\z`)
	if err != nil {
		return id + " ERR wholecompile"
	}
	// which strings match as a whole
	acc := strings.Builder{}
	omin, omax := -1, -1
	verifC18Enum(alpha, la, func(w []byte) {
		if whole.Match(w) {
			acc.WriteByte('1')
			if omin < 0 {
				omin = len(w)
			}
			omax = len(w)
		} else {
			acc.WriteByte('0')
		}
	})
	// what the search finds in every text
	nobs, fmin, fmax, bad := 0, -1, -1, ""
	check := func(t []byte) {
		for _, loc := range rx.FindAllIndex(t, -1) {
			n := loc[1] - loc[0]
			nobs++
			if fmin < 0 || n < fmin {
				fmin = n
			}
			if n > fmax {
				fmax = n
			}
			if bad == "" {
				if uint(n) < al.MinLength || uint(n) > al.MaxLength {
					bad = fmt.Sprintf("len:%s:%d:%d", hex.EncodeToString(t), loc[0], loc[1])
				} else if suf != "skip" && !strings.HasSuffix(string(t[loc[0]:loc[1]]), string(sufb)) {
					bad = fmt.Sprintf("suf:%s:%d:%d", hex.EncodeToString(t), loc[0], loc[1])
				}
			}
		}
	}
	verifC18Enum(alpha, lf, check)
	// texts given with the case (constructed matches that are longer than the enumeration reaches)
	for _, t := range probes {
		check(t)
	}
	if bad == "" {
		bad = "-"
	}
	return fmt.Sprintf("%s P %s | len=%d,%d suf=%s cost=%.0f | acc=%s omin=%d omax=%d | find=%d,%d,%d bad=%s",
		id, verifC18Dump(p), al.MinLength, al.MaxLength, suf, cost, acc.String(), omin, omax, nobs, fmin, fmax, bad)
}

func TestVerifC18(t *testing.T) {
	in := os.Getenv("VERIF_CASES")
	if in == "" {
		t.Skip("no VERIF_CASES")
	}
	f, err := os.Open(in)
	if err != nil {
		t.Fatal(err)
	}
	defer f.Close()
	of, err := os.Create(os.Getenv("VERIF_OUT"))
	if err != nil {
		t.Fatal(err)
	}
	defer of.Close()
	w := bufio.NewWriter(of)
	defer w.Flush()
	costLimit := 300000.0
	if v := os.Getenv("VERIF_COSTLIMIT"); v != "" {
		costLimit, _ = strconv.ParseFloat(v, 64)
	}
	sc := bufio.NewScanner(f)
	sc.Buffer(make([]byte, 1<<20), 1<<26)
	for sc.Scan() {
		tok := strings.Fields(sc.Text())
		if len(tok) != 5 && len(tok) != 6 {
			continue
		}
		probes := [][]byte{}
		if len(tok) == 6 {
			for _, h := range strings.Split(tok[5], ",") {
				if b, err := hex.DecodeString(h); err == nil {
					probes = append(probes, b)
				}
			}
		}
		if tok[1] == "-" {
			tok[1] = ""
		}
		re, err1 := hex.DecodeString(tok[1])
		alpha, err2 := hex.DecodeString(tok[2])
		la, err3 := strconv.Atoi(tok[3])
		lf, err4 := strconv.Atoi(tok[4])
		if err1 != nil || err2 != nil || err3 != nil || err4 != nil || len(alpha) == 0 {
			fmt.Fprintf(w, "%s ERR case\n", tok[0])
			continue
		}
		fmt.Fprintf(w, "%s BEGIN\n", tok[0])
		w.Flush()
		fmt.Fprintln(w, verifC18Case(tok[0], string(re), alpha, la, lf, costLimit, probes))
		w.Flush()
	}
}
