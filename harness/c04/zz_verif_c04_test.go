package index

// Correspondence harness for C04, injected with `go test -overlay` (add-only).
// Every case: a few streams (raw payload chunks in both directions, optional outputs of
// converters c0..), a disjunction of conjunctions of data conditions built directly as
// query.DataCondition values (no parser, no normalisation). The harness builds an index
// file, runs index.SearchStreams and, independently, a deliberately naive evaluation
// (binaryregexp on the whole remaining buffer, no prefix/suffix/length shortcuts), and dumps
// every compiled program with the facts the implementation derives from it.

import (
	"bufio"
	"context"
	"encoding/hex"
	"encoding/json"
	"fmt"
	"net/netip"
	"os"
	"sort"
	"strconv"
	"strings"
	"testing"
	"time"
	"unicode"

	"github.com/gopacket/gopacket"
	"github.com/gopacket/gopacket/reassembly"
	"github.com/spq/pkappa2/internal/index/streams"
	"github.com/spq/pkappa2/internal/query"
	"github.com/spq/pkappa2/internal/tools"
	pcapmetadata "github.com/spq/pkappa2/internal/tools/pcapMetadata"
	regexanalysis "github.com/spq/pkappa2/internal/tools/regexAnalysis"
	"rsc.io/binaryregexp"
	"rsc.io/binaryregexp/syntax"
)

type (
	verifC04Chunk struct {
		Dir  int    `json:"d"`
		Data string `json:"x"` // hex
	}
	verifC04Stream struct {
		Raw   []verifC04Chunk   `json:"raw"`
		Sport int               `json:"sport"` // server port, 0 = 80
		Conv  [][]verifC04Chunk `json:"conv"`  // per converter; null = not cached
	}
	verifC04Var struct {
		Pos  uint   `json:"pos"`
		Name string `json:"name"`
	}
	verifC04Elem struct {
		Dir  int           `json:"d"`
		Re   string        `json:"re"`
		Vars []verifC04Var `json:"vars"`
	}
	verifC04SeqElem struct {
		Neg bool   `json:"neg"`
		Dir int    `json:"d"`
		Re  string `json:"re"`
	}
	verifC04Cond struct {
		Inv   bool           `json:"inv"`
		Elems []verifC04Elem `json:"elems"`
	}
	verifC04Case struct {
		ID    int    `json:"id"`
		NConv int    `json:"nconv"`
		Conv  string `json:"conv"`  // converter name of all conditions: "", "none", "c0"...
		Sport int    `json:"sport"` // != 0: every conjunction also carries the filter sport:<n>
		// query text of a THEN sequence with negated elements: SearchStreams gets query.Parse(Text), the plain evaluation
		// reads the sequence from Seq (the generator's own structure, not the parsed conditions)
		Text    string            `json:"text"`
		Seq     []verifC04SeqElem `json:"seq"`
		Streams []verifC04Stream  `json:"streams"`
		Or      [][]verifC04Cond  `json:"or"`
	}
	verifC04Out struct {
		ID    int               `json:"id"`
		Impl  string            `json:"impl"`
		Naive string            `json:"naive"`
		Progs map[string]string `json:"progs"`
		Subs  []verifC04Sub     `json:"subs"`
	}
	// a substituted expression the naive evaluation compiled: element (re, vars) with the captured values
	verifC04Sub struct {
		Re   string   `json:"re"`
		Vars string   `json:"vars"`
		Vals []string `json:"vals"` // hex
		Expr string   `json:"expr"`
	}
	verifC04Converter struct {
		data map[uint64][]verifC04Chunk
	}
)

func (c *verifC04Converter) Data(stream *Stream, moreDetails bool) (data []Data, clientBytes, serverBytes uint64, wasCached bool, err error) {
	return nil, 0, 0, false, nil
}

func verifC04Layout(chunks []verifC04Chunk) ([2][]byte, [][2]int) {
	data := [2][]byte{}
	sizes := [][2]int{{}}
	for _, ch := range chunks {
		b, _ := hex.DecodeString(ch.Data)
		data[ch.Dir] = append(data[ch.Dir], b...)
		sizes = append(sizes, [2]int{len(data[0]), len(data[1])})
	}
	return data, sizes
}

func (c *verifC04Converter) DataForSearch(streamID uint64) ([2][]byte, [][2]int, uint64, uint64, bool, error) {
	d, ok := c.data[streamID]
	if !ok {
		return [2][]byte{}, [][2]int{}, 0, 0, false, nil
	}
	data, sizes := verifC04Layout(d)
	return data, sizes, uint64(len(data[0])), uint64(len(data[1])), true, nil
}

func verifC04MakeStream(id int, chunks []verifC04Chunk, sport int) streams.Stream {
	if sport == 0 {
		sport = 80
	}
	t := time.Date(2020, 1, 1, 12, 0, 0, 0, time.UTC).Add(time.Hour * time.Duration(id+1))
	t2 := t.Add(time.Second * time.Duration(2+len(chunks)))
	pcapinfo := &pcapmetadata.PcapInfo{
		Filename:           fmt.Sprintf("verif_%d.pcap", id),
		Filesize:           123,
		PacketTimestampMin: t,
		PacketTimestampMax: t2,
		ParseTime:          t2.Add(time.Minute),
		PacketCount:        uint(len(chunks)) + 2,
	}
	packets := []gopacket.CaptureInfo{{Timestamp: t, CaptureLength: 123, Length: 123}}
	dirs := []reassembly.TCPFlowDirection{reassembly.TCPDirClientToServer}
	sd := []streams.StreamData(nil)
	for i, ch := range chunks {
		b, _ := hex.DecodeString(ch.Data)
		packets = append(packets, gopacket.CaptureInfo{Timestamp: t.Add(time.Second * time.Duration(i+1)), CaptureLength: 123, Length: 123})
		sd = append(sd, streams.StreamData{Bytes: b, PacketIndex: uint64(i + 1)})
		if ch.Dir == 0 {
			dirs = append(dirs, reassembly.TCPDirClientToServer)
		} else {
			dirs = append(dirs, reassembly.TCPDirServerToClient)
		}
	}
	packets = append(packets, gopacket.CaptureInfo{Timestamp: t2, CaptureLength: 123, Length: 123})
	dirs = append(dirs, reassembly.TCPDirClientToServer)
	for i := range packets {
		pcapmetadata.AddPcapMetadata(&packets[i], pcapinfo, uint64(i))
	}
	ca := netip.MustParseAddrPort("192.168.0.100:1234")
	sa := netip.MustParseAddrPort(fmt.Sprintf("192.168.0.1:%d", sport))
	return streams.Stream{
		ClientAddr: ca.Addr().AsSlice(), ServerAddr: sa.Addr().AsSlice(), ClientPort: ca.Port(), ServerPort: sa.Port(),
		Packets: packets, PacketDirections: dirs, Data: sd,
		Flags: streams.StreamFlagsComplete | streams.StreamFlagsProtocolTCP,
	}
}

var verifC04DumpCache = map[string]string{}

func verifC04DumpProg(re string) string {
	if d, ok := verifC04DumpCache[re]; ok {
		return d
	}
	d := verifC04DumpProgUncached(re)
	verifC04DumpCache[re] = d
	return d
}

func verifC04DumpProgUncached(re string) string {
	parsed, err := syntax.Parse(re, syntax.Perl)
	if err != nil {
		return "ERR parse"
	}
	p, err := syntax.Compile(parsed.Simplify())
	if err != nil {
		return "ERR compile"
	}
	rx, err := binaryregexp.Compile(re)
	if err != nil {
		return "ERR compile2"
	}
	sb := strings.Builder{}
	fmt.Fprintf(&sb, "%d %d ", p.Start, len(p.Inst))
	for k, i := range p.Inst {
		if k != 0 {
			sb.WriteByte(';')
		}
		rs := make([]string, 0, len(i.Rune))
		for _, r := range i.Rune {
			rs = append(rs, strconv.Itoa(int(r)))
		}
		orb := []string{}
		switch i.Op {
		case syntax.InstRune, syntax.InstRune1, syntax.InstRuneAny, syntax.InstRuneAnyNotNL:
			if len(i.Rune) == 1 && syntax.Flags(i.Arg)&syntax.FoldCase != 0 {
				r0 := i.Rune[0]
				for r1 := unicode.SimpleFold(r0); r1 != r0; r1 = unicode.SimpleFold(r1) {
					orb = append(orb, strconv.Itoa(int(r1)))
				}
			}
		}
		fmt.Fprintf(&sb, "%d,%d,%d,%s,%s", int(i.Op), i.Out, i.Arg, strings.Join(rs, "."), strings.Join(orb, "."))
	}
	// the facts as finalize() derives them
	prefix, complete := rx.LiteralPrefix()
	var al regexanalysis.AcceptedLengths
	suffix := []byte(prefix)
	if complete {
		al = regexanalysis.AcceptedLengths{MinLength: uint(len(prefix)), MaxLength: uint(len(prefix))}
	} else {
		if al, err = regexanalysis.AcceptedLength(re); err != nil {
			return "ERR acceptedlength"
		}
		if suffix, err = regexanalysis.ConstantSuffix(re); err != nil {
			return "ERR suffix"
		}
	}
	names := rx.SubexpNames()
	for i := range names {
		if names[i] == "" {
			names[i] = "-"
		}
	}
	c := 0
	if complete {
		c = 1
	}
	fmt.Fprintf(&sb, " %d x%s %d %d %d x%s %s", p.NumCap, hex.EncodeToString([]byte(prefix)), c, al.MinLength, al.MaxLength, hex.EncodeToString(suffix), strings.Join(names, ","))
	return sb.String()
}

// ---- the naive evaluation: the specification, written directly
type verifC04Source struct {
	chunks []verifC04Chunk
}

// first match of re in data[dir] from offset off, whole remaining buffer, no shortcuts
func verifC04Naive(c *verifC04Case, conds []verifC04Cond, st *verifC04Stream, subs *[]verifC04Sub) (bool, error) {
	sources := [][]verifC04Chunk{}
	if c.Conv == "" || c.Conv == "none" {
		sources = append(sources, st.Raw)
	}
	if c.Conv != "none" {
		for i := 0; i < c.NConv; i++ {
			if c.Conv != "" && c.Conv != fmt.Sprintf("c%d", i) {
				continue
			}
			if i < len(st.Conv) && st.Conv[i] != nil {
				sources = append(sources, st.Conv[i])
			}
		}
	}
	if len(sources) == 0 {
		for _, cd := range conds {
			if !cd.Inv {
				return false, nil
			}
		}
		return true, nil
	}
	// every condition is evaluated on every source (also after the result is clear) so that the substituted
	// expressions of all of them are known to the caller
	result := true
	for _, cd := range conds {
		succ := 0
		for _, src := range sources {
			ok, err := verifC04NaiveSeq(cd, src, subs)
			if err != nil {
				return false, err
			}
			if ok {
				succ++
			}
		}
		if cd.Inv && succ != len(sources) {
			result = false
		}
		if !cd.Inv && succ == 0 {
			result = false
		}
	}
	return result, nil
}

// the meaning of `e1 then e2 then ...` with negated elements, read off the text: every element is searched in the data that
// follows the last element that had to match; a plain element has to match there (and moves on), a negated one must not
func verifC04NaiveText(seq []verifC04SeqElem, chunks []verifC04Chunk) (bool, error) {
	data := [2][]byte{}
	type span struct{ dir, begin, end int }
	spans := []span{}
	for _, ch := range chunks {
		b, _ := hex.DecodeString(ch.Data)
		spans = append(spans, span{ch.Dir, len(data[ch.Dir]), len(data[ch.Dir]) + len(b)})
		data[ch.Dir] = append(data[ch.Dir], b...)
	}
	off := [2]int{}
	for _, e := range seq {
		rx, err := binaryregexp.Compile(e.Re)
		if err != nil {
			return false, err
		}
		loc := rx.FindIndex(data[e.Dir][off[e.Dir]:])
		if e.Neg {
			if loc != nil {
				return false, nil
			}
			continue
		}
		if loc == nil {
			return false, nil
		}
		if loc[1] != 0 {
			off[e.Dir] += loc[1]
			other, before := 1-e.Dir, 0
			for _, s := range spans {
				if s.dir == other {
					before = s.end
				} else if s.begin < off[e.Dir] && off[e.Dir] <= s.end {
					break
				}
			}
			off[other] = before
		}
	}
	return true, nil
}

func verifC04NaiveSeq(cd verifC04Cond, chunks []verifC04Chunk, subs *[]verifC04Sub) (bool, error) {
	data := [2][]byte{}
	type span struct{ dir, begin, end int }
	spans := []span{}
	for _, ch := range chunks {
		b, _ := hex.DecodeString(ch.Data)
		spans = append(spans, span{ch.Dir, len(data[ch.Dir]), len(data[ch.Dir]) + len(b)})
		data[ch.Dir] = append(data[ch.Dir], b...)
	}
	off := [2]int{}
	vars := map[string]string{}
	matched := 0
	for _, e := range cd.Elems {
		expr := e.Re
		vals := make([]string, len(e.Vars))
		for i := len(e.Vars) - 1; i >= 0; i-- {
			v := e.Vars[i]
			val, ok := vars[v.Name]
			if !ok {
				return false, fmt.Errorf("variable %q not defined", v.Name)
			}
			vals[i] = hex.EncodeToString([]byte(val))
			expr = expr[:v.Pos] + "(?:" + binaryregexp.QuoteMeta(val) + ")" + expr[v.Pos:]
		}
		if len(e.Vars) != 0 && subs != nil {
			vb, _ := json.Marshal(e.Vars)
			*subs = append(*subs, verifC04Sub{Re: e.Re, Vars: string(vb), Vals: vals, Expr: expr})
		}
		rx, err := binaryregexp.Compile(expr)
		if err != nil {
			return false, err
		}
		res := rx.FindSubmatchIndex(data[e.Dir][off[e.Dir]:])
		if res == nil {
			break
		}
		matched++
		if matched == len(cd.Elems) {
			break
		}
		for i, n := range rx.SubexpNames() {
			if n == "" || i == 0 {
				continue
			}
			if _, ok := vars[n]; ok {
				return false, fmt.Errorf("variable %q already seen", n)
			}
			if res[2*i] < 0 {
				vars[n] = ""
			} else {
				vars[n] = string(data[e.Dir][off[e.Dir]:][res[2*i]:res[2*i+1]])
			}
		}
		if res[1] != 0 {
			off[e.Dir] += res[1]
			// the other direction continues at the first chunk of its own that starts after the chunk
			// holding the last matched byte
			other := 1 - e.Dir
			seenOther := 0
			for _, s := range spans {
				if s.dir == other {
					seenOther = s.end
					continue
				}
				if s.begin < off[e.Dir] && off[e.Dir] <= s.end && s.end > s.begin {
					break
				}
			}
			off[other] = seenOther
		}
	}
	unmatched := len(cd.Elems) - matched
	if cd.Inv {
		return unmatched == 1, nil
	}
	return unmatched == 0, nil
}

func verifC04Run(c *verifC04Case, dir string) (out verifC04Out) {
	out = verifC04Out{ID: c.ID, Progs: map[string]string{}}
	// programs
	for _, conj := range c.Or {
		for _, cd := range conj {
			for _, e := range cd.Elems {
				re := e.Re
				// the precondition finalize() compiles for an element with variables
				for i := len(e.Vars) - 1; i >= 0; i-- {
					re = re[:e.Vars[i].Pos] + "(?:(?s:.*))" + re[e.Vars[i].Pos:]
				}
				if _, ok := out.Progs[re]; !ok {
					out.Progs[re] = verifC04DumpProg(re)
				}
			}
		}
	}
	// naive
	func() {
		defer func() {
			if r := recover(); r != nil {
				out.Naive = fmt.Sprintf("PANIC %v", r)
			}
		}()
		sel := []string{}
		for id := range c.Streams {
			any := false
			if c.Text != "" {
				ok, err := verifC04NaiveText(c.Seq, c.Streams[id].Raw)
				if err != nil {
					out.Naive = "ERR " + err.Error()
					return
				}
				any = ok
			}
			for _, conj := range c.Or {
				if c.Text != "" {
					break
				}
				ok, err := verifC04Naive(c, conj, &c.Streams[id], &out.Subs)
				if err != nil {
					out.Naive = "ERR " + err.Error()
					return
				}
				any = any || ok
			}
			// the non-data filter of the case (evaluated after the data conditions so that all substituted expressions are known)
			if sp := c.Streams[id].Sport; c.Sport != 0 && sp != c.Sport && !(sp == 0 && c.Sport == 80) {
				any = false
			}
			if any {
				sel = append(sel, strconv.Itoa(id))
			}
		}
		out.Naive = "OK " + strings.Join(sel, ",")
	}()
	for _, sb := range out.Subs {
		if _, ok := out.Progs[sb.Expr]; !ok {
			out.Progs[sb.Expr] = verifC04DumpProg(sb.Expr)
		}
	}
	// implementation
	func() {
		defer func() {
			if r := recover(); r != nil {
				out.Impl = fmt.Sprintf("PANIC %v", r)
			}
		}()
		w, err := NewWriter(tools.MakeFilename(dir, "idx"))
		if err != nil {
			out.Impl = "ERR writer " + err.Error()
			return
		}
		converters := map[string]ConverterAccess{}
		convs := make([]*verifC04Converter, c.NConv)
		for i := range convs {
			convs[i] = &verifC04Converter{data: map[uint64][]verifC04Chunk{}}
			converters[fmt.Sprintf("c%d", i)] = convs[i]
		}
		for id := range c.Streams {
			s := verifC04MakeStream(id, c.Streams[id].Raw, c.Streams[id].Sport)
			ok, err := w.AddStream(&s, uint64(id))
			if err != nil || !ok {
				out.Impl = fmt.Sprintf("ERR addstream %v %v", ok, err)
				return
			}
			for i, d := range c.Streams[id].Conv {
				if d != nil && i < len(convs) {
					convs[i].data[uint64(id)] = d
				}
			}
		}
		r, err := w.Finalize()
		if err != nil {
			out.Impl = "ERR finalize " + err.Error()
			return
		}
		defer func() {
			r.Close()
			os.Remove(r.Filename())
		}()
		extra := query.Conditions{}
		if c.Sport != 0 {
			q, err := query.Parse(fmt.Sprintf("sport:%d", c.Sport))
			if err != nil || len(q.Conditions) != 1 {
				out.Impl = "ERR parse sport filter"
				return
			}
			extra = q.Conditions[0]
		}
		qs := query.ConditionsSet{}
		if c.Text != "" {
			q, err := query.Parse(c.Text)
			if err != nil {
				out.Impl = "ERR parse text: " + err.Error()
				return
			}
			qs = q.Conditions
		}
		for _, conj := range c.Or {
			if c.Text != "" {
				break
			}
			cs := append(query.Conditions{}, extra...)
			for _, cd := range conj {
				dc := &query.DataCondition{Inverted: cd.Inv}
				for _, e := range cd.Elems {
					el := query.DataConditionElement{Regex: e.Re, Flags: uint8(e.Dir), ConverterName: c.Conv}
					for _, v := range e.Vars {
						el.Variables = append(el.Variables, query.DataConditionElementVariable{Position: v.Pos, Name: v.Name})
					}
					dc.Elements = append(dc.Elements, el)
				}
				cs = append(cs, dc)
			}
			qs = append(qs, cs)
		}
		sorting := []query.Sorting{{Key: query.SortingKeyID, Dir: query.SortingDirAscending}}
		res, _, _, err := SearchStreams(context.Background(), []*Reader{r}, nil, time.Now(), qs, nil, sorting, 1000, 0, nil, converters, false)
		if err != nil {
			out.Impl = "ERR " + err.Error()
			return
		}
		sel := []int{}
		for _, s := range res {
			sel = append(sel, int(s.StreamID))
		}
		sort.Ints(sel)
		ss := []string{}
		for _, s := range sel {
			ss = append(ss, strconv.Itoa(s))
		}
		out.Impl = "OK " + strings.Join(ss, ",")
	}()
	return out
}

func TestVerifC04(t *testing.T) {
	in := os.Getenv("VERIF_CASES")
	if in == "" {
		t.Skip("no VERIF_CASES")
	}
	f, err := os.Open(in)
	if err != nil {
		t.Fatal(err)
	}
	defer f.Close()
	of, err := os.Create(os.Getenv("VERIF_OUT"))
	if err != nil {
		t.Fatal(err)
	}
	defer of.Close()
	w := bufio.NewWriter(of)
	defer w.Flush()
	dir := t.TempDir()
	sc := bufio.NewScanner(f)
	sc.Buffer(make([]byte, 1<<20), 1<<26)
	for sc.Scan() {
		c := verifC04Case{}
		if err := json.Unmarshal(sc.Bytes(), &c); err != nil {
			fmt.Fprintf(w, "{\"id\":-1,\"impl\":\"ERR case %s\"}\n", strings.ReplaceAll(err.Error(), "\"", "'"))
			continue
		}
		fmt.Fprintf(w, "{\"begin\":%d}\n", c.ID)
		w.Flush()
		out := verifC04Run(&c, dir)
		b, _ := json.Marshal(out)
		w.Write(b)
		w.WriteByte('\n')
		w.Flush()
	}
}
