package converters

// Correspondence harness for C15, injected with `go test -overlay` (add-only).
// Reads op histories from $VERIF_CASES, drives one real cacheFile per history and
// writes one observation line per op to $VERIF_OUT.  See checks/c15.py for the
// case and observation formats.

import (
	"bufio"
	"encoding/hex"
	"fmt"
	"hash/crc32"
	"io"
	"log"
	"os"
	"path/filepath"
	"sort"
	"strconv"
	"strings"
	"testing"
	"time"

	"github.com/spq/pkappa2/internal/index"
	"github.com/spq/pkappa2/internal/tools/bitmask"
)

type verifC15 struct {
	dir  string
	path string
	cf   *cacheFile
	ids  []uint64
	t0   map[uint64]int64
}

func verifC15U64(s string) uint64 {
	v, err := strconv.ParseUint(s, 10, 64)
	if err != nil {
		panic(err)
	}
	return v
}

func verifC15I64(s string) int64 {
	v, err := strconv.ParseInt(s, 10, 64)
	if err != nil {
		panic(err)
	}
	return v
}

// content spec: h<hex> | p<len>.<seed>  (byte i = seed + 131*i + 7*(i>>8))
func verifC15Content(s string) []byte {
	if strings.HasPrefix(s, "h") {
		b, err := hex.DecodeString(s[1:])
		if err != nil {
			panic(err)
		}
		return b
	}
	parts := strings.SplitN(s[1:], ".", 2)
	n, seed := int(verifC15U64(parts[0])), int(verifC15U64(parts[1]))
	b := make([]byte, n)
	for i := range b {
		b[i] = byte(seed + 131*i + 7*(i>>8))
	}
	return b
}

func verifC15Chunks(toks []string) []index.Data {
	res := []index.Data{}
	for _, tok := range toks {
		f := strings.Split(tok, ",")
		ct, err := hex.DecodeString(f[3])
		if err != nil {
			panic(err)
		}
		dir := index.DirectionClientToServer
		if f[0] == "1" {
			dir = index.DirectionServerToClient
		}
		res = append(res, index.Data{
			Direction:   dir,
			Content:     verifC15Content(f[1]),
			Time:        time.Unix(0, verifC15I64(f[2])).UTC(),
			ContentType: string(ct),
		})
	}
	return res
}

func (v *verifC15) obsID(sb *strings.Builder, cf *cacheFile, id uint64) {
	c := "0"
	if cf.Contains(id) {
		c = "1"
	}
	fmt.Fprintf(sb, "%d:%s:D", id, c)
	data, cb, sbts, err := cf.data(id, time.Unix(0, v.t0[id]).UTC())
	switch {
	case err != nil:
		sb.WriteString("E")
	case data == nil:
		sb.WriteString("-")
	default:
		fmt.Fprintf(sb, "%d,%d", cb, sbts)
		for _, d := range data {
			fmt.Fprintf(sb, ";%d,%d,%08x,%d,%s", d.Direction, len(d.Content), crc32.ChecksumIEEE(d.Content), d.Time.UnixNano(), hex.EncodeToString([]byte(d.ContentType)))
		}
	}
	sb.WriteString(":S")
	bufs, sizes, cb2, sb2, present, err := cf.DataForSearch(id)
	switch {
	case err != nil:
		sb.WriteString("E")
	case !present:
		sb.WriteString("-")
	default:
		fmt.Fprintf(sb, "%d,%d,%08x,%08x", cb2, sb2, crc32.ChecksumIEEE(bufs[0]), crc32.ChecksumIEEE(bufs[1]))
		for _, p := range sizes {
			fmt.Fprintf(sb, ";%d,%d", p[0], p[1])
		}
	}
}

func (v *verifC15) obs(cf *cacheFile, ids []uint64) string {
	sb := &strings.Builder{}
	fmt.Fprintf(sb, "C=%d", cf.StreamCount())
	for _, id := range ids {
		sb.WriteString(" ")
		v.obsID(sb, cf, id)
	}
	return sb.String()
}

func (v *verifC15) drift(cf *cacheFile) string {
	disk := int64(-1)
	if st, err := os.Stat(cf.cachePath); err == nil {
		disk = st.Size()
	}
	return fmt.Sprintf(" # fs=%d free=%d fstart=%d disk=%d", cf.fileSize, cf.freeSize, cf.freeStart, disk)
}

func (v *verifC15) closeFile() {
	if v.cf != nil {
		v.cf.Close()
		v.cf = nil
	}
}

// one op; returns the observation line
func (v *verifC15) apply(tok []string, probes []uint64) string {
	if tok[0] != "H" && v.cf == nil {
		return "DEAD"
	}
	ret := "ok"
	switch tok[0] {
	case "store":
		id := verifC15U64(tok[1])
		if err := v.cf.setData(id, time.Unix(0, v.t0[id]).UTC(), verifC15Chunks(tok[2:])); err != nil {
			ret = "err"
		}
	case "inval":
		bm := bitmask.LongBitmask{}
		if len(tok) > 1 && tok[1] != "" {
			for _, s := range strings.Split(tok[1], ",") {
				bm.Set(uint(verifC15U64(s)))
			}
		}
		res := v.cf.InvalidateChangedStreams(&bm)
		got := []string{}
		for id := uint(0); res.Next(&id); id++ {
			got = append(got, strconv.FormatUint(uint64(id), 10))
		}
		ret = "inv=" + strings.Join(got, ",")
	case "reset":
		if err := v.cf.Reset(); err != nil {
			ret = "err"
		}
	case "compact":
		v.cf.rwmutex.Lock()
		err := v.cf.truncateFile()
		v.cf.rwmutex.Unlock()
		if err != nil {
			ret = "err"
		}
	case "reopen", "crash":
		v.closeFile()
		if tok[0] == "crash" {
			// a crash leaves a prefix of the file (never extend it)
			n := verifC15I64(tok[1])
			if st, err := os.Stat(v.path); err != nil {
				panic(err)
			} else if n < st.Size() {
				if err := os.Truncate(v.path, n); err != nil {
					panic(err)
				}
			}
		}
		cf, err := NewCacheFile(v.path)
		if err != nil {
			return "err"
		}
		v.cf = cf
	case "sweep":
		// every truncation point from tok[1] to the end, each on a copy of the file
		v.cf.rwmutex.Lock()
		v.cf.file.Sync()
		v.cf.rwmutex.Unlock()
		content, err := os.ReadFile(v.path)
		if err != nil {
			panic(err)
		}
		sb := &strings.Builder{}
		fmt.Fprintf(sb, "sweep size=%d", len(content))
		// runs of equal results: first-last:result
		start, prev := 0, ""
		flushRun := func(last int) {
			if prev != "" {
				fmt.Fprintf(sb, " %d-%d:%s", start, last, prev)
			}
		}
		from := int(verifC15I64(tok[1]))
		if from < len(content)-400 {
			from = len(content) - 400 // at most 401 truncation points
		}
		for n := from; n <= len(content); n++ {
			p := filepath.Join(v.dir, "sweep.cidx")
			if err := os.WriteFile(p, content[:n], 0644); err != nil {
				panic(err)
			}
			r := "err"
			if cf, err := NewCacheFile(p); err == nil {
				r = fmt.Sprintf("ok:%08x", crc32.ChecksumIEEE([]byte(v.obs(cf, v.ids))))
				cf.Close()
			}
			if r != prev {
				flushRun(n - 1)
				start, prev = n, r
			}
		}
		flushRun(len(content))
		return sb.String()
	default:
		panic("unknown op " + tok[0])
	}
	return ret + " " + v.obs(v.cf, probes) + v.drift(v.cf)
}

func TestVerifC15(t *testing.T) {
	in := os.Getenv("VERIF_CASES")
	if in == "" {
		t.Skip("no VERIF_CASES")
	}
	log.SetOutput(io.Discard)
	f, err := os.Open(in)
	if err != nil {
		t.Fatal(err)
	}
	defer f.Close()
	of, err := os.Create(os.Getenv("VERIF_OUT"))
	if err != nil {
		t.Fatal(err)
	}
	defer of.Close()
	w := bufio.NewWriter(of)
	defer w.Flush()

	v := &verifC15{dir: t.TempDir()}
	v.path = filepath.Join(v.dir, "verif.cidx")
	sc := bufio.NewScanner(f)
	sc.Buffer(make([]byte, 1<<20), 1<<28)
	for sc.Scan() {
		line := sc.Text()
		if line == "" {
			continue
		}
		parts := strings.SplitN(line, ";", 2)
		tok := strings.Fields(parts[0])
		probes := []uint64{}
		if len(parts) == 2 {
			for _, p := range strings.Fields(parts[1]) {
				probes = append(probes, verifC15U64(p))
			}
		}
		if tok[0] == "H" {
			// H <index> <id>:<t0> ...
			v.closeFile()
			os.Remove(v.path)
			v.ids = nil
			v.t0 = map[uint64]int64{}
			for _, s := range tok[2:] {
				kv := strings.SplitN(s, ":", 2)
				id := verifC15U64(kv[0])
				v.ids = append(v.ids, id)
				v.t0[id] = verifC15I64(kv[1])
			}
			sort.Slice(v.ids, func(i, j int) bool { return v.ids[i] < v.ids[j] })
			cf, err := NewCacheFile(v.path)
			if err != nil {
				t.Fatal(err)
			}
			v.cf = cf
			fmt.Fprintf(w, "H %s\n", tok[1])
			w.Flush()
			continue
		}
		var out string
		panicked := func() (p interface{}) {
			defer func() { p = recover() }()
			out = v.apply(tok, probes)
			return nil
		}()
		if panicked != nil {
			out = fmt.Sprintf("PANIC %v", panicked)
			// the object may hold its lock: start over with whatever is on disk
			v.cf = nil
		}
		fmt.Fprintln(w, out)
		w.Flush()
	}
	v.closeFile()
}
