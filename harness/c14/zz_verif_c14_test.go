package query

// Worker of the C14 check (the query parser is total), injected with `go test -overlay` together with
// harness/c03/zz_verif_c03_test.go (shared dumper / evaluator).
//
// Runs in a subprocess that the Python side watches: for every input (hex encoded bytes, one per line of
// $VERIF_CASES, starting at $VERIF_SKIP) it writes, flushed line by line,
//     BEGIN <i>
//     EST <i> <bound on the number of conjuncts of any intermediate normal form | -1 if the grammar rejects>
//     END <i> <json>
// to $VERIF_OUT. When a BEGIN is not followed by its END in time the parent kills the process group and
// attributes the hang to input i (a spinning Parse cannot be interrupted from inside). A heap watchdog
// ends the process with `MEM <i>` before the tested code can exhaust memory.

import (
	"bufio"
	"encoding/hex"
	"encoding/json"
	"fmt"
	"os"
	"runtime"
	"strconv"
	"sync/atomic"
	"testing"
	"time"
)

// bound on the number of conjuncts / conditions per conjunct of the uncleaned normal form of e;
// worst collects the largest number of conjuncts of any sub-expression (negation multiplies).
func vCost(e *vExpr, worst *float64) (n, c float64) {
	const cap = 1e12
	min := func(a, b float64) float64 {
		if a < b {
			return a
		}
		return b
	}
	switch e.Op {
	case "skip":
		return 0, 0
	case "atom":
		a := e.Atom
		switch a.Kind {
		case "tag":
			n, c = float64(len(a.Tags)), 1
		case "proto":
			n, c = float64(len(a.Protos)), 3
		case "host":
			n, c = float64(len(a.Hosts)), 1
			if a.Key == "host" {
				n *= 2
			}
		case "num":
			n, c = float64(len(a.Ranges)), 2
			if a.Key == "port" || a.Key == "bytes" {
				n *= 2
			}
		case "time":
			n, c = float64(len(a.Ranges)), 2
		case "data":
			n, c = float64(len(a.Elems)), 1
		}
	case "not":
		kn, kc := vCost(e.Kids[0], worst)
		if kn == 0 {
			return 0, 0
		}
		if kc < 1 {
			kc = 1
		}
		n = 1
		for i := 0; i < int(min(kn, 64)) && n < cap; i++ {
			n *= kc
		}
		if kn > 64 && kc > 1 {
			n = cap
		}
		c = kn
		if c < 3 {
			c = 3
		}
	case "or":
		for _, k := range e.Kids {
			kn, kc := vCost(k, worst)
			n += kn
			if kc > c {
				c = kc
			}
		}
	default:
		n = 0
		for _, k := range e.Kids {
			kn, kc := vCost(k, worst)
			if kn == 0 {
				continue
			}
			if n == 0 {
				n = 1
			}
			n = min(n*kn, cap)
			c += kc
		}
		if e.Op == "then" {
			c = c*2 + 1
		}
	}
	n = min(n, cap)
	if n > *worst {
		*worst = n
	}
	return n, c
}

func vEstimate(text string) (est float64, why string) {
	defer func() {
		if x := recover(); x != nil {
			est, why = -2, "panic in grammar/value parser: "+fmt.Sprint(x)
		}
	}()
	root, err := parser.ParseString("", text)
	if err != nil {
		return -1, "grammar"
	}
	if root.Term == nil {
		return 0, ""
	}
	d := &vDumper{loc: time.Local, ref: time.Now()}
	tree, derr := d.or(root.Term)
	if derr != nil {
		return -1, "value"
	}
	worst := 0.0
	vCost(tree, &worst)
	return worst, ""
}

func TestVerifC14Worker(t *testing.T) {
	in := os.Getenv("VERIF_CASES")
	if in == "" {
		t.Skip("no VERIF_CASES")
	}
	f, err := os.Open(in)
	if err != nil {
		t.Fatal(err)
	}
	defer f.Close()
	of, err := os.OpenFile(os.Getenv("VERIF_OUT"), os.O_CREATE|os.O_WRONLY|os.O_APPEND, 0o644)
	if err != nil {
		t.Fatal(err)
	}
	defer of.Close()
	say := func(format string, a ...interface{}) {
		fmt.Fprintf(of, format+"\n", a...)
	}
	skip := 0
	if s := os.Getenv("VERIF_SKIP"); s != "" {
		skip, _ = strconv.Atoi(s)
	}
	nvals := 12
	if s := os.Getenv("VERIF_NVALS"); s != "" {
		nvals, _ = strconv.Atoi(s)
	}
	seed := int64(1)
	if s := os.Getenv("VERIF_SEED"); s != "" {
		seed, _ = strconv.ParseInt(s, 10, 64)
	}
	memLimit := uint64(1500) << 20
	if s := os.Getenv("VERIF_MEM_MB"); s != "" {
		mb, _ := strconv.Atoi(s)
		memLimit = uint64(mb) << 20
	}
	var mw *bufio.Writer
	if p := os.Getenv("VERIF_MODEL_IN"); p != "" {
		mf, err := os.OpenFile(p, os.O_CREATE|os.O_WRONLY|os.O_APPEND, 0o644)
		if err != nil {
			t.Fatal(err)
		}
		defer mf.Close()
		mw = bufio.NewWriter(mf)
		defer mw.Flush()
	}
	var current int64 = -1
	go func() {
		var ms runtime.MemStats
		for {
			time.Sleep(50 * time.Millisecond)
			runtime.ReadMemStats(&ms)
			if ms.HeapAlloc > memLimit {
				say("MEM %d %d", atomic.LoadInt64(&current), ms.HeapAlloc>>20)
				of.Sync()
				os.Exit(4)
			}
		}
	}()
	sc := bufio.NewScanner(f)
	sc.Buffer(make([]byte, 1<<20), 1<<28)
	i := -1
	for sc.Scan() {
		i++
		if i < skip {
			continue
		}
		raw, err := hex.DecodeString(sc.Text())
		if err != nil {
			t.Fatalf("case %d: %v", i, err)
		}
		text := string(raw)
		atomic.StoreInt64(&current, int64(i))
		say("BEGIN %d", i)
		est, why := vEstimate(text)
		say("EST %d %.0f %s", i, est, why)
		// the in-process timer of vRunCase is set far beyond the parent's watchdog: the parent decides
		res := vRunCase(i, text, nvals, seed, time.Hour, mw)
		res.Vals, res.Tree, res.Q = nil, nil, ""
		if len(res.Norm) > 200 {
			res.Norm = res.Norm[:200]
		}
		b, err := json.Marshal(res)
		if err != nil {
			b = []byte(`{"panic":"harness: marshal"}`)
		}
		say("END %d %s", i, b)
	}
	say("DONE %d", i+1)
}
