package index

// Correspondence harness for C07, injected with `go test -overlay` together with the
// C01 harness file (case parser, stream builder and reader dump are shared).
//
// A case is an ordered list of index files (oldest first, FILE lines). The harness
// writes them, dumps every reader (F i), then for every suffix start k:
//   M k   : Merge(files[k:])                      -> output readers O k j
//   MM k  : Merge(files[:k] ++ outputs of M k)    -> output readers OO k j
// and runs the QUERY battery through SearchStreams over the original stack ("orig"),
// over files[:k] ++ M k ("m<k>") and over MM k ("mm<k>"). Finally the original readers
// are dumped again (A i): merging must not change what open readers show.

import (
	"bufio"
	"context"
	"fmt"
	"os"
	"strconv"
	"strings"
	"testing"
	"time"

	"github.com/spq/pkappa2/internal/query"
)

// verifC07Times replaces every @T<ns>@ by that instant in the syntax of the time filters, in the local time zone
// of the process (the parser interprets dates in time.Local): "2006-01-02 150405+<rest>ns".
func verifC07Times(q string) string {
	for {
		i := strings.Index(q, "@T")
		if i < 0 {
			return q
		}
		j := strings.Index(q[i+2:], "@")
		if j < 0 {
			return q
		}
		ns, err := strconv.ParseInt(q[i+2:i+2+j], 10, 64)
		if err != nil {
			return q
		}
		t := time.Unix(0, ns).Local()
		q = q[:i] + fmt.Sprintf("%s+%dns", t.Format("2006-01-02 150405"), t.Nanosecond()) + q[i+2+j+1:]
	}
}

func verifC07Search(w *bufio.Writer, stack string, rs []*Reader, queries []string) {
	for qi, qtext := range queries {
		func() {
			defer func() {
				if p := recover(); p != nil {
					fmt.Fprintf(w, "S %s %d PANIC %v\n", stack, qi, strings.ReplaceAll(fmt.Sprint(p), "\n", " "))
				}
			}()
			q, err := query.Parse(verifC07Times(qtext))
			if err != nil {
				fmt.Fprintf(w, "S %s %d parse-error\n", stack, qi)
				return
			}
			limit := uint(100000)
			if q.Limit != nil {
				limit = *q.Limit
			}
			res, more, _, err := SearchStreams(context.Background(), rs, nil, q.ReferenceTime, q.Conditions, q.Grouping, q.Sorting, limit, 0, nil, nil, false)
			if err != nil {
				fmt.Fprintf(w, "S %s %d search-error\n", stack, qi)
				return
			}
			fmt.Fprintf(w, "S %s %d more=%v", stack, qi, more)
			for _, s := range res {
				fmt.Fprintf(w, " %d", s.ID())
			}
			fmt.Fprintf(w, "\n")
		}()
	}
}

func TestVerifC07(t *testing.T) {
	in := os.Getenv("VERIF_CASES")
	if in == "" {
		t.Skip("no VERIF_CASES")
	}
	of, err := os.Create(os.Getenv("VERIF_OUT"))
	if err != nil {
		t.Fatal(err)
	}
	defer of.Close()
	w := bufio.NewWriterSize(of, 1<<20)
	defer w.Flush()
	n := 0
	err = verifC01ReadCases(in, func(c *verifC01Case) {
		n++
		tmp, err := os.MkdirTemp(t.TempDir(), "c")
		if err != nil {
			t.Fatal(err)
		}
		fmt.Fprintf(w, "CASE %s\n", c.name)
		opened := []*Reader{}
		func() {
			defer func() {
				if p := recover(); p != nil {
					fmt.Fprintf(w, "PANIC %v\n", strings.ReplaceAll(fmt.Sprint(p), "\n", " "))
				}
			}()
			files := []*Reader{}
			for i, st := range c.fileStart {
				end := len(c.streams)
				if i+1 < len(c.fileStart) {
					end = c.fileStart[i+1]
				}
				r, res := verifC01Write(tmp, fmt.Sprintf("f%d_%d", n, i), c.streams[st:end])
				fmt.Fprintf(w, "F %d %s\n", i, res)
				if r == nil {
					return
				}
				opened = append(opened, r)
				files = append(files, r)
				verifDumpReader(w, r, nil, nil)
			}
			verifC07Search(w, "orig", files, c.queries)
			w.Flush()
			for k := range files {
				merged, err := Merge(tmp, files[k:])
				if err != nil {
					fmt.Fprintf(w, "M %d err\n", k)
					continue
				}
				opened = append(opened, merged...)
				fmt.Fprintf(w, "M %d %d\n", k, len(merged))
				for j, r := range merged {
					fmt.Fprintf(w, "O %d %d\n", k, j)
					verifDumpReader(w, r, nil, nil)
				}
				stack := append(append([]*Reader{}, files[:k]...), merged...)
				verifC07Search(w, fmt.Sprintf("m%d", k), stack, c.queries)
				w.Flush()
				merged2, err := Merge(tmp, stack)
				if err != nil {
					fmt.Fprintf(w, "MM %d err\n", k)
					continue
				}
				opened = append(opened, merged2...)
				fmt.Fprintf(w, "MM %d %d\n", k, len(merged2))
				for j, r := range merged2 {
					fmt.Fprintf(w, "OO %d %d\n", k, j)
					verifDumpReader(w, r, nil, nil)
				}
				verifC07Search(w, fmt.Sprintf("mm%d", k), merged2, c.queries)
				w.Flush()
			}
			for i, r := range files {
				fmt.Fprintf(w, "A %d\n", i)
				verifDumpReader(w, r, nil, nil)
			}
		}()
		for _, r := range opened {
			r.Close()
		}
		os.RemoveAll(tmp)
		fmt.Fprintf(w, "ENDCASE\n")
		w.Flush()
	})
	if err != nil {
		t.Fatal(err)
	}
}
