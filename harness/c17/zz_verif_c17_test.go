package bitmask

// Correspondence harness for C17, injected with `go test -overlay` (add-only).
// Reads op histories from $VERIF_CASES, applies them to the three bitmask
// representations and writes one observation line per op to $VERIF_OUT.

import (
	"bufio"
	"fmt"
	"os"
	"strconv"
	"strings"
	"testing"
)

const verifRegs = 4

type verifReg struct {
	c ConnectedBitmask
	s ShortBitmask
	l LongBitmask
}

func verifAtoi(s string) uint {
	v, err := strconv.ParseUint(s, 10, 64)
	if err != nil {
		panic(err)
	}
	return uint(v)
}

func verifB(b bool) string {
	if b {
		return "1"
	}
	return "0"
}

func TestVerifC17(t *testing.T) {
	in := os.Getenv("VERIF_CASES")
	if in == "" {
		t.Skip("no VERIF_CASES")
	}
	f, err := os.Open(in)
	if err != nil {
		t.Fatal(err)
	}
	defer f.Close()
	of, err := os.Create(os.Getenv("VERIF_OUT"))
	if err != nil {
		t.Fatal(err)
	}
	defer of.Close()
	w := bufio.NewWriter(of)
	defer w.Flush()

	var regs [verifRegs]verifReg
	sc := bufio.NewScanner(f)
	sc.Buffer(make([]byte, 1<<20), 1<<26)
	for sc.Scan() {
		line := sc.Text()
		if line == "" {
			continue
		}
		parts := strings.SplitN(line, ";", 2)
		tok := strings.Fields(parts[0])
		probes := []uint{}
		if len(parts) == 2 {
			for _, p := range strings.Split(strings.TrimSpace(parts[1]), ",") {
				if p != "" {
					probes = append(probes, verifAtoi(p))
				}
			}
		}
		if tok[0] == "H" {
			regs = [verifRegs]verifReg{}
			fmt.Fprintf(w, "H %s\n", tok[1])
			w.Flush()
			continue
		}
		ret := ""
		d := int(verifAtoi(tok[1]))
		R := &regs[d]
		panicked := func() (p interface{}) {
			defer func() { p = recover() }()
			verifApply(t, tok, R, &regs, &ret)
			return nil
		}()
		if panicked != nil {
			fmt.Fprintf(w, "PANIC %v\n", panicked)
			continue
		}
		verifObserve(w, R, &regs, probes, ret)
	}
}

func verifApply(t *testing.T, tok []string, R *verifReg, regsp *[verifRegs]verifReg, retp *string) {
	regs := regsp
	ret := ""
	defer func() { *retp = ret }()
	{
		switch tok[0] {
		case "set":
			b := verifAtoi(tok[2])
			R.c.Set(b)
			R.s.Set(b)
			R.l.Set(b)
		case "unset":
			b := verifAtoi(tok[2])
			R.c.Unset(b)
			R.s.Unset(b)
			R.l.Unset(b)
		case "flip":
			b := verifAtoi(tok[2])
			R.c.Flip(b)
			R.s.Flip(b)
			R.l.Flip(b)
		case "or", "and", "xor", "sub":
			o := regs[verifAtoi(tok[2])]
			switch tok[0] {
			case "or":
				R.c.Or(o.c)
				R.s.Or(o.s)
				R.l.Or(o.l)
			case "and":
				R.c.And(o.c)
				R.s.And(o.s)
				R.l.And(o.l)
			case "xor":
				R.c.Xor(o.c)
				R.s.Xor(o.s)
				R.l.Xor(o.l)
			case "sub":
				R.c.Sub(o.c)
				R.s.Sub(o.s)
				R.l.Sub(o.l)
			}
		case "orc", "andc", "xorc", "subc":
			a, o := regs[verifAtoi(tok[2])], regs[verifAtoi(tok[3])]
			switch tok[0] {
			case "orc":
				*R = verifReg{a.c.OrCopy(o.c), a.s.OrCopy(o.s), a.l.OrCopy(o.l)}
			case "andc":
				*R = verifReg{a.c.AndCopy(o.c), a.s.AndCopy(o.s), a.l.AndCopy(o.l)}
			case "xorc":
				*R = verifReg{a.c.XorCopy(o.c), a.s.XorCopy(o.s), a.l.XorCopy(o.l)}
			case "subc":
				*R = verifReg{a.c.SubCopy(o.c), a.s.SubCopy(o.s), a.l.SubCopy(o.l)}
			}
		case "copy":
			a := regs[verifAtoi(tok[2])]
			*R = verifReg{a.c.Copy(), a.s.Copy(), a.l.Copy()}
		case "shrink":
			// ConnectedBitmask has no Shrink (nothing to shrink)
			R.s.Shrink()
			R.l.Shrink()
		case "inject":
			b, v := verifAtoi(tok[2]), tok[3] == "1"
			R.c.Inject(b, v)
			R.s.Inject(b, v)
			R.l.Inject(b, v)
		case "extract":
			b := verifAtoi(tok[2])
			rc := R.c.Extract(b)
			rs := R.s.Extract(b)
			// LongBitmask has no Extract: rebuild it from the ShortBitmask
			nl := LongBitmask{}
			for i := uint(0); i < uint(R.s.Len()); i++ {
				if R.s.IsSet(i) {
					nl.Set(i)
				}
			}
			R.l = nl
			ret = " ret=" + verifB(rc) + verifB(rs)
		case "make":
			mn, mx := verifAtoi(tok[2]), verifAtoi(tok[3])
			R.c = MakeConnectedBitmask(mn, mx)
			R.s = ShortBitmask{}
			R.l = LongBitmask{}
			for i := mn; i <= mx; i++ {
				R.s.Set(i)
				R.l.Set(i)
			}
		default:
			t.Fatalf("unknown op %q", tok[0])
		}
	}
}

func verifObserve(w *bufio.Writer, R *verifReg, regs *[verifRegs]verifReg, probes []uint, ret string) {
	{
		var sb strings.Builder
		// ConnectedBitmask
		sb.WriteString("C:")
		for _, p := range probes {
			sb.WriteString(verifB(R.c.IsSet(p)))
		}
		fmt.Fprintf(&sb, "/%d/%d/%s/", R.c.OnesCount(), R.c.Len(), verifB(R.c.IsZero()))
		for i := range regs {
			sb.WriteString(verifB(R.c.Equal(regs[i].c)))
		}
		sb.WriteString(" S:")
		for _, p := range probes {
			sb.WriteString(verifB(R.s.IsSet(p)))
		}
		fmt.Fprintf(&sb, "/%d/%d/%s/", R.s.OnesCount(), R.s.Len(), verifB(R.s.IsZero()))
		for i := range regs {
			sb.WriteString(verifB(R.s.Equal(regs[i].s)))
		}
		sb.WriteString(" L:")
		for _, p := range probes {
			sb.WriteString(verifB(R.l.IsSet(p)))
		}
		fmt.Fprintf(&sb, "/%d/%d/%s/", R.l.OnesCount(), R.l.Len(), verifB(R.l.IsZero()))
		for i := range regs {
			sb.WriteString(verifB(R.l.Equal(regs[i].l)))
		}
		sb.WriteString("/")
		for i, p := range probes {
			if i != 0 {
				sb.WriteString(",")
			}
			q := p
			if R.l.Next(&q) {
				fmt.Fprintf(&sb, "%d", q)
			} else {
				sb.WriteString("-")
			}
		}
		sb.WriteString(ret)
		fmt.Fprintln(w, sb.String())
	}
}
