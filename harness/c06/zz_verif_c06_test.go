package manager

// Gated scenario harness for C06 / C16 / C09 (tags, uncertainty, converters,
// settling).  Injected with `go test -tags verif -overlay` (add-only).
//
// $VERIF_CASES : JSON file {"scenarios":[...]}; $VERIF_OUT : one JSON line per
// executed action (flushed per line).  Every background job of the manager parks
// inside VerifGate at "<job>.start" and "<job>.done"; the scenario decides when a
// parked job advances ("step").  Between actions the harness waits until the
// service loop is idle and dumps the manager state from inside the service loop,
// plus what a fresh View reports.
//
// The harness never edits manager state; it only reads it (inside the loop) and
// replaces mgr.jobs by a forwarding channel so that it can tell which closures
// have been executed (name of the closure's enclosing function).

import (
	"bufio"
	"context"
	"encoding/json"
	"fmt"
	"io"
	"log"
	"math/rand"
	"net/netip"
	"os"
	"path/filepath"
	"reflect"
	"runtime"
	"sort"
	"strconv"
	"strings"
	"sync"
	"testing"
	"time"

	"github.com/gopacket/gopacket"
	"github.com/gopacket/gopacket/layers"
	"github.com/spq/pkappa2/internal/query"
	"github.com/spq/pkappa2/internal/tools/bitmask"
)

// ---------------------------------------------------------------- gate controller

type vf6Job struct {
	seq   int
	kind  string // import | merge | tag | convert
	phase int    // 0 parked at start, 1 running body, 2 parked at done, 3 released at done (completion pending)
	gid   uint64
	rel   chan struct{}
}

type vf6Ctl struct {
	mu       sync.Mutex
	jobs     []*vf6Job
	seq      int
	passthru bool
}

func vf6Gid() uint64 {
	var buf [64]byte
	n := runtime.Stack(buf[:], false)
	f := strings.Fields(string(buf[:n]))
	if len(f) < 2 {
		return 0
	}
	v, _ := strconv.ParseUint(f[1], 10, 64)
	return v
}

func (c *vf6Ctl) gate(point string) {
	kind, ph, _ := strings.Cut(point, ".")
	gid := vf6Gid()
	c.mu.Lock()
	if c.passthru {
		c.mu.Unlock()
		return
	}
	var j *vf6Job
	if ph == "start" {
		j = &vf6Job{seq: c.seq, kind: kind, phase: 0, gid: gid, rel: make(chan struct{})}
		c.seq++
		c.jobs = append(c.jobs, j)
	} else {
		for _, x := range c.jobs {
			if x.gid == gid && x.phase == 1 {
				j = x
			}
		}
		if j == nil { // job started while passthru was on
			c.mu.Unlock()
			return
		}
		j.phase = 2
		j.rel = make(chan struct{})
	}
	rel := j.rel
	c.mu.Unlock()
	<-rel
}

func (c *vf6Ctl) snapshot() []vf6Job {
	c.mu.Lock()
	defer c.mu.Unlock()
	out := make([]vf6Job, 0, len(c.jobs))
	for _, j := range c.jobs {
		out = append(out, *j)
	}
	return out
}

// ---------------------------------------------------------------- forwarding job channel

type vf6Proxy struct {
	mu       sync.Mutex
	orig, in chan func()
	posted   int
	executed int
	names    map[string]int // executed closures by enclosing function
	panics   []string
}

func vf6FuncName(f func()) string {
	fn := runtime.FuncForPC(reflect.ValueOf(f).Pointer())
	if fn == nil {
		return "?"
	}
	n := fn.Name()
	if i := strings.LastIndex(n, "/"); i >= 0 {
		n = n[i+1:]
	}
	return n
}

func vf6Enclosing(n string) string {
	// manager.(*Manager).updateTagJob.func2 -> updateTagJob
	parts := strings.Split(n, ".")
	for i := len(parts) - 1; i >= 0; i-- {
		p := parts[i]
		if strings.HasPrefix(p, "func") || strings.HasPrefix(p, "gowrap") || p == "" || (p[0] >= '0' && p[0] <= '9') {
			continue
		}
		return p
	}
	return n
}

func (p *vf6Proxy) run() {
	for f := range p.in {
		name := vf6Enclosing(vf6FuncName(f))
		p.mu.Lock()
		p.posted++
		p.mu.Unlock()
		g := f
		p.orig <- func() {
			g()
			p.mu.Lock()
			p.executed++
			p.names[name]++
			p.mu.Unlock()
		}
	}
}

func (p *vf6Proxy) counts() (int, int) {
	p.mu.Lock()
	defer p.mu.Unlock()
	return p.posted, p.executed
}

func (p *vf6Proxy) count(name string) int {
	p.mu.Lock()
	defer p.mu.Unlock()
	return p.names[name]
}

var vf6JobFunc = map[string]string{"import": "importPcapJob", "merge": "mergeIndexesJob", "tag": "updateTagJob", "convert": "convertStreamJob"}

// ---------------------------------------------------------------- scenario format

type vf6Packet struct {
	Flow int    `json:"flow"`
	Dir  int    `json:"dir"` // 0: a->b, 1: b->a
	T    int    `json:"t"`   // milliseconds after the base time
	Data string `json:"data"`
}
type vf6Flow struct {
	A string `json:"a"` // ip:port
	B string `json:"b"`
}
type vf6Scenario struct {
	Name       string            `json:"name"`
	Flows      []vf6Flow         `json:"flows"`
	Files      [][]vf6Packet     `json:"files"`
	Converters []string          `json:"converters"`
	Actions    []json.RawMessage `json:"actions"`
	Budget     int               `json:"budget"`
	Searches   []string          `json:"searches"`
	Corrupt    []int             `json:"corrupt"` // capture files that are written as garbage (unreadable)
}

type vf6TagDump struct {
	Def   string   `json:"def"`
	M     []uint   `json:"m"`
	U     []uint   `json:"u"`
	Conv  []string `json:"conv"`
	RefBy []string `json:"refby"`
	MF    uint8    `json:"mf"`
	SF    uint8    `json:"sf"`
	MT    []string `json:"mt"`
	ST    []string `json:"st"`
}
type vf6State struct {
	Next    uint64                       `json:"next"`
	All     int                          `json:"all"`
	Tags    map[string]vf6TagDump        `json:"tags"`
	Upd     []uint                       `json:"upd"`
	Rst     []uint                       `json:"rst"`
	Add     []uint                       `json:"add"`
	FMerge  bool                         `json:"fmerge"`
	FTag    bool                         `json:"ftag"`
	FConv   bool                         `json:"fconv"`
	Queue   []int                        `json:"queue"`
	ToConv  map[string][]uint            `json:"toconv"`
	Cache   map[string]map[string]string `json:"cache"` // converter -> stream id -> cached output (client bytes)
	NIdx    int                          `json:"nidx"`
	IdxCnt  []int                        `json:"idxcnt"`
	Unmerge int                          `json:"unmerge"`
	Jobs    []string                     `json:"jobs"` // parked jobs kind:phase
	Merge   bool                         `json:"mergeEligible"`
}
type vf6StreamObs struct {
	ID   uint64   `json:"id"`
	CP   uint16   `json:"cp"`
	SP   uint16   `json:"sp"`
	CH   string   `json:"ch"`
	SH   string   `json:"sh"`
	C    string   `json:"c"`
	S    string   `json:"s"`
	FT   int64    `json:"ft"` // ms after base
	LT   int64    `json:"lt"`
	Tags []string `json:"tags"` // AllTags (view after prefetch of all tags)
	Has  []string `json:"has"`  // names with HasTag true
}
type vf6ViewObs struct {
	Streams     []vf6StreamObs      `json:"streams"`
	Searches    map[string][]uint64 `json:"searches"`
	Err         string              `json:"err,omitempty"`
	PrefetchErr string              `json:"prefetchErr,omitempty"`
}
type vf6Line struct {
	Scn   string      `json:"scn"`
	I     int         `json:"i"`
	Act   interface{} `json:"act"`
	Res   string      `json:"res"`
	Info  interface{} `json:"info,omitempty"`
	State *vf6State   `json:"state,omitempty"`
	View  *vf6ViewObs `json:"view,omitempty"`
	Fresh *vf6ViewObs `json:"fresh,omitempty"`
	Ms    int64       `json:"ms"`
}

// ---------------------------------------------------------------- runner

type vf6Run struct {
	t           *testing.T
	mgr         *Manager
	ctl         *vf6Ctl
	px          *vf6Proxy
	scn         *vf6Scenario
	files       [][]string // scenario file index -> pcap file names
	fidx        map[string]int
	views       map[int]*View
	base        time.Time
	completions int
	sub         func(what string, err error) // emits one line per gate step inside "settle"
	mid         func()                       // runs once while the next stepped job body is running
}

func vf6Bits(b bitmask.LongBitmask) []uint {
	out := []uint{}
	for i := uint(0); b.Next(&i); i++ {
		out = append(out, i)
		if len(out) > 4096 {
			break
		}
	}
	return out
}

func (r *vf6Run) sync() {
	c := make(chan struct{})
	r.mgr.jobs <- func() { close(c) }
	<-c
}

// inLoop runs f inside the service loop and waits for it.
func (r *vf6Run) inLoop(f func()) {
	c := make(chan struct{})
	r.mgr.jobs <- func() { defer close(c); f() }
	<-c
}

func (r *vf6Run) flags() (imp, merge, tag, conv bool) {
	r.inLoop(func() {
		imp = len(r.mgr.importJobs) > 0
		merge, tag, conv = r.mgr.mergeJobRunning, r.mgr.taggingJobRunning, r.mgr.converterJobRunning
	})
	return
}

// settle waits until the service loop is idle and every job that should exist is parked at a gate.
func (r *vf6Run) settle() error {
	deadline := time.Now().Add(10 * time.Second)
	var want map[string]bool
	var have map[string]int
	for {
		imp, merge, tag, conv := r.flags()
		want = map[string]bool{"import": imp, "merge": merge, "tag": tag, "convert": conv}
		ok := true
		have = map[string]int{}
		for _, j := range r.ctl.snapshot() {
			have[j.kind]++
			if j.phase == 1 || j.phase == 3 {
				ok = false
			}
		}
		for k, w := range want {
			if w && have[k] == 0 {
				ok = false
			}
		}
		po, ex := r.px.counts()
		if ok && po == ex {
			return nil
		}
		if time.Now().After(deadline) {
			return fmt.Errorf("HANG settle: want=%v have=%v posted=%d executed=%d", want, have, po, ex)
		}
		time.Sleep(100 * time.Microsecond)
	}
}

// step advances parked job j by one gate.
func (r *vf6Run) bumpGen(conv string) {
	p := filepath.Join(filepath.Dir(filepath.Clean(r.mgr.ConverterDir)), "gen-"+conv)
	n := 0
	if b, err := os.ReadFile(p); err == nil {
		fmt.Sscanf(string(b), "%d", &n)
	}
	_ = os.WriteFile(p, []byte(fmt.Sprintf("%d\n", n+1)), 0644)
}

func (r *vf6Run) step(seq int) (string, error) {
	r.ctl.mu.Lock()
	var j *vf6Job
	for _, x := range r.ctl.jobs {
		if x.seq == seq {
			j = x
		}
	}
	if j == nil || (j.phase != 0 && j.phase != 2) {
		r.ctl.mu.Unlock()
		return "", fmt.Errorf("no parked job %d", seq)
	}
	from := j.phase
	kind := j.kind
	before := 0
	if from == 2 {
		before = r.px.count(vf6JobFunc[kind])
	}
	j.phase++
	close(j.rel)
	r.ctl.mu.Unlock()
	if f := r.mid; f != nil {
		// something that happens while the job body runs
		r.mid = nil
		f()
	}
	deadline := time.Now().Add(8 * time.Second)
	if from == 0 {
		for {
			r.ctl.mu.Lock()
			ph := j.phase
			r.ctl.mu.Unlock()
			if ph == 2 {
				return kind + ".start", nil
			}
			if time.Now().After(deadline) {
				return kind + ".start", fmt.Errorf("HANG job body %s did not reach its done gate", kind)
			}
			time.Sleep(200 * time.Microsecond)
		}
	}
	for r.px.count(vf6JobFunc[kind]) == before {
		if time.Now().After(deadline) {
			return kind + ".done", fmt.Errorf("HANG completion of %s not executed", kind)
		}
		time.Sleep(100 * time.Microsecond)
	}
	r.completions++
	r.ctl.mu.Lock()
	for i, x := range r.ctl.jobs {
		if x == j {
			r.ctl.jobs = append(r.ctl.jobs[:i], r.ctl.jobs[i+1:]...)
			break
		}
	}
	r.ctl.mu.Unlock()
	return kind + ".done", nil
}

func (r *vf6Run) parked() []vf6Job {
	js := r.ctl.snapshot()
	sort.Slice(js, func(a, b int) bool {
		if js[a].kind != js[b].kind {
			return js[a].kind < js[b].kind
		}
		return js[a].seq < js[b].seq
	})
	return js
}

func vf6Payload(ds []vf6Data) (string, string) {
	c, s := "", ""
	for _, d := range ds {
		if d.dir == 0 {
			c += d.content
		} else {
			s += d.content
		}
	}
	return c, s
}

type vf6Data struct {
	dir     int
	content string
}

func (r *vf6Run) mergeEligible() bool {
	// copy of the rule in startMergeJobIfNeeded, evaluated read-only
	mgr := r.mgr
	if mgr.mergeJobRunning || mgr.taggingJobRunning || mgr.converterJobRunning {
		return false
	}
	for _, t := range mgr.tags {
		if !t.Uncertain.IsZero() {
			return false
		}
	}
	n := mgr.nStreamRecords
	for i, idx := range mgr.indexes {
		c := idx.StreamCount()
		n -= c
		if i >= mgr.nUnmergeableIndexes && c < n {
			return true
		}
	}
	return false
}

func (r *vf6Run) dumpState() *vf6State {
	st := &vf6State{Tags: map[string]vf6TagDump{}, ToConv: map[string][]uint{}, Cache: map[string]map[string]string{}}
	r.inLoop(func() {
		mgr := r.mgr
		st.Next = mgr.nextStreamID
		st.All = mgr.allStreams.OnesCount()
		for n, t := range mgr.tags {
			d := vf6TagDump{Def: t.definition, M: vf6Bits(t.Matches), U: vf6Bits(t.Uncertain), Conv: t.converterNames(), RefBy: []string{},
				MF: uint8(t.features.MainFeatures), SF: uint8(t.features.SubQueryFeatures),
				MT: append([]string{}, t.features.MainTags...), ST: append([]string{}, t.features.SubQueryTags...)}
			for k := range t.referencedBy {
				d.RefBy = append(d.RefBy, k)
			}
			sort.Strings(d.RefBy)
			sort.Strings(d.Conv)
			sort.Strings(d.MT)
			sort.Strings(d.ST)
			st.Tags[n] = d
		}
		st.Upd = vf6Bits(mgr.updatedStreamsDuringTaggingJob)
		st.Rst = vf6Bits(mgr.resetStreamsDuringTaggingJob)
		st.Add = vf6Bits(mgr.addedStreamsDuringTaggingJob)
		st.FMerge, st.FTag, st.FConv = mgr.mergeJobRunning, mgr.taggingJobRunning, mgr.converterJobRunning
		st.Queue = []int{}
		for _, fn := range mgr.importJobs {
			st.Queue = append(st.Queue, r.fidx[fn])
		}
		for n, b := range mgr.streamsToConvert {
			st.ToConv[n] = vf6Bits(*b)
		}
		for n, c := range mgr.converters {
			m := map[string]string{}
			for id := uint64(0); id < mgr.nextStreamID; id++ {
				if !c.Contains(id) {
					continue
				}
				data, _, _, _, ok, err := c.DataForSearch(id)
				if err != nil || !ok {
					m[fmt.Sprint(id)] = fmt.Sprintf("ERR:%v", err)
					continue
				}
				m[fmt.Sprint(id)] = string(data[0]) + "\x00" + string(data[1])
			}
			st.Cache[n] = m
		}
		st.NIdx = len(mgr.indexes)
		st.IdxCnt = []int{}
		for _, idx := range mgr.indexes {
			st.IdxCnt = append(st.IdxCnt, idx.StreamCount())
		}
		st.Unmerge = mgr.nUnmergeableIndexes
		st.Merge = r.mergeEligible()
	})
	st.Jobs = []string{}
	for _, j := range r.parked() {
		st.Jobs = append(st.Jobs, fmt.Sprintf("%s:%d", j.kind, j.phase))
	}
	return st
}

func (r *vf6Run) observeView(v *View, searches []string) *vf6ViewObs {
	obs := r.observeView1(v, searches, true)
	if obs.Err != "" {
		// prefetching the tags failed (e.g. a tag whose evaluation fails while it is undecided): the streams
		// themselves are still needed as ground truth; the tag columns of this observation are not compared
		o2 := r.observeView1(v, searches, false)
		o2.PrefetchErr = obs.Err
		return o2
	}
	return obs
}

func (r *vf6Run) observeView1(v *View, searches []string, prefetch bool) *vf6ViewObs {
	obs := &vf6ViewObs{Streams: []vf6StreamObs{}, Searches: map[string][]uint64{}}
	ctx := context.Background()
	opts := []StreamsOption{}
	if prefetch {
		opts = append(opts, PrefetchAllTags())
	}
	err := v.AllStreams(ctx, func(sc StreamContext) error {
		s := sc.Stream()
		o := vf6StreamObs{ID: s.ID(), CP: s.ClientPort, SP: s.ServerPort, CH: s.ClientHostIP(), SH: s.ServerHostIP(),
			FT: s.FirstPacket().Sub(r.base).Milliseconds(), LT: s.LastPacket().Sub(r.base).Milliseconds(), Has: []string{}}
		data, err := sc.Data("")
		if err != nil {
			return err
		}
		for _, d := range data {
			if d.Direction == 0 {
				o.C += string(d.Content)
			} else {
				o.S += string(d.Content)
			}
		}
		if prefetch {
			tags, err := sc.AllTags()
			if err != nil {
				return err
			}
			o.Tags = tags
			for tn := range v.tagDetails {
				h, err := sc.HasTag(tn)
				if err != nil {
					return err
				}
				if h {
					o.Has = append(o.Has, tn)
				}
			}
			sort.Strings(o.Has)
		}
		obs.Streams = append(obs.Streams, o)
		return nil
	}, opts...)
	if err != nil {
		obs.Err = err.Error()
		return obs
	}
	sort.Slice(obs.Streams, func(a, b int) bool { return obs.Streams[a].ID < obs.Streams[b].ID })
	for _, qs := range searches {
		q, err := query.Parse(qs)
		if err != nil {
			obs.Searches[qs] = nil
			continue
		}
		ids := []uint64{}
		_, _, _, err = v.SearchStreams(ctx, q, func(sc StreamContext) error {
			ids = append(ids, sc.Stream().ID())
			return nil
		}, Limit(1000, 0))
		if err != nil {
			obs.Err = "search " + qs + ": " + err.Error()
			continue
		}
		sort.Slice(ids, func(a, b int) bool { return ids[a] < ids[b] })
		obs.Searches[qs] = ids
	}
	return obs
}

func vf6ErrClass(err error) string {
	if err == nil {
		return "ok"
	}
	s := err.Error()
	switch {
	case strings.Contains(s, "already exists"):
		return "err:exists"
	case strings.Contains(s, "unknown tag"):
		return "err:unknown-tag"
	case strings.Contains(s, "unknown referenced tag"):
		return "err:unknown-ref"
	case strings.Contains(s, "still references"):
		return "err:referenced"
	case strings.Contains(s, "unknown stream id"):
		return "err:unknown-stream"
	case strings.Contains(s, "too complex"):
		return "err:complex"
	case strings.Contains(s, "unknown converter"):
		return "err:unknown-converter"
	case strings.Contains(s, "self reference"):
		return "err:self"
	case strings.Contains(s, "not of type"):
		return "err:not-mark"
	}
	return "err:other:" + s
}

func vf6MakePacket(a, b string, ts time.Time, payload string) pcapOverIPPacket {
	src := netip.MustParseAddrPort(a)
	dst := netip.MustParseAddrPort(b)
	ip := layers.IPv4{Version: 4, TTL: 64, SrcIP: src.Addr().AsSlice(), DstIP: dst.Addr().AsSlice(), Protocol: layers.IPProtocolUDP}
	udp := layers.UDP{SrcPort: layers.UDPPort(src.Port()), DstPort: layers.UDPPort(dst.Port())}
	if err := udp.SetNetworkLayerForChecksum(&ip); err != nil {
		panic(err)
	}
	buf := gopacket.NewSerializeBuffer()
	if err := gopacket.SerializeLayers(buf, gopacket.SerializeOptions{ComputeChecksums: true, FixLengths: true}, &ip, &udp, gopacket.Payload([]byte(payload))); err != nil {
		panic(err)
	}
	data := buf.Bytes()
	return pcapOverIPPacket{linkType: layers.LinkTypeIPv4, ci: gopacket.CaptureInfo{Timestamp: ts, CaptureLength: len(data), Length: len(data)}, data: data}
}

const vf6ConverterScript = `#!/usr/bin/python3 -SE
import base64, json, sys, os, time
name = os.path.basename(sys.argv[0])
# the "executable generation": bumped by the harness before it restarts the converter (ResetConverter); processes started
# afterwards answer with the new generation in their output
gen = "0"
try:
    gen = open(os.path.join(os.path.dirname(os.path.dirname(os.path.abspath(sys.argv[0]))), "gen-" + name)).read().strip()
except OSError:
    pass
tagname = name if gen == "0" else name + "@" + gen
while True:
    line = sys.stdin.readline()
    if line == "":
        break
    meta = json.loads(line)
    c = b""
    s = b""
    while True:
        line = sys.stdin.readline().strip()
        if line == "":
            break
        p = json.loads(line)
        d = base64.b64decode(p["Content"])
        if p["Direction"] == "client-to-server":
            c += d
        else:
            s += d
    if name == "cvs":
        time.sleep(0.25)      # a slow converter: its answers overlap other manager activity
    out = tagname.encode() + b"#" + c.hex().encode() + b"#" + s.hex().encode()
    if name == "cvb" and (b"flagX" in c or b"flagX" in s):
        # a buggy converter: a chunk with a direction that does not exist, then the rest of a well-formed answer
        print(json.dumps({"Direction": "sideways", "Content": base64.b64encode(b"???").decode(), "Time": "2020-01-01T12:00:00.000000"}))
        out = b"LEFTOVER#" + out
    print(json.dumps({"Direction": "client-to-server", "Content": base64.b64encode(out).decode(), "Time": "2020-01-01T12:00:00.000000"}))
    print()
    print("{}", flush=True)
`

func (r *vf6Run) doAction(raw json.RawMessage) (act []interface{}, res string, info interface{}, err error) {
	if e := json.Unmarshal(raw, &act); e != nil || len(act) == 0 {
		return act, "", nil, fmt.Errorf("bad action %s", raw)
	}
	str := func(i int) string { s, _ := act[i].(string); return s }
	num := func(i int) int { f, _ := act[i].(float64); return int(f) }
	ids := func(i int) []uint64 {
		out := []uint64{}
		if l, ok := act[i].([]interface{}); ok {
			for _, x := range l {
				f, _ := x.(float64)
				out = append(out, uint64(f))
			}
		}
		return out
	}
	strs := func(i int) []string {
		out := []string{}
		if l, ok := act[i].([]interface{}); ok {
			for _, x := range l {
				s, _ := x.(string)
				out = append(out, s)
			}
		}
		return out
	}
	mgr := r.mgr
	switch str(0) {
	case "import":
		names := []string{}
		for _, fi := range ids(1) {
			names = append(names, r.files[fi]...)
		}
		mgr.ImportPcaps(names)
		res = "ok"
	case "addtag":
		res = vf6ErrClass(mgr.AddTag(str(1), "red", str(2)))
	case "addmark":
		// mark/generated tag over EXISTING streams only (ids >= nextStreamID are dropped: AddTag clips them
		// inconsistently and a converter job hangs on a stream that is in no index; see notes/C06.md, C09.md)
		var next uint64
		r.inLoop(func() { next = mgr.nextStreamID })
		parts := []string{}
		for _, id := range ids(2) {
			if id < next {
				parts = append(parts, fmt.Sprint(id))
			}
		}
		def := "id:-1"
		if len(parts) > 0 {
			def = "id:" + strings.Join(parts, ",")
		}
		res = vf6ErrClass(mgr.AddTag(str(1), "red", def))
		info = def
	case "deltag":
		res = vf6ErrClass(mgr.DelTag(str(1)))
	case "query":
		res = vf6ErrClass(mgr.UpdateTag(str(1), UpdateTagOperationUpdateQuery(str(2))))
	case "markadd":
		res = vf6ErrClass(mgr.UpdateTag(str(1), UpdateTagOperationMarkAddStream(ids(2))))
	case "markdel":
		res = vf6ErrClass(mgr.UpdateTag(str(1), UpdateTagOperationMarkDelStream(ids(2))))
	case "setconv":
		res = vf6ErrClass(mgr.UpdateTag(str(1), UpdateTagOperationSetConverter(strs(2))))
	case "resetconv":
		r.bumpGen(str(1))
		res = vf6ErrClass(mgr.ResetConverter(filepath.Join(mgr.ConverterDir, str(1))))
	case "failmerge":
		// ["failmerge"] : a merge job is parked at its start: its output path (named after the newest index) is blocked
		// by a directory, so this merge -- and every later one that ends with the same index -- fails
		res = "noop"
		for _, j := range r.parked() {
			if j.kind == "merge" && j.phase == 0 {
				c := make(chan string, 1)
				mgr.jobs <- func() {
					if len(mgr.indexes) == 0 {
						c <- ""
						return
					}
					c <- mgr.indexes[len(mgr.indexes)-1].Filename()
				}
				newest := <-c
				res = "ok"
				if newest == "" {
					res = "noop"
				} else if e := os.Mkdir(strings.TrimSuffix(newest, ".idx")+".m0.idx", 0o755); e != nil && !os.IsExist(e) {
					res = "err:" + e.Error()
				}
				break
			}
		}
	case "convreset":
		// ["convreset", conv] : the parked converter job passes its start gate and, while its conversions are running,
		// the converter is restarted (new executable generation, ResetConverter)
		res = "noop"
		for _, j := range r.parked() {
			if j.kind == "convert" && j.phase == 0 {
				var rerr error
				r.mid = func() {
					time.Sleep(100 * time.Millisecond)
					r.bumpGen(str(1))
					rerr = mgr.ResetConverter(filepath.Join(mgr.ConverterDir, str(1)))
				}
				var what string
				what, err = r.step(j.seq)
				res = what
				if rerr != nil {
					res = "err:" + rerr.Error()
				}
				break
			}
		}
	case "step":
		js := r.parked()
		if len(js) == 0 {
			res = "noop"
			break
		}
		j := js[num(1)%len(js)]
		var what string
		what, err = r.step(j.seq)
		res = what
	case "stepkind":
		// ["stepkind","tag"] : advance the parked job of that kind by one gate (noop if none)
		res = "noop"
		for _, j := range r.parked() {
			if j.kind == str(1) {
				var what string
				what, err = r.step(j.seq)
				res = what
				break
			}
		}
	case "settle":
		// release parked jobs in a seeded random order until nothing is in flight
		rng := rand.New(rand.NewSource(int64(num(1))))
		steps, comp0 := 0, r.completions
		order := []string{}
		budget := r.scn.Budget
		if budget == 0 {
			budget = 400
		}
		for {
			if err = r.settle(); err != nil {
				break
			}
			js := r.parked()
			if len(js) == 0 {
				break
			}
			if steps >= 2*budget {
				res = "budget"
				break
			}
			j := js[rng.Intn(len(js))]
			var what string
			what, err = r.step(j.seq)
			order = append(order, what)
			steps++
			if err != nil {
				break
			}
			if r.sub != nil {
				r.sub(what, nil)
			}
		}
		if res == "" {
			res = "quiescent"
		}
		info = map[string]interface{}{"steps": steps, "completions": r.completions - comp0, "order": order}
	case "viewopen":
		v := mgr.GetView()
		r.views[num(1)] = &v
		if e := v.fetch(); e != nil {
			res = "err:" + e.Error()
		} else {
			res = "ok"
		}
	case "viewdata":
		// ["viewdata", view, streamID, converter] : StreamContext.Data(converter) through an open view
		v, ok := r.views[num(1)]
		if !ok {
			res = "noop"
			break
		}
		sc, e := v.Stream(uint64(num(2)))
		if e != nil || sc.Stream() == nil {
			res = "err:nostream"
			break
		}
		data, e := sc.Data(str(3))
		if e != nil {
			res = "err:" + e.Error()
			break
		}
		c, s := "", ""
		for _, d := range data {
			if d.Direction == 0 {
				c += string(d.Content)
			} else {
				s += string(d.Content)
			}
		}
		plain, e := sc.Data("")
		pc, ps := "", ""
		if e == nil {
			for _, d := range plain {
				if d.Direction == 0 {
					pc += string(d.Content)
				} else {
					ps += string(d.Content)
				}
			}
		}
		res = "ok"
		info = map[string]string{"out": c + "\x00" + s, "c": pc, "s": ps}
	case "viewread":
		v, ok := r.views[num(1)]
		if !ok {
			res = "noop"
			break
		}
		res = "ok"
		info = r.observeView(v, r.scn.Searches)
	case "viewsearch":
		// ["viewsearch", view, query, prefetch] : SearchStreams through a view that stays open; with prefetch != 0 all
		// tags are prefetched for the result and HasTag / AllTags of every result stream are reported
		v, ok := r.views[num(1)]
		if !ok {
			res = "noop"
			break
		}
		q, e := query.Parse(str(2))
		if e != nil {
			res = "err:parse"
			break
		}
		opts := []StreamsOption{Limit(1000, 0)}
		if num(3) != 0 {
			opts = append(opts, PrefetchAllTags())
		}
		obs := []vf6StreamObs{}
		_, _, _, e = v.SearchStreams(context.Background(), q, func(sc StreamContext) error {
			o := vf6StreamObs{ID: sc.Stream().ID(), Has: []string{}, Tags: []string{}}
			if num(3) != 0 {
				tags, err := sc.AllTags()
				if err != nil {
					return err
				}
				o.Tags = tags
				for tn := range v.tagDetails {
					h, err := sc.HasTag(tn)
					if err != nil {
						return err
					}
					if h {
						o.Has = append(o.Has, tn)
					}
				}
				sort.Strings(o.Has)
			}
			obs = append(obs, o)
			return nil
		}, opts...)
		if e != nil {
			res = "err:" + e.Error()
			break
		}
		sort.Slice(obs, func(a, b int) bool { return obs[a].ID < obs[b].ID })
		res = "ok"
		info = map[string]interface{}{"streams": obs}
	case "viewclose":
		v, ok := r.views[num(1)]
		if !ok {
			res = "noop"
			break
		}
		v.Release()
		delete(r.views, num(1))
		res = "ok"
	default:
		err = fmt.Errorf("unknown action %q", str(0))
	}
	return
}

func vf6RunScenario(t *testing.T, scn *vf6Scenario, emit func(*vf6Line)) {
	base := t.TempDir()
	d := map[string]string{}
	for _, n := range []string{"pcap", "index", "snapshot", "state", "converter", "watch"} {
		d[n] = filepath.Join(base, n) + "/"
		if err := os.Mkdir(d[n], 0755); err != nil {
			t.Fatal(err)
		}
	}
	for _, c := range scn.Converters {
		if err := os.WriteFile(filepath.Join(d["converter"], c), []byte(vf6ConverterScript), 0775); err != nil {
			t.Fatal(err)
		}
	}
	ctl := &vf6Ctl{}
	VerifGate = ctl.gate
	mgr, err := New(d["pcap"], d["index"], d["snapshot"], d["state"], d["converter"], "")
	if err != nil {
		t.Fatalf("New: %v", err)
	}
	px := &vf6Proxy{orig: mgr.jobs, in: make(chan func()), names: map[string]int{}}
	go px.run()
	c := make(chan struct{})
	mgr.jobs <- func() { mgr.jobs = px.in; close(c) }
	<-c
	baseT, _ := time.Parse(time.RFC3339, "2020-01-01T12:00:00Z")
	r := &vf6Run{t: t, mgr: mgr, ctl: ctl, px: px, scn: scn, fidx: map[string]int{}, views: map[int]*View{}, base: baseT}
	for fi, pk := range scn.Files {
		pkts := []pcapOverIPPacket{}
		for _, p := range pk {
			f := scn.Flows[p.Flow]
			a, b := f.A, f.B
			if p.Dir == 1 {
				a, b = b, a
			}
			pkts = append(pkts, vf6MakePacket(a, b, baseT.Add(time.Duration(p.T)*time.Millisecond), p.Data))
		}
		names, err := writePcaps(mgr.PcapDir, pkts)
		if err != nil {
			t.Fatalf("writePcaps: %v", err)
		}
		r.files = append(r.files, names)
		for _, n := range names {
			r.fidx[n] = fi
			for _, ci := range scn.Corrupt {
				if ci == fi {
					if err := os.WriteFile(filepath.Join(mgr.PcapDir, n), []byte("this is not a capture file\n"), 0644); err != nil {
						t.Fatalf("corrupt: %v", err)
					}
				}
			}
		}
	}
	defer func() {
		// let everything run to completion, then close
		ctl.mu.Lock()
		ctl.passthru = true
		for _, j := range ctl.jobs {
			if j.phase == 0 || j.phase == 2 {
				j.phase++
				close(j.rel)
			}
		}
		ctl.mu.Unlock()
		for _, v := range r.views {
			v.Release()
		}
		done := make(chan struct{})
		go func() {
			// wait for flags to clear (bounded) so that Close does not race with jobs writing files
			for i := 0; i < 2000; i++ {
				imp, m, tg, cv := r.flags()
				if !imp && !m && !tg && !cv {
					break
				}
				time.Sleep(time.Millisecond)
			}
			mgr.Close()
			close(done)
		}()
		select {
		case <-done:
		case <-time.After(15 * time.Second):
		}
	}()
	for i, raw := range scn.Actions {
		t0 := time.Now()
		line := &vf6Line{Scn: scn.Name, I: i}
		subn := 0
		r.sub = func(what string, _ error) {
			l := &vf6Line{Scn: scn.Name, I: i, Act: []interface{}{"substep", subn}, Res: what}
			subn++
			if err := r.settle(); err != nil {
				l.Res = err.Error()
				emit(l)
				return
			}
			l.State = r.dumpState()
			v := mgr.GetView()
			l.Fresh = r.observeView(&v, scn.Searches)
			v.Release()
			r.settle()
			emit(l)
		}
		func() {
			defer func() {
				if p := recover(); p != nil {
					line.Res = fmt.Sprintf("PANIC %v", p)
				}
			}()
			act, res, info, err := r.doAction(raw)
			line.Act, line.Res, line.Info = act, res, info
			if err == nil {
				err = r.settle()
			}
			if err != nil {
				line.Res = err.Error()
				return
			}
			line.State = r.dumpState()
			v := mgr.GetView()
			line.Fresh = r.observeView(&v, scn.Searches)
			v.Release()
			if err := r.settle(); err != nil {
				line.Res = err.Error()
			}
		}()
		line.Ms = time.Since(t0).Milliseconds()
		emit(line)
		if strings.HasPrefix(line.Res, "HANG") || strings.HasPrefix(line.Res, "PANIC") {
			return
		}
	}
}

func TestVerifC06(t *testing.T) {
	in := os.Getenv("VERIF_CASES")
	if in == "" {
		t.Skip("no VERIF_CASES")
	}
	log.SetOutput(io.Discard)
	raw, err := os.ReadFile(in)
	if err != nil {
		t.Fatal(err)
	}
	var cases struct {
		Scenarios []vf6Scenario `json:"scenarios"`
	}
	if err := json.Unmarshal(raw, &cases); err != nil {
		t.Fatal(err)
	}
	of, err := os.Create(os.Getenv("VERIF_OUT"))
	if err != nil {
		t.Fatal(err)
	}
	defer of.Close()
	w := bufio.NewWriter(of)
	emit := func(l *vf6Line) {
		b, err := json.Marshal(l)
		if err != nil {
			b = []byte(fmt.Sprintf(`{"scn":%q,"i":%d,"res":"MARSHAL %v"}`, l.Scn, l.I, err))
		}
		w.Write(b)
		w.WriteByte('\n')
		w.Flush()
	}
	for i := range cases.Scenarios {
		scn := &cases.Scenarios[i]
		done := make(chan struct{})
		go func() {
			defer close(done)
			defer func() {
				if p := recover(); p != nil {
					emit(&vf6Line{Scn: scn.Name, I: -1, Res: fmt.Sprintf("PANIC %v", p)})
				}
			}()
			vf6RunScenario(t, scn, emit)
		}()
		select {
		case <-done:
		case <-time.After(120 * time.Second):
			emit(&vf6Line{Scn: scn.Name, I: -1, Res: "HANG scenario watchdog"})
			return
		}
		emit(&vf6Line{Scn: scn.Name, I: -2, Res: "end"})
	}
}
