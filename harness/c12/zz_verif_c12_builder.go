//go:build verif

package builder

// Injected by the C12 check (go test -overlay, add-only) together with a copy of builder.go in
// which the literal snapshot interval 100_000 is replaced by this variable, so that scenarios
// with a handful of packets create snapshots.
var verifSnapEvery uint64 = 100_000

// VerifSetSnapEvery sets the number of packets after which FromPcap creates a snapshot.
func VerifSetSnapEvery(n uint64) {
	if n == 0 {
		n = 100_000
	}
	verifSnapEvery = n
}
