package manager

// Harness for C12 (state survives restart and a crash at any point), injected
// with `go test -overlay` (add-only, build tag verif for the gate hook).
//
// TestVerifC12Run     runs one scenario on a real Manager: imports of generated
//                     pcaps, tag / config / webhook calls, jobs parked and released
//                     at the gates.  At every gate arrival, after every acknowledged
//                     API call and at every idle point the whole data directory is
//                     copied from INSIDE the service loop (= the files as a process
//                     kill at that instant leaves them) together with a description
//                     of the in-memory state (tags, streams with payload, config).
// TestVerifC12Recover runs in a fresh process: for every directory of a list it
//                     first scans the files (which index / state / snapshot files
//                     are readable, what they contain), then calls manager.New on
//                     it, lets the background jobs settle and dumps tags, streams,
//                     config, webhooks and a fresh evaluation of every tag definition.

import (
	"bufio"
	"context"
	"crypto/sha1"
	"encoding/hex"
	"encoding/json"
	"fmt"
	"io"
	"net/netip"
	"os"
	"path/filepath"
	"sort"
	"strings"
	"sync"
	"testing"
	"time"

	"github.com/gopacket/gopacket"
	"github.com/gopacket/gopacket/layers"
	"github.com/gopacket/gopacket/pcapgo"
	"github.com/spq/pkappa2/internal/index"
	"github.com/spq/pkappa2/internal/index/builder"
	"github.com/spq/pkappa2/internal/query"
)

type (
	c12Packet struct {
		C    string `json:"c"`
		S    string `json:"s"`
		T    int    `json:"t"`  // seconds after the base time
		Ms   int    `json:"ms"` // plus milliseconds
		Data string `json:"data"`
	}
	c12Step struct {
		Op      string      `json:"op"`
		Name    string      `json:"name"`
		Color   string      `json:"color"`
		Def     string      `json:"def"`
		NewName string      `json:"newname"`
		Query   *string     `json:"query"`
		Conv    *[]string   `json:"conv"`
		MarkAdd []uint64    `json:"markadd"`
		MarkDel []uint64    `json:"markdel"`
		Point   string      `json:"point"`
		Packets []c12Packet `json:"packets"`
		Auto    bool        `json:"auto"`
		URL     string      `json:"url"`
		N       uint64      `json:"n"`
	}
	c12Scenario struct {
		Converters []string  `json:"converters"`
		Steps      []c12Step `json:"steps"`
	}
	c12Tag struct {
		Name       string   `json:"name"`
		Def        string   `json:"def"`
		Color      string   `json:"color"`
		Convs      []string `json:"convs"`
		Matches    []uint   `json:"matches"`
		Uncertain  uint     `json:"uncertain"`
		Referenced bool     `json:"referenced"`
		Fresh      []uint   `json:"fresh"` // recover only: fresh evaluation of the definition
		FreshErr   string   `json:"fresherr,omitempty"`
	}
	c12Meta struct {
		Snap     int               `json:"snap"`
		Label    string            `json:"label"`
		Step     int               `json:"step"`
		Acked    int               `json:"acked"`
		Tags     []c12Tag          `json:"tags"`
		Streams  map[string]string `json:"streams"` // id -> payload
		Indexes  []string          `json:"indexes"` // file names in memory order
		Config   bool              `json:"config"`
		Webhooks []string          `json:"webhooks"`
		Next     uint64            `json:"next"`
		Pcaps    int               `json:"pcaps"`
		Imported []string          `json:"imported"` // pcaps whose import completion ran
		// background jobs in flight at the time of the copy
		JobConvert bool `json:"job_convert"`
		JobTag     bool `json:"job_tag"`
		JobMerge   bool `json:"job_merge"`
		JobImport  int  `json:"job_import"`
	}
	c12IndexFile struct {
		Name    string            `json:"name"`
		OK      bool              `json:"ok"`
		Err     string            `json:"err,omitempty"`
		Streams map[string]string `json:"streams"`
	}
	c12StateFile struct {
		Name     string   `json:"name"`
		OK       bool     `json:"ok"`
		Saved    int64    `json:"saved"`
		Tags     []c12Tag `json:"tags"`
		Config   bool     `json:"config"`
		Webhooks []string `json:"webhooks"`
	}
	c12Recovered struct {
		Dir        string            `json:"dir"`
		Phase      string            `json:"phase"` // begin | end
		IndexFiles []c12IndexFile    `json:"index_files"`
		StateFiles []c12StateFile    `json:"state_files"`
		New        string            `json:"new"` // ok | error text
		Settled    bool              `json:"settled"`
		Tags       []c12Tag          `json:"tags"`
		Streams    map[string]string `json:"streams"`
		Config     bool              `json:"config"`
		Webhooks   []string          `json:"webhooks"`
		Converters []string          `json:"converters"`
		Next       uint64            `json:"next"`
		Pcaps      int               `json:"pcaps"`
		Conv       map[string]string `json:"conv"`   // "<converter> <stream id>" -> "<len> <sha1>" of the converter output
		Guards     []c12Guard        `json:"guards"` // delete / rename of every referenced tag, tried after the restart
		// after an import that continues a stream of the recovered state
		ContDone bool              `json:"cont_done"`
		StreamsC map[string]string `json:"streams_c"`
		NextC    uint64            `json:"next_c"`
		// after a second (clean) restart
		New2     string            `json:"new2"`
		Settled2 bool              `json:"settled2"`
		Tags2    []c12Tag          `json:"tags2"`
		Streams2 map[string]string `json:"streams2"`
		Conv2    map[string]string `json:"conv2"`
		Pcaps2   int               `json:"pcaps2"`
	}
	c12RecoverSpec struct {
		Dir  string     `json:"dir"`
		Deep bool       `json:"deep"`
		Cont *c12Packet `json:"cont"`
		Snap uint64     `json:"snap"`
	}
	c12Guard struct {
		Name   string   `json:"name"`
		RefBy  []string `json:"refby"` // tags whose definition references it (recomputed from the definitions)
		Del    string   `json:"del"`   // result of DelTag: "ok" or the error
		Rename string   `json:"rename"`
	}

	c12Gates struct {
		mu      sync.Mutex
		park    map[string]int
		parked  map[string][]chan struct{}
		arrived chan string
		onGate  func(point string)
	}
)

const c12Converter = `#!/usr/bin/python3
# deterministic converter: one client-to-server chunk (b"CONV:" + payload + b";") * 700, i.e. more
# than the 4096 byte write buffer of the cache file
import base64
import json
import sys

lines = []
while 1:
    line = sys.stdin.readline()
    if line == "":
        sys.exit(0)
    line = line.strip()
    if line != "":
        lines.append(json.loads(line))
        continue
    payload = b"".join(base64.b64decode(l["Content"]) for l in lines[1:])
    print(json.dumps({
        "Direction": "client-to-server",
        "Content": base64.b64encode((b"CONV:" + payload + b";") * 700).decode(),
        "Time": "2222-02-22T22:22:22.222222"
    }))
    print()
    print("{}", flush=True)
    lines = []
`

const c12Timeout = 40 * time.Second

func c12Dirs(base string) map[string]string {
	d := map[string]string{}
	for _, n := range []string{"pcap", "index", "snapshot", "state", "converter", "watch"} {
		d[n] = filepath.Join(base, n) + "/"
	}
	return d
}

func c12WritePcap(fn string, pkts []c12Packet) error {
	t0, _ := time.Parse(time.RFC3339, "2020-01-01T12:00:00Z")
	f, err := os.Create(fn)
	if err != nil {
		return err
	}
	defer f.Close()
	w := pcapgo.NewWriter(f)
	if err := w.WriteFileHeader(0xffff, layers.LinkTypeIPv4); err != nil {
		return err
	}
	for _, p := range pkts {
		c, s := netip.MustParseAddrPort(p.C), netip.MustParseAddrPort(p.S)
		ip := layers.IPv4{Version: 4, TTL: 64, SrcIP: c.Addr().AsSlice(), DstIP: s.Addr().AsSlice(), Protocol: layers.IPProtocolUDP}
		udp := layers.UDP{SrcPort: layers.UDPPort(c.Port()), DstPort: layers.UDPPort(s.Port())}
		if err := udp.SetNetworkLayerForChecksum(&ip); err != nil {
			return err
		}
		buf := gopacket.NewSerializeBuffer()
		if err := gopacket.SerializeLayers(buf, gopacket.SerializeOptions{ComputeChecksums: true, FixLengths: true}, &ip, &udp, gopacket.Payload([]byte(p.Data))); err != nil {
			return err
		}
		data := buf.Bytes()
		if err := w.WritePacket(gopacket.CaptureInfo{Timestamp: t0.Add(time.Duration(p.T)*time.Second + time.Duration(p.Ms)*time.Millisecond), CaptureLength: len(data), Length: len(data)}, data); err != nil {
			return err
		}
	}
	return nil
}

func c12CopyTree(src, dst string) error {
	return filepath.Walk(src, func(p string, info os.FileInfo, err error) error {
		if err != nil {
			if os.IsNotExist(err) {
				return nil
			}
			return err
		}
		rel, _ := filepath.Rel(src, p)
		target := filepath.Join(dst, rel)
		if info.IsDir() {
			return os.MkdirAll(target, 0755)
		}
		in, err := os.Open(p)
		if err != nil {
			if os.IsNotExist(err) {
				return nil
			}
			return err
		}
		defer in.Close()
		out, err := os.OpenFile(target, os.O_CREATE|os.O_WRONLY|os.O_TRUNC, info.Mode())
		if err != nil {
			return err
		}
		defer out.Close()
		_, err = io.Copy(out, in)
		return err
	})
}

func c12Bits(mask []uint64) []uint {
	r := []uint{}
	for w, m := range mask {
		for b := uint(0); b < 64; b++ {
			if m&(1<<b) != 0 {
				r = append(r, uint(w)*64+b)
			}
		}
	}
	return r
}

func c12StreamText(s *index.Stream) string {
	data, err := s.Data()
	if err != nil {
		return "ERR " + err.Error()
	}
	parts := []string{}
	for _, d := range data {
		parts = append(parts, fmt.Sprintf("%d:%s", d.Direction, hex.EncodeToString(d.Content)))
	}
	return fmt.Sprintf("%s:%d>%s:%d|", s.ClientHostIP(), s.ClientPort, s.ServerHostIP(), s.ServerPort) + strings.Join(parts, ",")
}

// streams visible through a stack of readers: the last reader containing an id wins
func c12Visible(readers []*index.Reader) map[string]string {
	res := map[string]string{}
	for _, r := range readers {
		_ = r.AllStreams(func(s *index.Stream) error {
			res[fmt.Sprint(s.ID())] = c12StreamText(s)
			return nil
		})
	}
	return res
}

func c12SortedStrings(s []string) []string {
	r := append([]string{}, s...)
	sort.Strings(r)
	return r
}

// must run inside the service loop
func c12TagsLocked(mgr *Manager) []c12Tag {
	tags := []c12Tag{}
	for n, t := range mgr.tags {
		tags = append(tags, c12Tag{Name: n, Def: t.definition, Color: t.color, Convs: c12SortedStrings(t.converterNames()),
			Matches: c12Bits(t.Matches.Mask()), Uncertain: uint(t.Uncertain.OnesCount()), Referenced: len(t.referencedBy) != 0})
	}
	sort.Slice(tags, func(i, j int) bool { return tags[i].Name < tags[j].Name })
	return tags
}

func (g *c12Gates) gate(point string) {
	if g.onGate != nil {
		g.onGate(point)
	}
	g.mu.Lock()
	if g.park[point] > 0 {
		g.park[point]--
		c := make(chan struct{})
		g.parked[point] = append(g.parked[point], c)
		g.mu.Unlock()
		<-c
		return
	}
	g.mu.Unlock()
}

func (g *c12Gates) nParked() int {
	g.mu.Lock()
	defer g.mu.Unlock()
	n := 0
	for _, l := range g.parked {
		n += len(l)
	}
	return n
}

func (g *c12Gates) release(point string) bool {
	g.mu.Lock()
	defer g.mu.Unlock()
	l := g.parked[point]
	if len(l) == 0 {
		return false
	}
	close(l[0])
	g.parked[point] = l[1:]
	return true
}

type c12RunSpec struct {
	Scenario c12Scenario `json:"scenario"`
	Dir      string      `json:"dir"`
	Out      string      `json:"out"`
}

func TestVerifC12Run(t *testing.T) {
	specFile := os.Getenv("VERIF_C12_SCEN")
	if specFile == "" {
		t.Skip("no VERIF_C12_SCEN")
	}
	raw, err := os.ReadFile(specFile)
	if err != nil {
		t.Fatal(err)
	}
	specs := []c12RunSpec{}
	if err := json.Unmarshal(raw, &specs); err != nil {
		t.Fatal(err)
	}
	for _, spec := range specs {
		func() {
			defer func() {
				if r := recover(); r != nil {
					f, err := os.OpenFile(spec.Out, os.O_APPEND|os.O_CREATE|os.O_WRONLY, 0644)
					if err == nil {
						b, _ := json.Marshal(map[string]interface{}{"error": fmt.Sprint("scenario aborted: ", r)})
						f.Write(append(b, '\n'))
						f.Close()
					}
				}
				VerifGate = nil
			}()
			c12RunScenario(c12T{}, spec.Scenario, spec.Dir, spec.Out)
		}()
	}
}

// c12T turns the Fatal calls of one scenario into a panic that only ends that scenario
type c12T struct{}

func (c12T) Fatal(a ...interface{})            { panic(fmt.Sprint(a...)) }
func (c12T) Fatalf(f string, a ...interface{}) { panic(fmt.Sprintf(f, a...)) }

func c12RunScenario(t c12T, scen c12Scenario, base, outFile string) {
	builder.VerifSetSnapEvery(0)
	live := filepath.Join(base, "live")
	snaps := filepath.Join(base, "snaps")
	for _, p := range []string{live, snaps} {
		if err := os.MkdirAll(p, 0755); err != nil {
			t.Fatal(err)
		}
	}
	d := c12Dirs(live)
	for _, p := range d {
		if err := os.MkdirAll(p, 0755); err != nil {
			t.Fatal(err)
		}
	}
	for _, c := range scen.Converters {
		if err := os.WriteFile(filepath.Join(d["converter"], c), []byte(c12Converter), 0775); err != nil {
			t.Fatal(err)
		}
	}
	of, err := os.Create(outFile)
	if err != nil {
		t.Fatal(err)
	}
	defer of.Close()
	out := bufio.NewWriter(of)
	var outMu sync.Mutex
	emit := func(v interface{}) {
		b, err := json.Marshal(v)
		if err != nil {
			panic(err)
		}
		outMu.Lock()
		out.Write(b)
		out.WriteByte('\n')
		out.Flush()
		outMu.Unlock()
	}

	var mgr *Manager
	gates := &c12Gates{park: map[string]int{}, parked: map[string][]chan struct{}{}}
	nSnap, curStep, acked := 0, -1, 0
	imported := []string{}
	var snapMu sync.Mutex
	// copies the directory from inside the service loop
	snapshot := func(label string) {
		snapMu.Lock()
		defer snapMu.Unlock()
		meta := c12Meta{Label: label}
		var readers []*index.Reader
		var rel indexReleaser
		done := make(chan struct{})
		mgr.jobs <- func() {
			meta.Snap = nSnap
			nSnap++
			meta.Step = curStep
			meta.Acked = acked
			if err := c12CopyTree(live, filepath.Join(snaps, fmt.Sprintf("%04d", meta.Snap))); err != nil {
				meta.Label += " COPYERROR " + err.Error()
			}
			meta.Tags = c12TagsLocked(mgr)
			readers, rel = mgr.getIndexesCopy(0)
			for _, r := range readers {
				meta.Indexes = append(meta.Indexes, filepath.Base(r.Filename()))
			}
			meta.Config = mgr.config.AutoInsertLimitToQuery
			meta.Webhooks = append([]string{}, mgr.pcapProcessorWebhookUrls...)
			meta.Next = mgr.nextStreamID
			meta.Pcaps = len(mgr.builder.KnownPcaps())
			meta.Imported = append([]string{}, imported...)
			meta.JobConvert = mgr.converterJobRunning
			meta.JobTag = mgr.taggingJobRunning
			meta.JobMerge = mgr.mergeJobRunning
			meta.JobImport = len(mgr.importJobs)
			close(done)
		}
		<-done
		meta.Streams = c12Visible(readers)
		done2 := make(chan struct{})
		mgr.jobs <- func() {
			rel.release(mgr)
			close(done2)
		}
		<-done2
		emit(meta)
	}
	gates.onGate = func(point string) { snapshot("gate " + point) }
	VerifGate = gates.gate
	defer func() { VerifGate = nil }()

	mgr, err = New(d["pcap"], d["index"], d["snapshot"], d["state"], d["converter"], d["watch"])
	if err != nil {
		t.Fatal(err)
	}
	events, closeEvents := mgr.Listen()
	defer closeEvents()
	var evMu sync.Mutex
	processed := 0
	go func() {
		for e := range events {
			if e.Type == "pcapProcessed" {
				evMu.Lock()
				processed++
				evMu.Unlock()
			}
		}
	}()
	idle := func() bool {
		deadline := time.Now().Add(c12Timeout)
		for {
			ok := false
			c := make(chan struct{})
			mgr.jobs <- func() {
				ok = !mgr.taggingJobRunning && !mgr.converterJobRunning && !mgr.mergeJobRunning && len(mgr.importJobs) == 0
				for _, s := range mgr.streamsToConvert {
					if !s.IsZero() {
						ok = false
					}
				}
				for _, tg := range mgr.tags {
					if !tg.Uncertain.IsZero() {
						ok = false
					}
				}
				close(c)
			}
			<-c
			if ok && gates.nParked() == 0 {
				return true
			}
			if gates.nParked() != 0 && ok {
				return false
			}
			if time.Now().After(deadline) {
				return false
			}
			time.Sleep(time.Millisecond)
		}
	}
	pendingImports := []string{}
	for i, st := range scen.Steps {
		curStep = i
		var callErr error
		api := true
		switch st.Op {
		case "pcap":
			api = false
			if err := c12WritePcap(filepath.Join(d["pcap"], st.Name), st.Packets); err != nil {
				t.Fatal(err)
			}
			pendingImports = append(pendingImports, st.Name)
			mgr.ImportPcaps([]string{st.Name})
		case "snapevery":
			api = false
			builder.VerifSetSnapEvery(st.N)
		case "park":
			api = false
			gates.mu.Lock()
			gates.park[st.Point]++
			gates.mu.Unlock()
		case "wait":
			api = false
			deadline := time.Now().Add(c12Timeout)
			for {
				gates.mu.Lock()
				n := len(gates.parked[st.Point])
				gates.mu.Unlock()
				if n > 0 {
					break
				}
				if time.Now().After(deadline) {
					emit(map[string]interface{}{"error": "no job arrived at " + st.Point, "step": i})
					t.Fatalf("step %d: no job arrived at %s", i, st.Point)
				}
				time.Sleep(time.Millisecond)
			}
		case "waitflag":
			// wait until the named background job kind is not running any more
			api = false
			deadline := time.Now().Add(c12Timeout)
			for {
				st2 := mgr.Status()
				running := map[string]bool{"merge": st2.MergeJobRunning, "tag": st2.TaggingJobRunning, "convert": st2.ConverterJobRunning, "import": st2.ImportJobCount != 0}[st.Point]
				if !running {
					break
				}
				if time.Now().After(deadline) {
					emit(map[string]interface{}{"error": "job still running: " + st.Point, "step": i})
					t.Fatalf("step %d: %s job still running", i, st.Point)
				}
				time.Sleep(time.Millisecond)
			}
		case "tryrelease":
			// release the job parked at the point, or withdraw the request if none has arrived
			api = false
			if !gates.release(st.Point) {
				gates.mu.Lock()
				if gates.park[st.Point] > 0 {
					gates.park[st.Point]--
				}
				gates.mu.Unlock()
			}
		case "releaseall":
			api = false
			gates.mu.Lock()
			for p := range gates.park {
				gates.park[p] = 0
			}
			for p, l := range gates.parked {
				for _, c := range l {
					close(c)
				}
				gates.parked[p] = nil
			}
			gates.mu.Unlock()
		case "release":
			api = false
			if !gates.release(st.Point) {
				emit(map[string]interface{}{"error": "nothing parked at " + st.Point, "step": i})
				t.Fatalf("step %d: nothing parked at %s", i, st.Point)
			}
		case "idle":
			api = false
			if !idle() {
				emit(map[string]interface{}{"error": "not idle", "step": i})
				t.Fatalf("step %d: manager does not become idle", i)
			}
			evMu.Lock()
			if processed >= len(pendingImports) {
				imported = append(imported, pendingImports...)
				pendingImports = nil
				processed = 0
			}
			evMu.Unlock()
			snapshot("idle")
		case "add":
			callErr = mgr.AddTag(st.Name, st.Color, st.Def)
		case "del":
			callErr = mgr.DelTag(st.Name)
		case "upd":
			callErr = mgr.UpdateTag(st.Name, func(info *updateTagOperationInfo) {
				if len(st.MarkAdd) != 0 {
					UpdateTagOperationMarkAddStream(st.MarkAdd)(info)
				}
				if len(st.MarkDel) != 0 {
					UpdateTagOperationMarkDelStream(st.MarkDel)(info)
				}
				if st.Color != "" {
					UpdateTagOperationUpdateColor(st.Color)(info)
				}
				if st.Query != nil {
					UpdateTagOperationUpdateQuery(*st.Query)(info)
				}
				if st.NewName != "" {
					UpdateTagOperationUpdateName(st.NewName)(info)
				}
				if st.Conv != nil {
					UpdateTagOperationSetConverter(*st.Conv)(info)
				}
			})
		case "config":
			callErr = mgr.SetConfig(Config{AutoInsertLimitToQuery: st.Auto})
		case "webhook":
			callErr = mgr.AddPcapProcessorWebhook(st.URL)
		case "delwebhook":
			callErr = mgr.DelPcapProcessorWebhook(st.URL)
		default:
			t.Fatalf("bad op %q", st.Op)
		}
		if api {
			acked++
			res := "ok"
			if callErr != nil {
				res = "err: " + callErr.Error()
			}
			emit(map[string]interface{}{"step": i, "call": st.Op, "res": res})
			snapshot("ack " + st.Op)
		}
	}
	// clean shutdown
	closed := make(chan struct{})
	go func() {
		mgr.Close()
		close(closed)
	}()
	select {
	case <-closed:
	case <-time.After(c12Timeout):
		emit(map[string]interface{}{"error": "Close() hangs"})
		t.Fatal("Close() hangs")
	}
	if err := c12CopyTree(live, filepath.Join(snaps, "closed")); err != nil {
		t.Fatal(err)
	}
	emit(map[string]interface{}{"closed": true, "snaps": nSnap})
}

func c12ScanIndexFiles(dir string) []c12IndexFile {
	res := []c12IndexFile{}
	entries, _ := os.ReadDir(dir)
	for _, e := range entries {
		if e.IsDir() || !strings.HasSuffix(e.Name(), ".idx") {
			continue
		}
		f := c12IndexFile{Name: e.Name(), Streams: map[string]string{}}
		func() {
			defer func() {
				if r := recover(); r != nil {
					f.OK = false
					f.Err = fmt.Sprint("panic: ", r)
				}
			}()
			r, err := index.NewReader(filepath.Join(dir, e.Name()))
			if err != nil {
				f.Err = err.Error()
				return
			}
			defer r.Close()
			f.OK = true
			f.Streams = c12Visible([]*index.Reader{r})
		}()
		res = append(res, f)
	}
	return res
}

func c12ScanStateFiles(dir string) []c12StateFile {
	res := []c12StateFile{}
	entries, _ := os.ReadDir(dir)
	for _, e := range entries {
		if e.IsDir() || !strings.HasSuffix(e.Name(), ".state.json") {
			continue
		}
		sf := c12StateFile{Name: e.Name(), Tags: []c12Tag{}}
		raw, err := os.ReadFile(filepath.Join(dir, e.Name()))
		if err == nil {
			s := stateFile{}
			if err := json.NewDecoder(strings.NewReader(string(raw))).Decode(&s); err == nil {
				sf.OK = true
				sf.Saved = s.Saved.UnixNano()
				for _, tg := range s.Tags {
					sf.Tags = append(sf.Tags, c12Tag{Name: tg.Name, Def: tg.Definition, Color: tg.Color, Convs: c12SortedStrings(tg.Converters), Matches: c12Bits(tg.Matches)})
				}
				sort.Slice(sf.Tags, func(i, j int) bool { return sf.Tags[i].Name < sf.Tags[j].Name })
				sf.Config = s.Config.AutoInsertLimitToQuery
				sf.Webhooks = append([]string{}, s.PcapProcessorWebhookUrls...)
			}
		}
		res = append(res, sf)
	}
	return res
}

// waits until no background job runs and every tag is decided
func c12Settle(mgr *Manager) bool {
	deadline := time.Now().Add(c12Timeout)
	for {
		ok := false
		c := make(chan struct{})
		mgr.jobs <- func() {
			ok = !mgr.taggingJobRunning && !mgr.converterJobRunning && !mgr.mergeJobRunning && len(mgr.importJobs) == 0
			for _, s := range mgr.streamsToConvert {
				if !s.IsZero() {
					ok = false
				}
			}
			for _, tg := range mgr.tags {
				if !tg.Uncertain.IsZero() {
					ok = false
				}
			}
			close(c)
		}
		<-c
		if ok {
			return true
		}
		if time.Now().After(deadline) {
			return false
		}
		time.Sleep(time.Millisecond)
	}
}

// tags, streams (through the public View), fresh evaluation of every definition, converter output of
// every stream matched by a tag the converter is attached to
func c12Observe(mgr *Manager) (tags []c12Tag, streams map[string]string, conv map[string]string, cfg bool, hooks []string, convs []string, next uint64, pcaps int) {
	c := make(chan struct{})
	mgr.jobs <- func() {
		tags = c12TagsLocked(mgr)
		cfg = mgr.config.AutoInsertLimitToQuery
		hooks = append([]string{}, mgr.pcapProcessorWebhookUrls...)
		next = mgr.nextStreamID
		pcaps = len(mgr.builder.KnownPcaps())
		for n := range mgr.converters {
			convs = append(convs, n)
		}
		sort.Strings(convs)
		close(c)
	}
	<-c
	v := mgr.GetView()
	defer v.Release()
	streams = map[string]string{}
	_ = v.AllStreams(context.Background(), func(sc StreamContext) error {
		streams[fmt.Sprint(sc.Stream().ID())] = c12StreamText(sc.Stream())
		return nil
	})
	conv = map[string]string{}
	for i := range tags {
		tg := &tags[i]
		tg.Fresh = []uint{}
		q, err := query.Parse(tg.Def)
		if err != nil {
			tg.FreshErr = err.Error()
			continue
		}
		_, _, _, err = v.SearchStreams(context.Background(), q, func(sc StreamContext) error {
			tg.Fresh = append(tg.Fresh, uint(sc.Stream().ID()))
			return nil
		}, Limit(1000000, 0))
		if err != nil {
			tg.FreshErr = err.Error()
		}
		sort.Slice(tg.Fresh, func(a, b int) bool { return tg.Fresh[a] < tg.Fresh[b] })
		for _, cn := range tg.Convs {
			for _, id := range tg.Matches {
				key := fmt.Sprintf("%s %d", cn, id)
				if _, ok := conv[key]; ok {
					continue
				}
				sc, err := v.Stream(uint64(id))
				if err != nil || sc.Stream() == nil {
					continue
				}
				data, err := sc.Data(cn)
				if err != nil {
					conv[key] = "ERR " + err.Error()
					continue
				}
				h := sha1.New()
				n := 0
				for _, d := range data {
					fmt.Fprintf(h, "%d:", d.Direction)
					h.Write(d.Content)
					n += len(d.Content)
				}
				conv[key] = fmt.Sprintf("%d %d %x", len(data), n, h.Sum(nil))
			}
		}
	}
	return
}

// a tag that another definition references (main or sub-query reference) must still be protected
// after the restart: DelTag and a rename have to be refused
func c12TryGuards(mgr *Manager, tags []c12Tag) []c12Guard {
	refby := map[string][]string{}
	for _, tg := range tags {
		q, err := query.Parse(tg.Def)
		if err != nil {
			continue
		}
		f := q.Conditions.Features()
		seen := map[string]bool{}
		for _, l := range [][]string{f.MainTags, f.SubQueryTags} {
			for _, r := range l {
				if !seen[r] {
					seen[r] = true
					refby[r] = append(refby[r], tg.Name)
				}
			}
		}
	}
	res := []c12Guard{}
	for _, tg := range tags {
		if len(refby[tg.Name]) == 0 {
			continue
		}
		g := c12Guard{Name: tg.Name, RefBy: refby[tg.Name], Del: "ok", Rename: "ok"}
		typ, _, _ := strings.Cut(tg.Name, "/")
		if err := mgr.UpdateTag(tg.Name, UpdateTagOperationUpdateName(typ+"/zz-renamed")); err != nil {
			g.Rename = err.Error()
		}
		if err := mgr.DelTag(tg.Name); err != nil {
			g.Del = err.Error()
		}
		res = append(res, g)
	}
	return res
}

func c12CloseTimeout(mgr *Manager) bool {
	closed := make(chan struct{})
	go func() {
		mgr.Close()
		close(closed)
	}()
	select {
	case <-closed:
		return true
	case <-time.After(c12Timeout):
		return false
	}
}

func TestVerifC12Recover(t *testing.T) {
	listFile := os.Getenv("VERIF_C12_LIST")
	if listFile == "" {
		t.Skip("no VERIF_C12_LIST")
	}
	raw, err := os.ReadFile(listFile)
	if err != nil {
		t.Fatal(err)
	}
	specs := []c12RecoverSpec{}
	if err := json.Unmarshal(raw, &specs); err != nil {
		t.Fatal(err)
	}
	of, err := os.Create(os.Getenv("VERIF_OUT"))
	if err != nil {
		t.Fatal(err)
	}
	defer of.Close()
	out := bufio.NewWriter(of)
	emit := func(v interface{}) {
		b, err := json.Marshal(v)
		if err != nil {
			panic(err)
		}
		out.Write(b)
		out.WriteByte('\n')
		out.Flush()
	}
	for _, spec := range specs {
		spec := spec
		stage := "scan"
		var recp *c12Recovered
		done := make(chan struct{})
		go func() {
			defer close(done)
			func() {
				dir := spec.Dir
				d := c12Dirs(dir)
				builder.VerifSetSnapEvery(spec.Snap)
				rec := c12Recovered{Dir: dir, Phase: "begin", IndexFiles: c12ScanIndexFiles(d["index"]), StateFiles: c12ScanStateFiles(d["state"])}
				emit(rec)
				rec.Phase = "end"
				recp = &rec
				stage = "manager.New"
				mgr, err := New(d["pcap"], d["index"], d["snapshot"], d["state"], d["converter"], d["watch"])
				if err != nil {
					rec.New = "error: " + err.Error()
					emit(rec)
					return
				}
				rec.New = "ok"
				stage = "settling after manager.New"
				rec.Settled = c12Settle(mgr)
				rec.Tags, rec.Streams, rec.Conv, rec.Config, rec.Webhooks, rec.Converters, rec.Next, rec.Pcaps = c12Observe(mgr)
				stage = "delete / rename of referenced tags after the restart"
				rec.Guards = c12TryGuards(mgr, rec.Tags)
				stage = "after the delete / rename attempts"
				if spec.Cont != nil && rec.Settled {
					// an import after the restart that continues a stream of the recovered state
					if err := c12WritePcap(filepath.Join(d["pcap"], "zz-cont.pcap"), []c12Packet{*spec.Cont}); err == nil {
						mgr.ImportPcaps([]string{"zz-cont.pcap"})
						time.Sleep(time.Millisecond)
						if c12Settle(mgr) {
							rec.ContDone = true
							_, rec.StreamsC, _, _, _, _, rec.NextC, _ = c12Observe(mgr)
						}
					}
				}
				if !c12CloseTimeout(mgr) {
					rec.New = "ok (Close hangs)"
					emit(rec)
					return
				}
				// (only when the first manager was quiescent at Close: in one process a job of the CLOSED manager that
				//  completes later would save its old table with a newer Saved stamp - the real program exits after Close)
				if spec.Deep && rec.Settled && (spec.Cont == nil || rec.ContDone) {
					// second, clean restart: what the first one wrote must load again
					stage = "second manager.New / settling"
					mgr2, err := New(d["pcap"], d["index"], d["snapshot"], d["state"], d["converter"], d["watch"])
					if err != nil {
						rec.New2 = "error: " + err.Error()
					} else {
						rec.New2 = "ok"
						rec.Settled2 = c12Settle(mgr2)
						rec.Tags2, rec.Streams2, rec.Conv2, _, _, _, _, rec.Pcaps2 = c12Observe(mgr2)
						if !c12CloseTimeout(mgr2) {
							rec.New2 = "ok (Close hangs)"
						}
					}
				}
				emit(rec)
			}()
		}()
		select {
		case <-done:
		case <-time.After(3 * c12Timeout):
			// the service loop of the recovered manager does not answer any more
			r := c12Recovered{Dir: spec.Dir, Phase: "end", New: "hang during: " + stage}
			if recp != nil {
				r = *recp
				r.Phase = "end"
				r.New = "hang during: " + stage
			}
			emit(r)
			os.Exit(3)
		}
	}
}
