package index

// Correspondence harness for C01 (and helper library for C07), injected with
// `go test -overlay` (add-only). Reads stream sets from $VERIF_CASES, writes each
// through NewWriter/AddStream/Finalize, reads the file back through the Reader API
// and prints every observable named by the property to $VERIF_OUT.
//
// Case file (text, one token list per line):
//   CASE <name>
//   S <id> <flags> <clienthex> <cport> <serverhex> <sport>
//   P <sec> <nsec> <dir> <cap>:<idx>[,<cap>:<idx>...]     (AncillaryData order)
//   D <pktidx> <len> <seed>                               (payload = verifPattern(seed,len))
//   E                                                     (end of stream)
//   Q <cap> <idx>                                         (extra StreamByFirstPacketSource probe)
//   I <id>                                                (extra StreamByID probe)
//   FILE / QUERY <text>                                   (C07 only: start of the next index file / a search)
//   ENDCASE

import (
	"bufio"
	"encoding/hex"
	"encoding/json"
	"fmt"
	"hash/adler32"
	"os"
	"path/filepath"
	"sort"
	"strconv"
	"strings"
	"testing"
	"time"

	"github.com/gopacket/gopacket"
	"github.com/gopacket/gopacket/reassembly"
	"github.com/spq/pkappa2/internal/index/streams"
	pcapmetadata "github.com/spq/pkappa2/internal/tools/pcapMetadata"
)

type verifC01Stream struct {
	id uint64
	s  *streams.Stream
}

type verifC01Case struct {
	name    string
	streams []verifC01Stream
	qs      [][2]string
	ids     []uint64
	// used by the C07 harness only: FILE lines split the stream list into index files, QUERY lines are searches
	fileStart []int
	queries   []string
}

func verifU64(s string) uint64 {
	v, err := strconv.ParseUint(s, 10, 64)
	if err != nil {
		panic(err)
	}
	return v
}

func verifI64(s string) int64 {
	v, err := strconv.ParseInt(s, 10, 64)
	if err != nil {
		panic(err)
	}
	return v
}

func verifPattern(seed uint64, n int) []byte {
	b := make([]byte, n)
	for i := range b {
		b[i] = byte(seed + 31*uint64(i) + uint64(i>>8))
	}
	return b
}

// verifC01ReadCases parses the case file; every CASE gets its own PcapInfo table so
// that captures are shared between the streams of one case only.
func verifC01ReadCases(path string, each func(c *verifC01Case)) error {
	f, err := os.Open(path)
	if err != nil {
		return err
	}
	defer f.Close()
	sc := bufio.NewScanner(f)
	sc.Buffer(make([]byte, 1<<20), 1<<28)
	var cur *verifC01Case
	var st *streams.Stream
	var infos map[string]*pcapmetadata.PcapInfo
	for sc.Scan() {
		tok := strings.Fields(sc.Text())
		if len(tok) == 0 {
			continue
		}
		switch tok[0] {
		case "CASE":
			cur = &verifC01Case{name: tok[1]}
			infos = map[string]*pcapmetadata.PcapInfo{}
		case "S":
			ca, _ := hex.DecodeString(tok[3])
			sa, _ := hex.DecodeString(tok[5])
			st = &streams.Stream{
				ClientAddr: ca,
				ServerAddr: sa,
				ClientPort: uint16(verifU64(tok[4])),
				ServerPort: uint16(verifU64(tok[6])),
				Flags:      streams.StreamFlags(verifU64(tok[2])),
			}
			cur.streams = append(cur.streams, verifC01Stream{id: verifU64(tok[1]), s: st})
		case "P":
			ci := gopacket.CaptureInfo{
				Timestamp:     time.Unix(verifI64(tok[1]), verifI64(tok[2])),
				CaptureLength: 100,
				Length:        100,
			}
			if len(tok) > 4 {
				for _, src := range strings.Split(tok[4], ",") {
					i := strings.LastIndexByte(src, ':')
					name := src[:i]
					pi, ok := infos[name]
					if !ok {
						pi = &pcapmetadata.PcapInfo{Filename: name}
						infos[name] = pi
					}
					pcapmetadata.AddPcapMetadata(&ci, pi, verifU64(src[i+1:]))
				}
			}
			st.Packets = append(st.Packets, ci)
			d := reassembly.TCPDirClientToServer
			if tok[3] == "1" {
				d = reassembly.TCPDirServerToClient
			}
			st.PacketDirections = append(st.PacketDirections, d)
		case "D":
			st.Data = append(st.Data, streams.StreamData{
				Bytes:       verifPattern(verifU64(tok[3]), int(verifU64(tok[2]))),
				PacketIndex: verifU64(tok[1]),
			})
		case "E":
			st = nil
		case "FILE":
			cur.fileStart = append(cur.fileStart, len(cur.streams))
		case "QUERY":
			cur.queries = append(cur.queries, strings.TrimSpace(strings.TrimPrefix(sc.Text(), "QUERY")))
		case "Q":
			cur.qs = append(cur.qs, [2]string{tok[1], tok[2]})
		case "I":
			cur.ids = append(cur.ids, verifU64(tok[1]))
		case "ENDCASE":
			each(cur)
			cur = nil
		default:
			// lines of other harnesses (C07) are ignored here
		}
	}
	return sc.Err()
}

func verifC01Write(dir string, name string, ss []verifC01Stream) (*Reader, string) {
	w, err := NewWriter(filepath.Join(dir, name+".idx"))
	if err != nil {
		return nil, "newwriter-error"
	}
	for _, s := range ss {
		ok, err := w.AddStream(s.s, s.id)
		if err != nil {
			w.Close()
			return nil, "addstream-error"
		}
		if !ok {
			w.Close()
			return nil, "addstream-refused"
		}
	}
	r, err := w.Finalize()
	if err != nil {
		return nil, "finalize-error"
	}
	return r, "ok"
}

func verifDir(d Direction) string {
	if d == DirectionClientToServer {
		return "0"
	}
	if d == DirectionServerToClient {
		return "1"
	}
	return "?"
}

// verifDumpStream prints the T (metadata), J (MarshalJSON), K (packets), C (data) lines of one stream.
func verifDumpStream(w *bufio.Writer, s *Stream) {
	id := s.ID()
	fmt.Fprintf(w, "T %d %s %d %s %d %s %d %d %d %d\n", id, s.ClientHostIP(), s.ClientPort, s.ServerHostIP(), s.ServerPort,
		s.Protocol(), s.FirstPacket().UnixNano(), s.LastPacket().UnixNano(), s.ClientBytes, s.ServerBytes)
	if js, err := s.MarshalJSON(); err != nil {
		fmt.Fprintf(w, "J %d err\n", id)
	} else {
		type side struct {
			Host  string
			Port  uint16
			Bytes uint64
		}
		var v struct {
			ID                      uint64
			Protocol                string
			Client, Server          side
			FirstPacket, LastPacket time.Time
		}
		if err := json.Unmarshal(js, &v); err != nil {
			fmt.Fprintf(w, "J %d unmarshal-err\n", id)
		} else {
			fmt.Fprintf(w, "J %d %s %d %s %d %s %d %d %d %d\n", v.ID, v.Client.Host, v.Client.Port, v.Server.Host, v.Server.Port,
				v.Protocol, v.FirstPacket.UnixNano(), v.LastPacket.UnixNano(), v.Client.Bytes, v.Server.Bytes)
		}
	}
	if ps, err := s.Packets(); err != nil {
		fmt.Fprintf(w, "K %d err\n", id)
	} else {
		fmt.Fprintf(w, "K %d", id)
		for _, p := range ps {
			fmt.Fprintf(w, " %s:%d:%s:%d", p.PcapFilename, p.PcapIndex, verifDir(p.Direction), p.Timestamp.UnixNano())
		}
		fmt.Fprintf(w, "\n")
	}
	if ds, err := s.Data(); err != nil {
		fmt.Fprintf(w, "C %d err\n", id)
	} else {
		fmt.Fprintf(w, "C %d", id)
		for _, d := range ds {
			fmt.Fprintf(w, " %s:%d:%d:%d", verifDir(d.Direction), len(d.Content), adler32.Checksum(d.Content), d.Time.UnixNano())
		}
		fmt.Fprintf(w, "\n")
	}
}

// verifDumpReader prints all observables of one index file.
func verifDumpReader(w *bufio.Writer, r *Reader, qs [][2]string, ids []uint64) {
	idmap := r.StreamIDs()
	sorted := make([]uint64, 0, len(idmap))
	for id := range idmap {
		sorted = append(sorted, id)
	}
	sort.Slice(sorted, func(a, b int) bool { return sorted[a] < sorted[b] })
	fmt.Fprintf(w, "N %d %d %d %d\n", r.StreamCount(), len(idmap), r.MinStreamID(), r.MaxStreamID())
	// per-file summary NewReader keeps (used by the search to skip whole files): min/max first and last packet time, absolute ns
	ref := r.ReferenceTime.UnixNano()
	fmt.Fprintf(w, "X %d %d %d %d\n", ref+int64(r.firstPacketTimeNS.min), ref+int64(r.firstPacketTimeNS.max),
		ref+int64(r.lastPacketTimeNS.min), ref+int64(r.lastPacketTimeNS.max))
	fmt.Fprintf(w, "IDS")
	for _, id := range sorted {
		fmt.Fprintf(w, " %d", id)
	}
	fmt.Fprintf(w, "\n")
	all := []*Stream{}
	if err := r.AllStreams(func(s *Stream) error {
		all = append(all, s)
		return nil
	}); err != nil {
		fmt.Fprintf(w, "ALL err\n")
	}
	sort.SliceStable(all, func(a, b int) bool { return all[a].ID() < all[b].ID() })
	for _, s := range all {
		verifDumpStream(w, s)
		// lookups for a stored stream: by id and by the source of its first packet
		byid := "none"
		if s2, err := r.StreamByID(s.ID()); err != nil {
			byid = "err"
		} else if s2 != nil {
			byid = fmt.Sprintf("%d/%d", s2.ID(), s2.Index())
		}
		bysrc := "nopackets"
		if ps, err := s.Packets(); err == nil && len(ps) > 0 {
			bysrc = "none"
			if s3, err := r.StreamByFirstPacketSource(ps[0].PcapFilename, ps[0].PcapIndex); err != nil {
				bysrc = "err"
			} else if s3 != nil {
				bysrc = fmt.Sprintf("%d/%d", s3.ID(), s3.Index())
			}
		}
		idx, ok := idmap[s.ID()]
		fmt.Fprintf(w, "L %d self=%d/%d ids=%v/%d byid=%s bysrc=%s\n", s.ID(), s.ID(), s.Index(), ok, idx, byid, bysrc)
	}
	for _, q := range qs {
		res := "none"
		if s, err := r.StreamByFirstPacketSource(q[0], verifU64(q[1])); err != nil {
			res = "err"
		} else if s != nil {
			res = strconv.FormatUint(s.ID(), 10)
		}
		fmt.Fprintf(w, "Q %s %s %s\n", q[0], q[1], res)
	}
	for _, id := range ids {
		res := "none"
		if s, err := r.StreamByID(id); err != nil {
			res = "err"
		} else if s != nil {
			res = strconv.FormatUint(s.ID(), 10)
		}
		fmt.Fprintf(w, "I %d %s\n", id, res)
	}
}

func TestVerifC01(t *testing.T) {
	in := os.Getenv("VERIF_CASES")
	if in == "" {
		t.Skip("no VERIF_CASES")
	}
	of, err := os.Create(os.Getenv("VERIF_OUT"))
	if err != nil {
		t.Fatal(err)
	}
	defer of.Close()
	w := bufio.NewWriterSize(of, 1<<20)
	defer w.Flush()
	tmp := t.TempDir()
	n := 0
	err = verifC01ReadCases(in, func(c *verifC01Case) {
		n++
		fmt.Fprintf(w, "CASE %s\n", c.name)
		func() {
			defer func() {
				if p := recover(); p != nil {
					fmt.Fprintf(w, "PANIC %v\n", strings.ReplaceAll(fmt.Sprint(p), "\n", " "))
				}
			}()
			r, res := verifC01Write(tmp, fmt.Sprintf("c%d", n), c.streams)
			fmt.Fprintf(w, "R %s\n", res)
			if r == nil {
				return
			}
			defer func() {
				r.Close()
				os.Remove(r.Filename())
			}()
			verifDumpReader(w, r, c.qs, c.ids)
		}()
		fmt.Fprintf(w, "ENDCASE\n")
		w.Flush()
	})
	if err != nil {
		t.Fatal(err)
	}
}
