package manager

// Harness for C11 (tag management calls are total, atomic and keep the tag
// graph well-formed), injected with `go test -overlay` (add-only).
//
// Reads call sequences from $VERIF_CASES (JSON), runs each sequence on a real
// Manager on temp dirs (three converters present, one tiny import so that
// stream ids 0..12 exist) and writes one JSON line per event to $VERIF_OUT,
// flushed per line, so that a panic of the service loop or a hang is
// attributable to the call that was running.  Every API call runs under a
// watchdog; after every call the tag table is dumped from inside the service
// loop together with ListTags().

import (
	"bufio"
	"encoding/json"
	"fmt"
	"os"
	"path"
	"sort"
	"strings"
	"sync"
	"testing"
	"time"

	"github.com/gopacket/gopacket"
	"github.com/gopacket/gopacket/layers"
	"github.com/gopacket/gopacket/pcapgo"
	"github.com/spq/pkappa2/internal/query"
)

type (
	verifC11Call struct {
		Op      string    `json:"op"` // add | del | upd
		Name    string    `json:"name"`
		Color   string    `json:"color"`
		Def     string    `json:"def"`
		NewName string    `json:"newname"`
		Query   *string   `json:"query"`
		Conv    *[]string `json:"conv"`
		MarkAdd []uint64  `json:"markadd"`
		MarkDel []uint64  `json:"markdel"`
		Point   string    `json:"point"`
	}
	verifC11Seq struct {
		ID     int            `json:"id"`
		Settle bool           `json:"settle"`
		Calls  []verifC11Call `json:"calls"`
	}
	verifC11Cases struct {
		Seqs []verifC11Seq `json:"seqs"`
	}
	verifC11Parse struct {
		Err      bool     `json:"err"`
		Main     []string `json:"main"`
		Sub      []string `json:"sub"`
		MainF    uint     `json:"mf"`
		SubF     uint     `json:"sf"`
		Grouping bool     `json:"grouping"`
		IDsOK    bool     `json:"idsok"`
		IDs      []uint   `json:"ids"`
	}
	verifC11Tag struct {
		Name      string   `json:"name"`
		Def       string   `json:"def"`
		Color     string   `json:"color"`
		Convs     []string `json:"convs"`
		RefBy     []string `json:"refby"`
		Refs      []string `json:"refs"`
		Main      []string `json:"main"`
		Sub       []string `json:"sub"`
		MainF     uint     `json:"mf"`
		SubF      uint     `json:"sf"`
		Matches   []uint   `json:"matches"`
		Uncertain uint     `json:"uncertain"`
		// recomputed from the definition text alone
		DefErr  bool     `json:"deferr"`
		DefRefs []string `json:"defrefs"`
		DefIDs  []uint   `json:"defids"`
		DefIDOK bool     `json:"defidok"`
	}
	verifC11List struct {
		Name       string   `json:"name"`
		Def        string   `json:"def"`
		Color      string   `json:"color"`
		Referenced bool     `json:"referenced"`
		Convs      []string `json:"convs"`
		Matching   uint     `json:"matching"`
		Uncertain  uint     `json:"uncertain"`
	}
	verifC11Line struct {
		Seq    int             `json:"seq"`
		I      int             `json:"i"`
		Phase  string          `json:"phase"` // seq-begin | begin | end | seq-end
		Res    string          `json:"res,omitempty"`
		Kind   string          `json:"kind,omitempty"`
		Msg    string          `json:"msg,omitempty"`
		Next   uint64          `json:"next"`
		Parse  *verifC11Parse  `json:"parse,omitempty"`
		Tags   []verifC11Tag   `json:"tags,omitempty"`
		List   []verifC11List  `json:"list,omitempty"`
		Status string          `json:"status,omitempty"`
		Held   *bool           `json:"held,omitempty"` // a tagging job was parked at the requested gate during this call
		Signal map[string]bool `json:"-"`
	}
)

const verifC11Converter = `#!/usr/bin/python3
import base64
import json
import sys

lines = []
while 1:
    line = sys.stdin.readline().strip()
    if line != "":
        lines.append(json.loads(line))
        continue
    print(json.dumps({
        "Direction": "client-to-server",
        "Content": base64.b64encode(b"x").decode(),
        "Time": "2222-02-22T22:22:22.222222"
    }))
    print()
    print("{}", flush=True)
    lines = []
`

const verifC11Timeout = 30 * time.Second

// verifC11Gates parks one tagging job at "tag.start" / "tag.done" on request, so that API calls can run
// while the job is in flight, and counts the arrivals.
type verifC11Gates struct {
	mu       sync.Mutex
	hold     map[string]bool
	parked   map[string]chan struct{}
	arrivals map[string]int
}

func (g *verifC11Gates) gate(point string) {
	g.mu.Lock()
	g.arrivals[point]++
	if g.hold[point] && g.parked[point] == nil {
		c := make(chan struct{})
		g.parked[point] = c
		g.hold[point] = false
		g.mu.Unlock()
		<-c
		return
	}
	g.mu.Unlock()
}

func (g *verifC11Gates) pending() (holding bool, parkedAt string) {
	g.mu.Lock()
	defer g.mu.Unlock()
	for p, c := range g.parked {
		if c != nil {
			return false, p
		}
	}
	for _, h := range g.hold {
		if h {
			return true, ""
		}
	}
	return false, ""
}

func (g *verifC11Gates) releaseAll() {
	g.mu.Lock()
	defer g.mu.Unlock()
	for p := range g.hold {
		g.hold[p] = false
	}
	for p, c := range g.parked {
		if c != nil {
			close(c)
			g.parked[p] = nil
		}
	}
}

func verifC11Sorted(s []string) []string {
	r := append([]string{}, s...)
	sort.Strings(r)
	return r
}

func verifC11Bits(mask []uint64) []uint {
	r := []uint{}
	for w, m := range mask {
		for b := uint(0); b < 64; b++ {
			if m&(1<<b) != 0 {
				r = append(r, uint(w)*64+b)
			}
		}
	}
	return r
}

func verifC11ParseDef(def string, next uint64) *verifC11Parse {
	p := &verifC11Parse{Main: []string{}, Sub: []string{}, IDs: []uint{}}
	q, err := query.Parse(def)
	if err != nil {
		p.Err = true
		return p
	}
	f := q.Conditions.Features()
	p.Main = verifC11Sorted(f.MainTags)
	p.Sub = verifC11Sorted(f.SubQueryTags)
	p.MainF = uint(f.MainFeatures)
	p.SubF = uint(f.SubQueryFeatures)
	p.Grouping = q.Grouping != nil
	ids, ok := q.Conditions.StreamIDs(next)
	p.IDsOK = ok
	if ok {
		p.IDs = verifC11Bits(ids.Mask())
	}
	return p
}

func verifC11Kind(err error) string {
	if err == nil {
		return ""
	}
	m := err.Error()
	for _, k := range [][2]string{
		{"invalid tag name (need", "badname"},
		{"invalid tag name (prefix only", "emptysub"},
		{"invalid tag name (can't change type", "retype"},
		{"relative times", "reltime"},
		{"grouping not allowed", "grouping"},
		{"self reference", "selfref"},
		{"reference cycle", "cycle"},
		{"tags of type `mark`", "marknotid"},
		{"tag already exists", "exists"},
		{"unknown referenced tag", "unknownref"},
		{"unknown tag", "unknowntag"},
		{"unknown converter", "unknownconv"},
		{"unknown stream id", "unknownstream"},
		{"is not of type 'mark'", "notmark"},
		{"still references the tag to be deleted", "referenced"},
		{"still references the tag to be renamed", "referenced"},
		{"state.json", "savestate"},
		{"failed to attach converter", "complex"},
		{"query is too complex", "complex"},
	} {
		if strings.Contains(m, k[0]) {
			return k[1]
		}
	}
	if strings.HasSuffix(m, "already exists") {
		return "exists"
	}
	return "parse"
}

// verifC11WithTimeout runs f and reports whether it returned in time.
func verifC11WithTimeout(f func()) bool {
	done := make(chan struct{})
	go func() {
		f()
		close(done)
	}()
	select {
	case <-done:
		return true
	case <-time.After(verifC11Timeout):
		return false
	}
}

func verifC11Dump(mgr *Manager) (tags []verifC11Tag, idle bool) {
	c := make(chan struct{})
	mgr.jobs <- func() {
		idle = !mgr.taggingJobRunning && !mgr.converterJobRunning && !mgr.mergeJobRunning && len(mgr.importJobs) == 0
		for _, s := range mgr.streamsToConvert {
			if !s.IsZero() {
				idle = false
			}
		}
		for n, t := range mgr.tags {
			if !t.Uncertain.IsZero() {
				idle = false
			}
			d := verifC11Tag{
				Name:      n,
				Def:       t.definition,
				Color:     t.color,
				Convs:     verifC11Sorted(t.converterNames()),
				RefBy:     []string{},
				Refs:      verifC11Sorted(t.referencedTags()),
				Main:      verifC11Sorted(t.features.MainTags),
				Sub:       verifC11Sorted(t.features.SubQueryTags),
				MainF:     uint(t.features.MainFeatures),
				SubF:      uint(t.features.SubQueryFeatures),
				Matches:   verifC11Bits(t.Matches.Mask()),
				Uncertain: uint(t.Uncertain.OnesCount()),
			}
			for r := range t.referencedBy {
				d.RefBy = append(d.RefBy, r)
			}
			sort.Strings(d.RefBy)
			p := verifC11ParseDef(t.definition, mgr.nextStreamID)
			d.DefErr = p.Err
			rs := map[string]struct{}{}
			for _, l := range [][]string{p.Main, p.Sub} {
				for _, r := range l {
					rs[r] = struct{}{}
				}
			}
			d.DefRefs = []string{}
			for r := range rs {
				d.DefRefs = append(d.DefRefs, r)
			}
			sort.Strings(d.DefRefs)
			d.DefIDs = p.IDs
			d.DefIDOK = p.IDsOK
			tags = append(tags, d)
		}
		close(c)
	}
	<-c
	sort.Slice(tags, func(i, j int) bool { return tags[i].Name < tags[j].Name })
	if tags == nil {
		tags = []verifC11Tag{}
	}
	return
}

func verifC11WritePcap(dir string) (string, error) {
	t0, _ := time.Parse(time.RFC3339, "2020-01-01T12:00:00Z")
	fn := path.Join(dir, "c11.pcap")
	f, err := os.Create(fn)
	if err != nil {
		return "", err
	}
	defer f.Close()
	w := pcapgo.NewWriter(f)
	if err := w.WriteFileHeader(0xffff, layers.LinkTypeIPv4); err != nil {
		return "", err
	}
	// 13 streams, so that marks can carry ids that share leading digits (1 / 10 / 11 / 12)
	for i, payload := range []string{"foo", "bar", "baz", "qux", "s4", "s5", "s6", "s7", "s8", "s9", "s10", "s11", "s12"} {
		ip := layers.IPv4{Version: 4, TTL: 64, SrcIP: []byte{1, 2, 3, 4}, DstIP: []byte{4, 3, 2, 1}, Protocol: layers.IPProtocolUDP}
		udp := layers.UDP{SrcPort: layers.UDPPort(i + 1), DstPort: 4321}
		if err := udp.SetNetworkLayerForChecksum(&ip); err != nil {
			return "", err
		}
		buf := gopacket.NewSerializeBuffer()
		if err := gopacket.SerializeLayers(buf, gopacket.SerializeOptions{ComputeChecksums: true, FixLengths: true}, &ip, &udp, gopacket.Payload([]byte(payload))); err != nil {
			return "", err
		}
		data := buf.Bytes()
		if err := w.WritePacket(gopacket.CaptureInfo{Timestamp: t0.Add(time.Duration(i) * time.Second), CaptureLength: len(data), Length: len(data)}, data); err != nil {
			return "", err
		}
	}
	return "c11.pcap", nil
}

func TestVerifC11(t *testing.T) {
	in := os.Getenv("VERIF_CASES")
	if in == "" {
		t.Skip("no VERIF_CASES")
	}
	raw, err := os.ReadFile(in)
	if err != nil {
		t.Fatal(err)
	}
	cases := verifC11Cases{}
	if err := json.Unmarshal(raw, &cases); err != nil {
		t.Fatal(err)
	}
	of, err := os.Create(os.Getenv("VERIF_OUT"))
	if err != nil {
		t.Fatal(err)
	}
	defer of.Close()
	w := bufio.NewWriter(of)
	emit := func(l verifC11Line) {
		b, err := json.Marshal(l)
		if err != nil {
			panic(err)
		}
		w.Write(b)
		w.WriteByte('\n')
		w.Flush()
	}
	for _, seq := range cases.Seqs {
		verifC11RunSeq(t, seq, emit)
	}
}

func verifC11RunSeq(t *testing.T, seq verifC11Seq, emit func(verifC11Line)) {
	base, err := os.MkdirTemp("", "verifc11")
	if err != nil {
		t.Fatal(err)
	}
	defer os.RemoveAll(base)
	d := map[string]string{}
	for _, n := range []string{"pcap", "index", "snapshot", "state", "converter", "watch"} {
		d[n] = path.Join(base, n) + "/"
		if err := os.Mkdir(d[n], 0755); err != nil {
			t.Fatal(err)
		}
	}
	for _, c := range []string{"ca", "cb", "cc"} {
		if err := os.WriteFile(path.Join(d["converter"], c), []byte(verifC11Converter), 0775); err != nil {
			t.Fatal(err)
		}
	}
	gates := &verifC11Gates{hold: map[string]bool{}, parked: map[string]chan struct{}{}, arrivals: map[string]int{}}
	VerifGate = gates.gate
	defer func() {
		gates.releaseAll()
		VerifGate = nil
	}()
	mgr, err := New(d["pcap"], d["index"], d["snapshot"], d["state"], d["converter"], d["watch"])
	if err != nil {
		t.Fatal(err)
	}
	pc, err := verifC11WritePcap(d["pcap"])
	if err != nil {
		t.Fatal(err)
	}
	mgr.ImportPcaps([]string{pc})
	deadline := time.Now().Add(verifC11Timeout)
	for {
		st := mgr.Status()
		if st.ImportJobCount == 0 && st.StreamCount == 13 {
			break
		}
		if time.Now().After(deadline) {
			t.Fatalf("import did not finish: %+v", st)
		}
		time.Sleep(time.Millisecond)
	}
	next := uint64(mgr.Status().StreamCount)
	emit(verifC11Line{Seq: seq.ID, I: -1, Phase: "seq-begin", Next: next})
	settle := func() bool {
		deadline := time.Now().Add(verifC11Timeout)
		for {
			idle := false
			if !verifC11WithTimeout(func() { _, idle = verifC11Dump(mgr) }) {
				return false
			}
			if idle {
				return true
			}
			if time.Now().After(deadline) {
				return false
			}
			time.Sleep(500 * time.Microsecond)
		}
	}
	for i, c := range seq.Calls {
		line := verifC11Line{Seq: seq.ID, I: i, Phase: "begin", Next: next}
		switch c.Op {
		case "add":
			line.Parse = verifC11ParseDef(c.Def, next)
		case "upd":
			if c.Query != nil {
				line.Parse = verifC11ParseDef(*c.Query, next)
			}
		}
		emit(line)
		var callErr error
		returned := verifC11WithTimeout(func() {
			switch c.Op {
			case "add":
				callErr = mgr.AddTag(c.Name, c.Color, c.Def)
			case "del":
				callErr = mgr.DelTag(c.Name)
			case "upd":
				callErr = mgr.UpdateTag(c.Name, func(info *updateTagOperationInfo) {
					if len(c.MarkAdd) != 0 {
						UpdateTagOperationMarkAddStream(c.MarkAdd)(info)
					}
					if len(c.MarkDel) != 0 {
						UpdateTagOperationMarkDelStream(c.MarkDel)(info)
					}
					if c.Color != "" {
						UpdateTagOperationUpdateColor(c.Color)(info)
					}
					if c.Query != nil {
						UpdateTagOperationUpdateQuery(*c.Query)(info)
					}
					if c.NewName != "" {
						UpdateTagOperationUpdateName(c.NewName)(info)
					}
					if c.Conv != nil {
						UpdateTagOperationSetConverter(*c.Conv)(info)
					}
				})
			case "settle":
				// wait until no background job runs and every tag is decided (nothing may be parked)
				if _, at := gates.pending(); at == "" {
					settle()
				}
			case "hold":
				// park the next tagging job that arrives at the gate
				gates.mu.Lock()
				gates.hold[c.Point] = true
				gates.mu.Unlock()
			case "jobmark":
				// (position marker for the model: the job started inside the previous call)
			case "release":
				// let the parked job go on and wait until its completion closure has run: either no tagging job
				// is running any more or the next one has already arrived at its first gate
				gates.mu.Lock()
				before := gates.arrivals["tag.start"]
				was := false
				for p, ch := range gates.parked {
					if ch != nil {
						was = true
						close(ch)
						gates.parked[p] = nil
					}
				}
				for p := range gates.hold {
					gates.hold[p] = false
				}
				gates.mu.Unlock()
				if was {
					deadline := time.Now().Add(verifC11Timeout)
					for time.Now().Before(deadline) {
						st := mgr.Status()
						gates.mu.Lock()
						now := gates.arrivals["tag.start"]
						gates.mu.Unlock()
						if !st.TaggingJobRunning || now > before {
							break
						}
						time.Sleep(200 * time.Microsecond)
					}
				}
			case "restart":
				// clean shutdown and a new Manager on the same directories: the tag table must come back as it was.
				// The old Manager must be quiescent first: Close() neither waits for background jobs nor stops the
				// service loop, and in one process a job of the CLOSED manager that completes later saves ITS (old)
				// table with a newer Saved stamp, which the next start would prefer (in the real program the process
				// ends after Close).  A crash with jobs in flight is C12's subject, in separate processes.
				gates.releaseAll()
				settle()
				mgr.Close()
				m2, err := New(d["pcap"], d["index"], d["snapshot"], d["state"], d["converter"], d["watch"])
				if err != nil {
					callErr = fmt.Errorf("manager.New after Close: %w", err)
				} else {
					mgr = m2
				}
			case "breakstate":
				// fault injection (replay only): saveState cannot create its file any more
				if err := os.Rename(d["state"], path.Join(base, "state.bak")); err != nil {
					panic(err)
				}
				if err := os.WriteFile(strings.TrimSuffix(d["state"], "/"), []byte("x"), 0644); err != nil {
					panic(err)
				}
			case "fixstate":
				os.Remove(strings.TrimSuffix(d["state"], "/"))
				if err := os.Rename(path.Join(base, "state.bak"), d["state"]); err != nil {
					panic(err)
				}
			default:
				panic("bad op " + c.Op)
			}
		})
		line.Phase = "end"
		line.Parse = nil
		if returned && (c.Op == "add" || c.Op == "upd" || c.Op == "del") {
			if holding, at := gates.pending(); holding && at == "" {
				// a hold was requested: give the job started by this call the time to arrive
				held := false
				deadline := time.Now().Add(1500 * time.Millisecond)
				for time.Now().Before(deadline) {
					if _, at := gates.pending(); at != "" {
						held = true
						break
					}
					if st := mgr.Status(); !st.TaggingJobRunning {
						break // the call started no tagging job
					}
					time.Sleep(200 * time.Microsecond)
				}
				if !held {
					gates.mu.Lock()
					for p := range gates.hold {
						gates.hold[p] = false
					}
					gates.mu.Unlock()
				}
				line.Held = &held
			}
		}
		if !returned {
			line.Res = "hang"
			emit(line)
			os.Exit(3)
		}
		if callErr == nil {
			line.Res = "ok"
		} else {
			line.Res = "err"
			line.Kind = verifC11Kind(callErr)
			line.Msg = callErr.Error()
		}
		// responsiveness of the service loop
		responsive := verifC11WithTimeout(func() { mgr.Status() })
		if responsive && seq.Settle {
			responsive = settle()
		}
		if !responsive {
			line.Status = "stuck"
			emit(line)
			os.Exit(3)
		}
		line.Tags, _ = verifC11Dump(mgr)
		line.List = []verifC11List{}
		for _, ti := range mgr.ListTags() {
			line.List = append(line.List, verifC11List{Name: ti.Name, Def: ti.Definition, Color: ti.Color, Referenced: ti.Referenced,
				Convs: verifC11Sorted(ti.Converters), Matching: ti.MatchingCount, Uncertain: ti.UncertainCount})
		}
		emit(line)
	}
	gates.releaseAll() // a job still parked at the end of the sequence goes on
	end := verifC11Line{Seq: seq.ID, I: len(seq.Calls), Phase: "seq-end", Next: next}
	if !settle() {
		end.Status = "stuck"
		emit(end)
		os.Exit(3)
	}
	end.Tags, _ = verifC11Dump(mgr)
	if !verifC11WithTimeout(func() { mgr.Close() }) {
		end.Status = "close-stuck"
		emit(end)
		os.Exit(3)
	}
	end.Status = fmt.Sprintf("ok")
	emit(end)
}
