package builder

// Correspondence harness shared by C05 and C08, injected with `go test -overlay`
// (add-only, package builder so that b.snapshots is reachable).
//
// Reads capture-set cases from $VERIF_CASES, writes REAL pcap files (pcapgo writer,
// Ethernet + IPv4/IPv6 + TCP/UDP serialised by gopacket/layers with lengths and
// checksums fixed), runs builder.FromPcap according to each RUN's import schedule
// (files "arrive" in the pcap directory just before the import that names them) and
// dumps, after every import, the return values and the visible streams (newest
// version of each id through the reader stack) to $VERIF_OUT.
//
// Case format (one token list per line):
//   CASE <name>
//   F <filename>
//   P <fileidx> <ts_us> <srchex> <sport> <dsthex> <dport> U <payloadhex|->
//   P <fileidx> <ts_us> <srchex> <sport> <dsthex> <dport> T <flags> <seq> <ack> <payloadhex|->
//   RUN <label> <snapevery>       (snapevery only effective under the threshold overlay)
//   IMPORT <flags> <fileidx>...   flags: 1 = restart (new Builder + reopened readers), 2 = drop snapshots first
//   END

import (
	"bufio"
	"encoding/hex"
	"fmt"
	"io"
	"log"
	"net"
	"os"
	"path/filepath"
	"sort"
	"strconv"
	"strings"
	"testing"
	"time"

	"github.com/gopacket/gopacket"
	"github.com/gopacket/gopacket/layers"
	"github.com/gopacket/gopacket/pcapgo"
	"github.com/spq/pkappa2/internal/index"
)

// verifSnapEvery replaces the literal 100_000 of FromPcap when the check injects the
// threshold overlay (a copy of builder.go with exactly that literal substituted).
var verifSnapEvery = uint64(100_000)

const verifBaseSec = 1_600_000_000

type verifPkt struct {
	file   int
	ts     int64
	src    []byte
	sport  uint16
	dst    []byte
	dport  uint16
	tcp    bool
	flags  string
	seq    uint32
	ack    uint32
	data   []byte
	serial uint16
}

type verifStep struct {
	flags int
	files []int
}

type verifRun struct {
	label     string
	snapEvery uint64
	steps     []verifStep
}

type verifCase struct {
	name  string
	files []string
	pkts  [][]verifPkt
	runs  []verifRun
}

func verifHex(s string) []byte {
	if s == "-" {
		return nil
	}
	b, err := hex.DecodeString(s)
	if err != nil {
		panic(err)
	}
	return b
}

func verifInt(s string) int64 {
	v, err := strconv.ParseInt(s, 10, 64)
	if err != nil {
		panic(err)
	}
	return v
}

func verifSerialize(p *verifPkt) []byte {
	eth := &layers.Ethernet{
		SrcMAC: net.HardwareAddr{2, 0, 0, 0, 0, 1},
		DstMAC: net.HardwareAddr{2, 0, 0, 0, 0, 2},
	}
	var netl gopacket.SerializableLayer
	var nl gopacket.NetworkLayer
	proto := layers.IPProtocolUDP
	if p.tcp {
		proto = layers.IPProtocolTCP
	}
	if len(p.src) == 4 {
		eth.EthernetType = layers.EthernetTypeIPv4
		ip := &layers.IPv4{Version: 4, IHL: 5, TTL: 64, Id: p.serial, Flags: layers.IPv4DontFragment,
			Protocol: proto, SrcIP: net.IP(p.src), DstIP: net.IP(p.dst)}
		netl, nl = ip, ip
	} else {
		eth.EthernetType = layers.EthernetTypeIPv6
		ip := &layers.IPv6{Version: 6, HopLimit: 64, NextHeader: proto, SrcIP: net.IP(p.src), DstIP: net.IP(p.dst)}
		netl, nl = ip, ip
	}
	var tl gopacket.SerializableLayer
	if p.tcp {
		t := &layers.TCP{SrcPort: layers.TCPPort(p.sport), DstPort: layers.TCPPort(p.dport), Seq: p.seq, Ack: p.ack, Window: 65535}
		for _, c := range p.flags {
			switch c {
			case 'S':
				t.SYN = true
			case 'A':
				t.ACK = true
			case 'F':
				t.FIN = true
			case 'R':
				t.RST = true
			case 'P':
				t.PSH = true
			}
		}
		if err := t.SetNetworkLayerForChecksum(nl); err != nil {
			panic(err)
		}
		tl = t
	} else {
		u := &layers.UDP{SrcPort: layers.UDPPort(p.sport), DstPort: layers.UDPPort(p.dport)}
		if err := u.SetNetworkLayerForChecksum(nl); err != nil {
			panic(err)
		}
		tl = u
	}
	buf := gopacket.NewSerializeBuffer()
	if err := gopacket.SerializeLayers(buf, gopacket.SerializeOptions{FixLengths: true, ComputeChecksums: true},
		eth, netl, tl, gopacket.Payload(p.data)); err != nil {
		panic(err)
	}
	return append([]byte(nil), buf.Bytes()...)
}

func verifWritePcap(dir, name string, pkts []verifPkt) error {
	f, err := os.Create(filepath.Join(dir, name))
	if err != nil {
		return err
	}
	defer f.Close()
	bw := bufio.NewWriterSize(f, 1<<20)
	w := pcapgo.NewWriter(bw)
	if err := w.WriteFileHeader(65536, layers.LinkTypeEthernet); err != nil {
		return err
	}
	for i := range pkts {
		p := &pkts[i]
		p.serial = uint16(i)
		data := verifSerialize(p)
		ci := gopacket.CaptureInfo{
			Timestamp:     time.Unix(verifBaseSec+p.ts/1_000_000, (p.ts%1_000_000)*1000),
			CaptureLength: len(data),
			Length:        len(data),
		}
		if err := w.WritePacket(ci, data); err != nil {
			return err
		}
	}
	return bw.Flush()
}

func verifBits(b interface{ Next(*uint) bool }) string {
	out := []string{}
	for i := uint(0); b.Next(&i); i++ {
		out = append(out, strconv.FormatUint(uint64(i), 10))
	}
	if len(out) == 0 {
		return "-"
	}
	return strings.Join(out, ",")
}

func verifErr(err error) string {
	if err == nil {
		return "-"
	}
	return strings.ReplaceAll(err.Error(), " ", "_")
}

func verifSnaps(b *Builder, fileIdx map[string]int) string {
	out := []string{}
	for _, s := range b.snapshots {
		refs := []string{}
		for fn, idxs := range s.referencedPackets {
			for _, i := range idxs {
				refs = append(refs, fmt.Sprintf("%d.%d", fileIdx[fn], i))
			}
		}
		sort.Strings(refs)
		ts := s.timestamp.Sub(time.Unix(verifBaseSec, 0)).Microseconds()
		out = append(out, fmt.Sprintf("%d:%s", ts, strings.Join(refs, "+")))
	}
	if len(out) == 0 {
		return "-"
	}
	return strings.Join(out, ";")
}

func verifDumpVisible(w *bufio.Writer, readers []*index.Reader, fileIdx map[string]int) error {
	seen := map[uint64]*index.Stream{}
	ids := []uint64{}
	for i := len(readers) - 1; i >= 0; i-- {
		for id := range readers[i].StreamIDs() {
			if _, ok := seen[id]; ok {
				continue
			}
			s, err := readers[i].StreamByID(id)
			if err != nil {
				return err
			}
			if s == nil {
				return fmt.Errorf("stream %d listed but not found", id)
			}
			seen[id] = s
			ids = append(ids, id)
		}
	}
	sort.Slice(ids, func(i, j int) bool { return ids[i] < ids[j] })
	for _, id := range ids {
		s := seen[id]
		pk, err := s.Packets()
		if err != nil {
			return err
		}
		pks := []string{}
		for _, p := range pk {
			d := "c"
			if p.Direction == index.DirectionServerToClient {
				d = "s"
			}
			fi, ok := fileIdx[p.PcapFilename]
			if !ok {
				fi = -1
			}
			pks = append(pks, fmt.Sprintf("%d.%d.%s", fi, p.PcapIndex, d))
		}
		data, err := s.Data()
		if err != nil {
			return err
		}
		ds := []string{}
		for _, d := range data {
			c := "c"
			if d.Direction == index.DirectionServerToClient {
				c = "s"
			}
			ds = append(ds, c+hex.EncodeToString(d.Content))
		}
		if len(ds) == 0 {
			ds = []string{"-"}
		}
		ch := hex.EncodeToString(net.ParseIP(s.ClientHostIP()).To16())
		sh := hex.EncodeToString(net.ParseIP(s.ServerHostIP()).To16())
		if ip := net.ParseIP(s.ClientHostIP()).To4(); ip != nil && !strings.Contains(s.ClientHostIP(), ":") {
			ch = hex.EncodeToString(ip)
		}
		if ip := net.ParseIP(s.ServerHostIP()).To4(); ip != nil && !strings.Contains(s.ServerHostIP(), ":") {
			sh = hex.EncodeToString(ip)
		}
		fmt.Fprintf(w, "S %d %s %s:%d %s:%d %s %s\n", id, s.Protocol(), ch, s.ClientPort, sh, s.ServerPort,
			strings.Join(pks, ","), strings.Join(ds, ","))
	}
	return nil
}

func verifRunOne(t *testing.T, w *bufio.Writer, c *verifCase, r *verifRun) {
	fmt.Fprintf(w, "RUN %s\n", r.label)
	w.Flush()
	root, err := os.MkdirTemp("", "verifc05")
	if err != nil {
		t.Fatal(err)
	}
	defer os.RemoveAll(root)
	pcapDir, indexDir, snapDir := filepath.Join(root, "pcap"), filepath.Join(root, "idx"), filepath.Join(root, "snap")
	for _, d := range []string{pcapDir, indexDir, snapDir} {
		if err := os.Mkdir(d, 0o755); err != nil {
			t.Fatal(err)
		}
	}
	fileIdx := map[string]int{}
	for i, f := range c.files {
		fileIdx[f] = i
	}
	verifSnapEvery = r.snapEvery
	readers := []*index.Reader{}
	defer func() {
		for _, rd := range readers {
			rd.Close()
		}
	}()
	func() {
		defer func() {
			if e := recover(); e != nil {
				fmt.Fprintf(w, "PANIC %s\n", strings.ReplaceAll(fmt.Sprint(e), "\n", " "))
			}
		}()
		b, err := New(pcapDir, indexDir, snapDir, nil)
		if err != nil {
			panic(err)
		}
		for k, st := range r.steps {
			names := []string{}
			for _, fi := range st.files {
				if err := verifWritePcap(pcapDir, c.files[fi], c.pkts[fi]); err != nil {
					panic(err)
				}
				names = append(names, c.files[fi])
			}
			if st.flags&1 != 0 {
				// service restart: the files of this step have not arrived yet from the
				// point of view of the new Builder (written before New would make them "known")
				for _, n := range names {
					os.Rename(filepath.Join(pcapDir, n), filepath.Join(root, n))
				}
				b, err = New(pcapDir, indexDir, snapDir, nil)
				if err != nil {
					panic(err)
				}
				for _, n := range names {
					os.Rename(filepath.Join(root, n), filepath.Join(pcapDir, n))
				}
				for i, rd := range readers {
					fn := rd.Filename()
					rd.Close()
					nr, err := index.NewReader(fn)
					if err != nil {
						panic(err)
					}
					readers[i] = nr
				}
			}
			if st.flags&2 != 0 {
				b.snapshots = nil
			}
			proc, newIDs, created, upd, reset, added, err := b.FromPcap(pcapDir, names, readers)
			readers = append(readers, created...)
			u, rs, ad := "-", "-", "-"
			if upd != nil {
				u, rs, ad = verifBits(upd), verifBits(reset), verifBits(added)
			}
			fmt.Fprintf(w, "STEP %d proc=%d new=%d upd=%s reset=%s added=%s err=%s snaps=%s\n", k, proc, newIDs, u, rs, ad, verifErr(err), verifSnaps(b, fileIdx))
			if err := verifDumpVisible(w, readers, fileIdx); err != nil {
				fmt.Fprintf(w, "DUMPERR %s\n", verifErr(err))
			}
			w.Flush()
		}
	}()
	fmt.Fprintf(w, "ENDRUN\n")
	w.Flush()
}

func verifC05Main(t *testing.T) {
	in := os.Getenv("VERIF_CASES")
	if in == "" {
		t.Skip("no VERIF_CASES")
	}
	log.SetOutput(io.Discard)
	f, err := os.Open(in)
	if err != nil {
		t.Fatal(err)
	}
	defer f.Close()
	of, err := os.Create(os.Getenv("VERIF_OUT"))
	if err != nil {
		t.Fatal(err)
	}
	defer of.Close()
	w := bufio.NewWriter(of)
	defer w.Flush()
	sc := bufio.NewScanner(f)
	sc.Buffer(make([]byte, 1<<20), 1<<26)
	var c *verifCase
	for sc.Scan() {
		tok := strings.Fields(sc.Text())
		if len(tok) == 0 {
			continue
		}
		switch tok[0] {
		case "CASE":
			c = &verifCase{name: tok[1]}
		case "F":
			c.files = append(c.files, tok[1])
			c.pkts = append(c.pkts, nil)
		case "P":
			p := verifPkt{file: int(verifInt(tok[1])), ts: verifInt(tok[2]), src: verifHex(tok[3]), sport: uint16(verifInt(tok[4])),
				dst: verifHex(tok[5]), dport: uint16(verifInt(tok[6]))}
			if tok[7] == "T" {
				p.tcp = true
				p.flags = tok[8]
				p.seq = uint32(verifInt(tok[9]))
				p.ack = uint32(verifInt(tok[10]))
				p.data = verifHex(tok[11])
			} else {
				p.data = verifHex(tok[8])
			}
			c.pkts[p.file] = append(c.pkts[p.file], p)
		case "RUN":
			r := verifRun{label: tok[1], snapEvery: 100_000}
			if len(tok) > 2 {
				r.snapEvery = uint64(verifInt(tok[2]))
			}
			c.runs = append(c.runs, r)
		case "IMPORT":
			st := verifStep{flags: int(verifInt(tok[1]))}
			for _, x := range tok[2:] {
				st.files = append(st.files, int(verifInt(x)))
			}
			r := &c.runs[len(c.runs)-1]
			r.steps = append(r.steps, st)
		case "END":
			fmt.Fprintf(w, "CASE %s\n", c.name)
			for i := range c.runs {
				verifRunOne(t, w, c, &c.runs[i])
			}
			fmt.Fprintf(w, "END\n")
			w.Flush()
			c = nil
		}
	}
}

func TestVerifC05(t *testing.T) { verifC05Main(t) }
