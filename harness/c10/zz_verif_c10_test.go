package manager

// Gated scenario harness for C10 (views are complete, stable snapshots) and C13
// (index files live exactly as long as they are needed). Injected with
// `go test -tags verif -overlay` (add-only). Reads scenarios (one JSON object per
// line) from $VERIF_CASES and writes one JSON line per executed action to $VERIF_OUT.
//
// A scenario = generated capture files + a script of abstract actions. Background
// jobs of the real Manager park in manager.VerifGate; the script decides which parked
// job proceeds. After every action the harness waits until the service loop is idle
// and every live job is parked, then dumps (from inside the service loop) the index
// list, use counts, queue and flags, lists the index directory and queries every open
// View with a fixed battery.

import (
	"bufio"
	"bytes"
	"context"
	"crypto/sha1"
	"encoding/hex"
	"encoding/json"
	"fmt"
	"io"
	"log"
	"net/http"
	"net/http/httptest"
	"net/netip"
	"os"
	"path/filepath"
	"sort"
	"strings"
	"sync"
	"testing"
	"time"

	"github.com/gopacket/gopacket"
	"github.com/gopacket/gopacket/layers"
	"github.com/gopacket/gopacket/pcapgo"
	"github.com/spq/pkappa2/internal/index"
	"github.com/spq/pkappa2/internal/query"
	"github.com/spq/pkappa2/internal/tools/bitmask"
)

// ---------------------------------------------------------------- gate controller

type vcParked struct {
	phase string
	ch    chan struct{}
}

type vcGateCtl struct {
	mu     sync.Mutex
	parked map[string]*vcParked // by job kind (at most one live job per kind)
	free   bool                 // pass-through (used to drain an aborted scenario)
	frozen bool                 // jobs arriving now belong to an abandoned manager: block them for good
	gen    uint64               // counts every arrival at a gate and every release (to detect changes between two reads)
	wake   chan struct{}
}

var vcCtl = &vcGateCtl{parked: map[string]*vcParked{}, wake: make(chan struct{}, 1)}

func vcGate(point string) {
	kind, phase, _ := strings.Cut(point, ".")
	c := vcCtl
	c.mu.Lock()
	if c.frozen {
		c.mu.Unlock()
		select {}
	}
	if c.free {
		c.mu.Unlock()
		return
	}
	p := &vcParked{phase: phase, ch: make(chan struct{})}
	c.parked[kind] = p
	c.gen++
	c.mu.Unlock()
	select {
	case c.wake <- struct{}{}:
	default:
	}
	<-p.ch
}

func (c *vcGateCtl) snapshot() map[string]string {
	r, _ := c.snapshotGen()
	return r
}

func (c *vcGateCtl) snapshotGen() (map[string]string, uint64) {
	c.mu.Lock()
	defer c.mu.Unlock()
	r := map[string]string{}
	for k, p := range c.parked {
		r[k] = p.phase
	}
	return r, c.gen
}

func (c *vcGateCtl) release(kind string) bool {
	c.mu.Lock()
	p, ok := c.parked[kind]
	if ok {
		delete(c.parked, kind)
		c.gen++
	}
	c.mu.Unlock()
	if ok {
		close(p.ch)
	}
	return ok
}

func (c *vcGateCtl) setFrozen(v bool) {
	c.mu.Lock()
	c.frozen = v
	c.mu.Unlock()
}

func (c *vcGateCtl) setFree(v bool) {
	c.mu.Lock()
	c.free = v
	ps := c.parked
	if v {
		c.parked = map[string]*vcParked{}
	}
	c.mu.Unlock()
	if v {
		for _, p := range ps {
			close(p.ch)
		}
	}
}

// ---------------------------------------------------------------- log capture

type vcLogBuf struct {
	mu  sync.Mutex
	buf bytes.Buffer
}

func (l *vcLogBuf) Write(p []byte) (int, error) {
	l.mu.Lock()
	defer l.mu.Unlock()
	return l.buf.Write(p)
}

// bad returns the log lines (since the last call) that report a failed job or file operation.
func (l *vcLogBuf) bad() []string {
	l.mu.Lock()
	s := l.buf.String()
	l.buf.Reset()
	l.mu.Unlock()
	out := []string{}
	for _, line := range strings.Split(s, "\n") {
		low := strings.ToLower(line)
		if strings.Contains(low, "fail") || strings.Contains(low, "unable") || strings.Contains(low, "error") {
			if i := strings.Index(line, " "); i > 0 { // strip date
				if j := strings.Index(line[i+1:], " "); j > 0 {
					line = line[i+j+2:]
				}
			}
			out = append(out, line)
		}
	}
	return out
}

// ---------------------------------------------------------------- scenario format

type vcScenario struct {
	Name    string              `json:"name"`
	Caps    [][][2]int          `json:"caps"`    // capture k = packets [flow, nbytes]
	Script  [][]json.RawMessage `json:"script"`  // [op, arg]
	Tags    []string            `json:"tags"`    // definitions used by successive tagadd actions
	Probe   int                 `json:"probe"`   // Stream(id) probed for id in [0,probe)
	Bad     []int               `json:"bad"`     // captures written as unreadable files (readPackets fails)
	Conv    bool                `json:"conv"`    // install a converter executable "cv" before the manager starts
	Restart bool                `json:"restart"` // at the end: Close, plant an unloadable index file, manager.New on the same directories
}

type vcFileEntry [3]uint64 // id, flow (client port - 1000), version (client bytes)

type vcState struct {
	Idx    []string                 `json:"idx"`
	Files  map[string][]vcFileEntry `json:"files,omitempty"` // contents of files not dumped before
	Used   map[string]uint          `json:"used"`
	Queue  []string                 `json:"queue"`
	Merge  bool                     `json:"merge"`
	Tag    bool                     `json:"tag"`
	Conv   bool                     `json:"conv"`
	Next   uint64                   `json:"next"`
	NRec   int                      `json:"nrec"`
	NUnm   int                      `json:"nunm"`
	NTags  int                      `json:"ntags"`
	Unc    int                      `json:"unc"`
	TagN   []string                 `json:"tagnames"`
	UncN   []string                 `json:"uncnames"`
	ReadEr []string                 `json:"readerr,omitempty"`
}

type vcViewObs struct {
	Held  []string `json:"held"`
	Ans   string   `json:"ans"`
	Errs  []string `json:"errs,omitempty"`
	Paged []string `json:"paged,omitempty"` // sorted searches with a limit, page by page: "key/limit=id:cbytes,id:cbytes|next page|..."
	Tags  string   `json:"tags"`            // the view's own copy of the tag details (matches / uncertain bits per tag), read after ALL batteries of the step
	Pre   bool     `json:"pre,omitempty"`
}

type vcStep struct {
	H        string               `json:"h,omitempty"`
	Act      []interface{}        `json:"act,omitempty"`
	St       *vcState             `json:"st,omitempty"`
	Parked   map[string]string    `json:"parked,omitempty"`
	Dir      []string             `json:"dir"`
	Views    map[string]vcViewObs `json:"views,omitempty"`
	Locks    uint                 `json:"locks"`
	NIdx     int                  `json:"nidx"`
	NQueue   int                  `json:"nqueue"`
	NPcaps   int                  `json:"npcaps"`
	Reported []string             `json:"reported,omitempty"` // capture files named by the pcap-processed webhook calls of this action
	Events   int                  `json:"events"`
	EvPcaps  int                  `json:"evpcaps"`
	Log      []string             `json:"log,omitempty"`
	Fatal    string               `json:"fatal,omitempty"`
	End      bool                 `json:"end,omitempty"`
}

type vcView struct {
	id   int
	v    View
	open bool
	pre  bool // this view's battery asks with PrefetchAllTags (lazy evaluation of uncertain tags into the view's own copy)
	// handler shape (every second view): the view lives in a goroutine written like the HTTP handlers of cmd/pkappa2,
	// `v := mgr.GetView(); defer v.Release()` BEFORE the first use; the harness sends it the reads and finally lets it return.
	req  chan func(*View)
	done chan struct{}
}

func vcHandlerView(mgr *Manager, req chan func(*View), done chan struct{}) {
	defer close(done)
	v := mgr.GetView()
	defer v.Release()
	for f := range req {
		f(&v)
	}
}

func (vv *vcView) do(f func(*View)) {
	if vv.req == nil {
		f(&vv.v)
		return
	}
	c := make(chan interface{}, 1)
	vv.req <- func(v *View) {
		defer func() { c <- recover() }()
		f(v)
	}
	if p := <-c; p != nil {
		panic(p)
	}
}

func (vv *vcView) release() {
	if vv.req == nil {
		vv.v.Release()
		return
	}
	close(vv.req)
	<-vv.done
}

// webhook receiver: the pcap-processed report that names the processed capture files
type vcHooks struct {
	mu    sync.Mutex
	calls [][]string
}

var vcHook = &vcHooks{}
var vcHookSrv *httptest.Server

func (h *vcHooks) ServeHTTP(w http.ResponseWriter, req *http.Request) {
	body, _ := io.ReadAll(req.Body)
	names := []string{}
	var abs []string
	if json.Unmarshal(body, &abs) == nil {
		for _, a := range abs {
			names = append(names, filepath.Base(a))
		}
	}
	h.mu.Lock()
	h.calls = append(h.calls, names)
	h.mu.Unlock()
	w.WriteHeader(200)
}

func (h *vcHooks) count() int {
	h.mu.Lock()
	defer h.mu.Unlock()
	return len(h.calls)
}

func vcBits(bm bitmask.LongBitmask) string {
	var sb strings.Builder
	for i := uint(0); bm.Next(&i); i++ {
		fmt.Fprintf(&sb, "%d.", i)
	}
	return sb.String()
}

// tagSnap renders the view's own tag details.
func vcTagSnap(v *View) string {
	names := []string{}
	for n := range v.tagDetails {
		names = append(names, n)
	}
	sort.Strings(names)
	var sb strings.Builder
	for _, n := range names {
		td := v.tagDetails[n]
		fmt.Fprintf(&sb, "%s:M=%s:U=%s;", n, vcBits(td.Matches), vcBits(td.Uncertain))
	}
	return sb.String()
}

type vcRun struct {
	t         *testing.T
	mgr       *Manager
	sc        *vcScenario
	dir       string
	pcapDir   string
	idxDir    string
	seen      map[string]bool
	views     []*vcView
	queries   []*query.Query
	qtext     []string
	nextCap   int
	nextTag   int
	nextDef   int
	lastSt    *vcState
	mergeIn   string // last file of the index list when the live merge job was launched (certainly one of its inputs)
	mergeOn   bool
	hookSeen  int    // webhook calls already attributed to an action
	pagedTurn int    // rotates the sort keys of the paged searches
	jobTag    string // tag the live tagging job works on ("" none, "?" not identifiable: several tags were uncertain at launch)
	tagLive   bool
	logs      *vcLogBuf
	evMu      sync.Mutex
	events    int
	evPcaps   int
}

var vcT0 = time.Date(2020, 1, 1, 12, 0, 0, 0, time.UTC)

// deterministic converter: echoes what it was given (same protocol as testdata/test_converter.py)
const vcConverterScript = `#!/usr/bin/python3
import base64, json, sys
lines = []
while 1:
    line = sys.stdin.readline()
    if line == "":
        break
    line = line.strip()
    if line != "":
        lines.append(json.loads(line))
        continue
    print(json.dumps({"Direction": "client-to-server", "Content": base64.b64encode(json.dumps({"n": len(lines)}).encode()).decode(), "Time": "2222-02-22T22:22:22.222222"}))
    print()
    print("{}", flush=True)
    lines = []
`

// waitConverter waits until the converter "cv" is (not) registered in the manager (fsnotify is asynchronous).
func (r *vcRun) waitConverter(present bool) {
	deadline := time.Now().Add(5 * time.Second)
	for time.Now().Before(deadline) {
		has := false
		r.inLoop(func() { _, has = r.mgr.converters["cv"] })
		if has == present {
			return
		}
		time.Sleep(2 * time.Millisecond)
	}
	panic(fmt.Sprintf("converter cv present=%v not reached", present))
}

func vcWriteCapture(dir string, k int, pkts [][2]int, bad bool) (string, error) {
	name := fmt.Sprintf("c%03d.pcap", k)
	if bad {
		return name, os.WriteFile(filepath.Join(dir, name), []byte("this is not a capture file\n"), 0644)
	}
	f, err := os.Create(filepath.Join(dir, name))
	if err != nil {
		return "", err
	}
	defer f.Close()
	w := pcapgo.NewWriter(f)
	if err := w.WriteFileHeader(0xffff, layers.LinkTypeIPv4); err != nil {
		return "", err
	}
	for j, p := range pkts {
		c := netip.MustParseAddrPort(fmt.Sprintf("10.0.0.1:%d", 1000+p[0]))
		s := netip.MustParseAddrPort("10.0.0.2:4321")
		ip := layers.IPv4{Version: 4, TTL: 64, SrcIP: c.Addr().AsSlice(), DstIP: s.Addr().AsSlice(), Protocol: layers.IPProtocolUDP}
		udp := layers.UDP{SrcPort: layers.UDPPort(c.Port()), DstPort: layers.UDPPort(s.Port())}
		if err := udp.SetNetworkLayerForChecksum(&ip); err != nil {
			return "", err
		}
		buf := gopacket.NewSerializeBuffer()
		payload := bytes.Repeat([]byte{byte('a' + k%26)}, p[1])
		if err := gopacket.SerializeLayers(buf, gopacket.SerializeOptions{ComputeChecksums: true, FixLengths: true}, &ip, &udp, gopacket.Payload(payload)); err != nil {
			return "", err
		}
		data := buf.Bytes()
		ci := gopacket.CaptureInfo{Timestamp: vcT0.Add(time.Duration(k)*10*time.Second + time.Duration(j)*time.Millisecond), CaptureLength: len(data), Length: len(data)}
		if err := w.WritePacket(ci, data); err != nil {
			return "", err
		}
	}
	return name, nil
}

// inLoop runs f inside the service loop and waits for it.
func (r *vcRun) inLoop(f func()) bool {
	done := make(chan struct{})
	select {
	case r.mgr.jobs <- func() { f(); close(done) }:
	case <-time.After(10 * time.Second):
		return false
	}
	select {
	case <-done:
		return true
	case <-time.After(10 * time.Second):
		return false
	}
}

func vcBase(fn string) string { return filepath.Base(fn) }

func (r *vcRun) dump() (*vcState, map[string]bool) {
	st := &vcState{Used: map[string]uint{}, Files: map[string][]vcFileEntry{}, Idx: []string{}, Queue: []string{}}
	live := map[string]bool{}
	ok := r.inLoop(func() {
		m := r.mgr
		readFile := func(idx *index.Reader) {
			n := vcBase(idx.Filename())
			if r.seen[n] {
				return
			}
			ents := []vcFileEntry{}
			err := idx.AllStreams(func(s *index.Stream) error {
				ents = append(ents, vcFileEntry{s.ID(), uint64(s.ClientPort) - 1000, s.ClientBytes})
				return nil
			})
			if err != nil {
				st.ReadEr = append(st.ReadEr, n+": "+err.Error())
				return
			}
			r.seen[n] = true
			st.Files[n] = ents
		}
		for _, idx := range m.indexes {
			st.Idx = append(st.Idx, vcBase(idx.Filename()))
			readFile(idx)
		}
		for idx, n := range m.usedIndexes {
			st.Used[vcBase(idx.Filename())] = n
			readFile(idx)
		}
		st.Queue = append(st.Queue, m.importJobs...)
		st.Merge, st.Tag, st.Conv = m.mergeJobRunning, m.taggingJobRunning, m.converterJobRunning
		st.Next, st.NRec, st.NUnm = m.nextStreamID, m.nStreamRecords, m.nUnmergeableIndexes
		st.NTags = len(m.tags)
		st.TagN, st.UncN = []string{}, []string{}
		for n, t := range m.tags {
			st.TagN = append(st.TagN, n)
			if !t.Uncertain.IsZero() {
				st.Unc++
				st.UncN = append(st.UncN, n)
			}
		}
		sort.Strings(st.TagN)
		sort.Strings(st.UncN)
		if len(m.importJobs) > 0 {
			live["import"] = true
		}
		if m.mergeJobRunning {
			live["merge"] = true
		}
		if m.taggingJobRunning {
			live["tag"] = true
		}
		if m.converterJobRunning {
			live["convert"] = true
		}
	})
	if !ok {
		return nil, nil
	}
	return st, live
}

// settle waits until every live job is parked in a gate and returns the state dumped at that moment.
func (r *vcRun) settle() (*vcState, map[string]string, string) {
	deadline := time.Now().Add(10 * time.Second)
	files := map[string][]vcFileEntry{} // contents are dumped once per file: keep them over the retries
	for {
		// The state is accepted only if no job arrived at or left a gate between a read of the gate controller BEFORE
		// the dump closure and one AFTER it, and every live job is parked. (Comparing the kinds alone is not enough: the
		// dump closure can run before the completion closure of a released job while the job of the same kind that
		// this completion starts has parked by the time the gates are read.)
		_, gen1 := vcCtl.snapshotGen()
		st, live := r.dump()
		if st == nil {
			return nil, nil, "service loop does not answer (hang)"
		}
		for k, v := range st.Files {
			files[k] = v
		}
		st.Files = files
		parked, gen2 := vcCtl.snapshotGen()
		same := gen1 == gen2 && len(parked) == len(live)
		for k := range live {
			if _, ok := parked[k]; !ok {
				same = false
			}
		}
		if same {
			return st, parked, ""
		}
		if time.Now().After(deadline) {
			return st, parked, fmt.Sprintf("jobs do not reach a gate: live=%v parked=%v", live, parked)
		}
		select {
		case <-vcCtl.wake:
		case <-time.After(2 * time.Millisecond):
		}
	}
}

func vcErrEnum(err error) string {
	if err == nil {
		return ""
	}
	s := err.Error()
	switch {
	case strings.Contains(s, "file already closed"):
		return "closed-file"
	case strings.Contains(s, "no such file"):
		return "no-such-file"
	case strings.Contains(s, "not defined"), strings.Contains(s, "does not exist"):
		return "tag-not-defined"
	}
	return "error:" + s
}

// battery queries a view: AllStreams, Stream(id) for id < probe, and the fixed searches.
func (r *vcRun) battery(vv *vcView) (obs vcViewObs) {
	vv.do(func(v *View) { obs = r.batteryOn(vv, v) })
	return obs
}

func (r *vcRun) batteryOn(vv *vcView, v *View) vcViewObs {
	obs := vcViewObs{Held: []string{}}
	var sb strings.Builder
	ctx := context.Background()
	fail := func(what string, err error) {
		e := vcErrEnum(err)
		if e != "tag-not-defined" {
			obs.Errs = append(obs.Errs, what+": "+e)
		}
		sb.WriteString("!" + e)
	}
	opts := []StreamsOption{}
	if vv.pre {
		opts = append(opts, PrefetchAllTags())
	}
	var tb strings.Builder
	sb.WriteString("A=")
	if err := v.AllStreams(ctx, func(sc StreamContext) error {
		s := sc.Stream()
		fmt.Fprintf(&sb, "%d:%d:%d,", s.ID(), uint64(s.ClientPort)-1000, s.ClientBytes)
		tags, err := sc.AllTags()
		if err != nil {
			return err
		}
		fmt.Fprintf(&tb, "%d:%s,", s.ID(), strings.Join(tags, "+"))
		return nil
	}, opts...); err != nil {
		fail("AllStreams", err)
	}
	sb.WriteString(" T=" + tb.String())
	sb.WriteString(" S=")
	for id := 0; id < r.sc.Probe; id++ {
		sc, err := v.Stream(uint64(id))
		if err != nil {
			fail(fmt.Sprintf("Stream(%d)", id), err)
		} else if sc.Stream() == nil {
			sb.WriteString("-,")
		} else {
			data, err := sc.Data("")
			if err != nil {
				fail(fmt.Sprintf("Stream(%d).Data", id), err)
			} else {
				h := sha1.New()
				n := 0
				for _, d := range data {
					h.Write(d.Content)
					n += len(d.Content)
				}
				fmt.Fprintf(&sb, "%d:%d:%d:%s,", sc.Stream().ID(), sc.Stream().ClientBytes, n, hex.EncodeToString(h.Sum(nil))[:8])
			}
		}
	}
	for i, q := range r.queries {
		fmt.Fprintf(&sb, " Q%d=", i)
		more, _, _, err := v.SearchStreams(ctx, q, func(sc StreamContext) error {
			fmt.Fprintf(&sb, "%d:%d,", sc.Stream().ID(), sc.Stream().ClientBytes)
			return nil
		}, opts...)
		if err != nil {
			fail("SearchStreams("+r.qtext[i]+")", err)
		} else if more {
			sb.WriteString("+more")
		}
	}
	// Searches with a page size and ONE sort key over all (possibly unmerged) index files of the view, all pages: two keys
	// per battery, rotating (not part of the stability string; compared with AllStreams by the check).
	r.pagedTurn++
	for t := 0; t < 2; t++ {
		key := vcSortKeys[(r.pagedTurn*2+t)%len(vcSortKeys)]
		q, err := query.Parse("sport:4321 sort:" + key)
		if err != nil {
			panic(err)
		}
		for _, limit := range []uint{1, 2, 3} {
			var pb strings.Builder
			fmt.Fprintf(&pb, "%s/%d=", key, limit)
			for page := uint(0); page < 12; page++ {
				more, _, _, err := v.SearchStreams(ctx, q, func(sc StreamContext) error {
					fmt.Fprintf(&pb, "%d:%d,", sc.Stream().ID(), sc.Stream().ClientBytes)
					return nil
				}, append([]StreamsOption{Limit(limit, page)}, opts...)...)
				if err != nil {
					fail(fmt.Sprintf("SearchStreams(sort:%s limit %d page %d)", key, limit, page), err)
					break
				}
				if !more {
					break
				}
				pb.WriteString("|")
			}
			obs.Paged = append(obs.Paged, pb.String())
		}
	}
	for _, idx := range v.indexes {
		obs.Held = append(obs.Held, vcBase(idx.Filename()))
	}
	obs.Ans = sb.String()
	obs.Pre = vv.pre
	return obs
}

func (r *vcRun) listDir() []string {
	out := []string{}
	es, err := os.ReadDir(r.idxDir)
	if err != nil {
		return []string{"ERR " + err.Error()}
	}
	for _, e := range es {
		if strings.HasSuffix(e.Name(), ".idx") { // index files only (converter caches *.cidx live in the same directory)
			out = append(out, e.Name())
		}
	}
	sort.Strings(out)
	return out
}

func (r *vcRun) observe(act []interface{}) *vcStep {
	step := &vcStep{Act: act}
	st, parked, fatal := r.settle()
	step.St, step.Parked, step.Fatal = st, parked, fatal
	step.Dir = r.listDir()
	if fatal != "" {
		return step
	}
	step.Views = map[string]vcViewObs{}
	nviews := 0
	for _, vv := range r.views {
		if vv.open {
			step.Views[fmt.Sprint(vv.id)] = r.battery(vv)
			nviews++
		}
	}
	for _, vv := range r.views {
		if vv.open { // after every view was asked: nobody but the view itself may have touched its copy of the tag details
			o := step.Views[fmt.Sprint(vv.id)]
			vv.do(func(v *View) { o.Tags = vcTagSnap(v) })
			step.Views[fmt.Sprint(vv.id)] = o
		}
	}
	if nviews != 0 {
		// the state is dumped again after the reads (reads must not change it; if they do, the dump shows it)
		st2, parked2, fatal2 := r.settle()
		if st2 != nil {
			for k, v := range st.Files {
				if _, ok := st2.Files[k]; !ok {
					st2.Files[k] = v
				}
			}
		}
		step.St, step.Parked, step.Fatal = st2, parked2, fatal2
		step.Dir = r.listDir()
		if fatal2 != "" {
			return step
		}
	}
	stc := make(chan Statistics, 1)
	go func() { stc <- r.mgr.Status() }()
	select {
	case s := <-stc:
		step.Locks, step.NIdx, step.NQueue, step.NPcaps = s.IndexLockCount, s.IndexCount, s.ImportJobCount, s.PcapCount
	case <-time.After(10 * time.Second):
		step.Fatal = "Status() does not return"
		return step
	}
	r.evMu.Lock()
	step.Events, step.EvPcaps = r.events, r.evPcaps
	r.evMu.Unlock()
	vcHook.mu.Lock()
	for ; r.hookSeen < len(vcHook.calls); r.hookSeen++ {
		step.Reported = append(step.Reported, vcHook.calls[r.hookSeen]...)
	}
	vcHook.mu.Unlock()
	step.Log = r.logs.bad()
	if st := step.St; st != nil {
		r.lastSt = st
		completedTag := len(act) == 2 && act[0] == "complete" && act[1] == "tag"
		if !st.Tag {
			r.jobTag = ""
		} else if !r.tagLive || completedTag {
			// a tagging job was launched by this action: it works on one of the uncertain tags
			if len(st.UncN) == 1 {
				r.jobTag = st.UncN[0]
			} else {
				r.jobTag = "?"
			}
		}
		r.tagLive = st.Tag
		completedMerge := len(act) == 2 && act[0] == "complete" && act[1] == "merge"
		if !st.Merge {
			r.mergeIn = ""
		} else if (!r.mergeOn || completedMerge) && len(st.Idx) > 0 {
			r.mergeIn = st.Idx[len(st.Idx)-1]
		}
		r.mergeOn = st.Merge
	}
	return step
}

func (r *vcRun) waitEvents(n int) {
	deadline := time.Now().Add(5 * time.Second)
	for time.Now().Before(deadline) {
		r.evMu.Lock()
		e := r.events
		r.evMu.Unlock()
		if e >= n {
			return
		}
		time.Sleep(time.Millisecond)
	}
}

func vcArgInt(raw []json.RawMessage, i int) int {
	if len(raw) <= i {
		return 0
	}
	var v int
	if json.Unmarshal(raw[i], &v) != nil {
		return 0
	}
	return v
}

func vcArgStr(raw []json.RawMessage, i int) string {
	if len(raw) <= i {
		return ""
	}
	var v string
	if json.Unmarshal(raw[i], &v) != nil {
		return ""
	}
	return v
}

var vcSortKeys = []string{"id", "-id", "ftime", "-ftime", "ltime", "-ltime", "cbytes", "-cbytes", "sbytes", "cport", "-cport"}

var vcKinds = []string{"import", "merge", "tag", "convert"}

// apply resolves one script entry against the current situation and performs it.
// Returns the resolved action (nil = not enabled, skipped).
func (r *vcRun) apply(op []json.RawMessage) []interface{} {
	switch vcArgStr(op, 0) {
	case "import":
		n := vcArgInt(op, 1)
		names := []string{}
		caps := []interface{}{}
		for i := 0; i < n && r.nextCap < len(r.sc.Caps); i++ {
			bad := false
			for _, b := range r.sc.Bad {
				if b == r.nextCap {
					bad = true
				}
			}
			name, err := vcWriteCapture(r.pcapDir, r.nextCap, r.sc.Caps[r.nextCap], bad)
			if err != nil {
				panic(err)
			}
			names = append(names, name)
			caps = append(caps, r.nextCap)
			r.nextCap++
		}
		if len(names) == 0 {
			return nil
		}
		r.mgr.ImportPcaps(names)
		return []interface{}{"import", caps}
	case "view", "viewp":
		vv := &vcView{id: len(r.views), open: true, pre: vcArgStr(op, 0) == "viewp"}
		if vv.id%2 == 1 {
			vv.req, vv.done = make(chan func(*View)), make(chan struct{})
			go vcHandlerView(r.mgr, vv.req, vv.done)
		} else {
			vv.v = r.mgr.GetView()
		}
		r.views = append(r.views, vv)
		vv.do(func(v *View) {
			if err := v.fetch(); err != nil {
				panic(err)
			}
		})
		if vv.pre {
			return []interface{}{"view", vv.id, "p"}
		}
		return []interface{}{"view", vv.id}
	case "read", "release":
		open := []*vcView{}
		for _, vv := range r.views {
			if vv.open {
				open = append(open, vv)
			}
		}
		if len(open) == 0 {
			return nil
		}
		vv := open[vcArgInt(op, 1)%len(open)]
		if vcArgStr(op, 0) == "read" {
			// the read itself is done by observe (every open view is queried after every action)
			vv.do(func(v *View) {
				if err := v.fetch(); err != nil {
					panic(err)
				}
			})
			return []interface{}{"read", vv.id}
		}
		vv.release()
		vv.open = false
		return []interface{}{"release", vv.id}
	case "tagadd":
		if r.nextTag >= len(r.sc.Tags) {
			return nil
		}
		name := fmt.Sprintf("tag/t%d", r.nextTag)
		def := r.sc.Tags[r.nextTag]
		if err := r.mgr.AddTag(name, "red", def); err != nil {
			panic(fmt.Sprintf("AddTag(%q,%q): %v", name, def, err))
		}
		r.nextTag++
		return []interface{}{"tagadd", name}
	case "reftag":
		// a tag whose definition REFERENCES the mark tag: mark edits make it uncertain through inheritTagUncertainty
		if r.lastSt == nil {
			return nil
		}
		hasMark, hasRef := false, false
		for _, n := range r.lastSt.TagN {
			hasMark = hasMark || n == "mark/m"
			hasRef = hasRef || n == "tag/ref"
		}
		if !hasMark || hasRef {
			return nil
		}
		def := "mark:m"
		if vcArgInt(op, 1)%2 == 1 {
			def = "-mark:m sport:4321"
		}
		if err := r.mgr.AddTag("tag/ref", "yellow", def); err != nil {
			panic(err)
		}
		return []interface{}{"tagadd", "tag/ref"}
	case "markadd", "markdel":
		// edits of the mark tag mark/m: the stream id is taken among the existing streams, so Set/Unset stay inside the
		// words the bitmask already has (the case in which a shared bitmask would change under an open view)
		if r.lastSt == nil || r.lastSt.Next == 0 {
			return nil
		}
		id := uint64(vcArgInt(op, 1)) % r.lastSt.Next
		has := false
		for _, n := range r.lastSt.TagN {
			if n == "mark/m" {
				has = true
			}
		}
		if !has {
			if vcArgStr(op, 0) == "markdel" {
				return nil
			}
			if err := r.mgr.AddTag("mark/m", "green", fmt.Sprintf("id:%d", id)); err != nil {
				panic(err)
			}
			return []interface{}{"marknew", id}
		}
		o := UpdateTagOperationMarkAddStream([]uint64{id})
		if vcArgStr(op, 0) == "markdel" {
			o = UpdateTagOperationMarkDelStream([]uint64{id})
		}
		if err := r.mgr.UpdateTag("mark/m", o); err != nil {
			panic(err)
		}
		return []interface{}{"markedit", vcArgStr(op, 0), id}
	case "tagdel", "tagupd":
		if r.lastSt == nil || (r.lastSt.Tag && r.jobTag == "?") {
			return nil
		}
		cands := []string{}
		for _, n := range r.lastSt.TagN {
			if !strings.HasPrefix(n, "mark/") {
				cands = append(cands, n)
			}
		}
		if len(cands) == 0 {
			return nil
		}
		name := cands[vcArgInt(op, 1)%len(cands)]
		wasunc := false
		for _, n := range r.lastSt.UncN {
			if n == name {
				wasunc = true
			}
		}
		hit := r.lastSt.Tag && name == r.jobTag
		if vcArgStr(op, 0) == "tagdel" {
			if err := r.mgr.DelTag(name); err != nil {
				panic(fmt.Sprintf("DelTag(%q): %v", name, err))
			}
		} else {
			r.nextDef++
			def := fmt.Sprintf("cdata:\"u%d\"", r.nextDef)
			if err := r.mgr.UpdateTag(name, UpdateTagOperationUpdateQuery(def)); err != nil {
				if strings.Contains(err.Error(), "too complex") {
					// a tag that keeps converters refuses a data query (/repo 7bcf2d3): the request is validated before
					// anything is mutated, so this is an expected outcome without state change = the action is not enabled
					return nil
				}
				panic(fmt.Sprintf("UpdateTag(%q,%q): %v", name, def, err))
			}
		}
		return []interface{}{vcArgStr(op, 0), name, wasunc, hit}
	case "convtag", "convattach", "convdetach", "convremove", "convadd":
		if !r.sc.Conv {
			return nil
		}
		hasTag, hasConv := false, false
		r.inLoop(func() {
			_, hasTag = r.mgr.tags["tag/cv"]
			_, hasConv = r.mgr.converters["cv"]
		})
		cvPath := filepath.Join(r.dir, "converter", "cv")
		switch vcArgStr(op, 0) {
		case "convtag":
			if hasTag {
				return nil
			}
			if err := r.mgr.AddTag("tag/cv", "blue", "sport:4321"); err != nil {
				panic(err)
			}
		case "convattach", "convdetach":
			if !hasTag || !hasConv || (r.lastSt != nil && r.lastSt.Tag && r.jobTag == "?") {
				return nil
			}
			names := []string{"cv", "cw"} // two converters get queued streams at once: ONE converter job, one snapshot
			if vcArgStr(op, 0) == "convdetach" {
				names = nil
			}
			if err := r.mgr.UpdateTag("tag/cv", UpdateTagOperationSetConverter(names)); err != nil {
				if strings.Contains(err.Error(), "too complex") { // the tag was redefined with a data filter: refused, nothing changed
					return nil
				}
				panic(err)
			}
		case "convremove":
			if !hasConv {
				return nil
			}
			if err := os.Remove(cvPath); err != nil {
				panic(err)
			}
			r.waitConverter(false)
		case "convadd":
			if hasConv {
				return nil
			}
			if err := os.WriteFile(cvPath, []byte(vcConverterScript), 0775); err != nil {
				panic(err)
			}
			r.waitConverter(true)
		}
		return []interface{}{vcArgStr(op, 0)}
	case "failmerge":
		// The parked merge job runs its body on a damaged input: one of its input files is truncated on disk (as a failing
		// disk would do), the job is released from merge.start, index.Merge fails, the job parks at merge.done, and the file
		// gets its bytes back before anything else reads it.
		parked := vcCtl.snapshot()
		if parked["merge"] != "start" || r.mergeIn == "" {
			return nil
		}
		fn := filepath.Join(r.idxDir, r.mergeIn)
		orig, err := os.ReadFile(fn)
		if err != nil {
			panic(err)
		}
		cut := int64(230)
		if int64(len(orig)) <= cut {
			cut = int64(len(orig) / 2)
		}
		if err := os.Truncate(fn, cut); err != nil {
			panic(err)
		}
		vcCtl.release("merge")
		deadline := time.Now().Add(10 * time.Second)
		for vcCtl.snapshot()["merge"] != "done" && time.Now().Before(deadline) {
			time.Sleep(time.Millisecond)
		}
		f, err := os.OpenFile(fn, os.O_WRONLY, 0) // same inode: the Reader keeps its descriptor
		if err != nil {
			panic(err)
		}
		if _, err := f.WriteAt(orig, 0); err != nil {
			panic(err)
		}
		f.Close()
		return []interface{}{"failmerge"}
	case "step":
		parked := vcCtl.snapshot()
		ks := []string{}
		for _, k := range vcKinds {
			if _, ok := parked[k]; ok {
				ks = append(ks, k)
			}
		}
		if len(ks) == 0 {
			return nil
		}
		k := ks[vcArgInt(op, 1)%len(ks)]
		return r.stepJob(k, parked[k])
	case "job": // explicit form used by replays: ["job", kind]
		parked := vcCtl.snapshot()
		k := vcArgStr(op, 1)
		if _, ok := parked[k]; !ok {
			return nil
		}
		return r.stepJob(k, parked[k])
	}
	return nil
}

func (r *vcRun) stepJob(kind, phase string) []interface{} {
	r.evMu.Lock()
	ev := r.events
	r.evMu.Unlock()
	hooks := vcHook.count()
	vcCtl.release(kind)
	if phase == "done" {
		if kind == "import" {
			r.waitEvents(ev + 1)
			deadline := time.Now().Add(5 * time.Second)
			for vcHook.count() < hooks+1 && time.Now().Before(deadline) {
				time.Sleep(time.Millisecond)
			}
		}
		return []interface{}{"complete", kind}
	}
	return []interface{}{"start", kind}
}

func (r *vcRun) scenario(w *bufio.Writer) {
	emit := func(s *vcStep) {
		b, _ := json.Marshal(s)
		w.Write(b)
		w.WriteByte('\n')
		w.Flush()
	}
	emit(&vcStep{H: r.sc.Name, Dir: []string{}})
	base, err := os.MkdirTemp("", "verifc10")
	if err != nil {
		r.t.Fatal(err)
	}
	defer os.RemoveAll(base)
	r.dir = base
	ds := map[string]string{}
	for _, n := range []string{"pcap", "index", "snapshot", "state", "converter", "watch"} {
		ds[n] = filepath.Join(base, n) + "/"
		if err := os.Mkdir(ds[n], 0755); err != nil {
			r.t.Fatal(err)
		}
	}
	r.pcapDir, r.idxDir = ds["pcap"], ds["index"]
	if r.sc.Conv {
		for _, cn := range []string{"cv", "cw"} {
			if err := os.WriteFile(filepath.Join(ds["converter"], cn), []byte(vcConverterScript), 0775); err != nil {
				r.t.Fatal(err)
			}
		}
	}
	r.seen = map[string]bool{}
	r.qtext = []string{"sport:4321", "cbytes:7:", "cport:1001", "id:0", "tag:t0"}
	for _, qt := range r.qtext {
		q, err := query.Parse(qt)
		if err != nil {
			r.t.Fatalf("query.Parse(%q): %v", qt, err)
		}
		r.queries = append(r.queries, q)
	}
	vcCtl.setFrozen(false)
	vcCtl.setFree(false)
	startManager := func() {
		mgr, err := New(ds["pcap"], ds["index"], ds["snapshot"], ds["state"], ds["converter"], "")
		if err != nil {
			panic(fmt.Sprintf("manager.New: %v", err))
		}
		r.mgr = mgr
		if err := mgr.AddPcapProcessorWebhook(vcHookSrv.URL); err != nil && !strings.Contains(err.Error(), "already exists") {
			panic(err)
		}
		evc, _ := mgr.Listen()
		go func() {
			for e := range evc {
				if e.Type == "pcapProcessed" {
					r.evMu.Lock()
					r.events++
					if e.PcapStats != nil {
						r.evPcaps = e.PcapStats.PcapCount
					}
					r.evMu.Unlock()
				}
			}
		}()
	}
	closeManager := func() {
		c := make(chan struct{})
		// (calling the listener's closer AND Close can close the listener's channel twice when an event delivery is
		// still in flight -- manager.go Close/Listen -- so only Close is used here)
		m := r.mgr
		go func() { m.Close(); close(c) }()
		select {
		case <-c:
		case <-time.After(10 * time.Second):
		}
	}
	startManager()
	aborted := false
	finish := func() {
		// let everything run to completion without gates, then close the manager
		vcCtl.setFree(true)
		deadline := time.Now().Add(8 * time.Second)
		quiet := false
		for time.Now().Before(deadline) {
			_, live := r.dump()
			if live == nil || len(live) == 0 {
				quiet = true
				break
			}
			time.Sleep(2 * time.Millisecond)
		}
		if !quiet {
			// jobs of this manager keep coming (e.g. an import that fails and is restarted for ever): park them for good
			vcCtl.setFrozen(true)
			defer func() { time.Sleep(50 * time.Millisecond) }()
		}
		closeManager()
	}
	defer finish()
	func() {
		defer func() {
			if p := recover(); p != nil {
				emit(&vcStep{Fatal: fmt.Sprintf("PANIC %v", p), Dir: r.listDir()})
				aborted = true
			}
		}()
		s := r.observe([]interface{}{"init"})
		emit(s)
		if s.Fatal != "" {
			aborted = true
			return
		}
		for _, op := range r.sc.Script {
			act := r.apply(op)
			if act == nil {
				continue
			}
			s := r.observe(act)
			emit(s)
			if s.Fatal != "" {
				aborted = true
				return
			}
		}
		// drain: run every parked job to completion (bounded), then release the views one by one
		drain := func() bool {
			for i := 0; i < 80; i++ {
				parked := vcCtl.snapshot()
				var act []interface{}
				for _, k := range vcKinds {
					if ph, ok := parked[k]; ok {
						act = r.stepJob(k, ph)
						break
					}
				}
				if act == nil {
					break
				}
				s := r.observe(act)
				emit(s)
				if s.Fatal != "" {
					aborted = true
					return false
				}
			}
			for _, vv := range r.views {
				if vv.open {
					vv.release()
					vv.open = false
					emit(r.observe([]interface{}{"release", vv.id}))
				}
			}
			return true
		}
		if !drain() {
			return
		}
		if r.sc.Restart && len(vcCtl.snapshot()) == 0 {
			// restart on the same directories, with one index file that index.NewReader cannot load
			closeManager()
			junk := "2000-01-01_000000.000.0.idx"
			if err := os.WriteFile(filepath.Join(r.idxDir, junk), []byte("not an index file"), 0644); err != nil {
				panic(err)
			}
			r.tagLive, r.jobTag = false, ""
			startManager()
			s := r.observe([]interface{}{"restart", junk})
			emit(s)
			if s.Fatal != "" {
				aborted = true
				return
			}
			for _, op := range []string{`["view"]`, `["import",1]`, `["step",0]`, `["view"]`} {
				var raw []json.RawMessage
				if err := json.Unmarshal([]byte(op), &raw); err != nil {
					panic(err)
				}
				if act := r.apply(raw); act != nil {
					s := r.observe(act)
					emit(s)
					if s.Fatal != "" {
						aborted = true
						return
					}
				}
			}
			if !drain() {
				return
			}
		}
		s = r.observe([]interface{}{"end"})
		s.End = true
		emit(s)
	}()
	_ = aborted
}

func TestVerifC10(t *testing.T) {
	in := os.Getenv("VERIF_CASES")
	if in == "" {
		t.Skip("no VERIF_CASES")
	}
	f, err := os.Open(in)
	if err != nil {
		t.Fatal(err)
	}
	defer f.Close()
	of, err := os.Create(os.Getenv("VERIF_OUT"))
	if err != nil {
		t.Fatal(err)
	}
	defer of.Close()
	w := bufio.NewWriter(of)
	defer w.Flush()
	logs := &vcLogBuf{}
	log.SetOutput(logs)
	defer log.SetOutput(os.Stderr)
	VerifGate = vcGate
	vcHookSrv = httptest.NewServer(vcHook)
	defer vcHookSrv.Close()
	sc := bufio.NewScanner(f)
	sc.Buffer(make([]byte, 1<<20), 1<<26)
	for sc.Scan() {
		line := strings.TrimSpace(sc.Text())
		if line == "" {
			continue
		}
		var s vcScenario
		if err := json.Unmarshal([]byte(line), &s); err != nil {
			t.Fatalf("bad scenario: %v", err)
		}
		logs.bad()
		r := &vcRun{t: t, sc: &s, logs: logs, hookSeen: vcHook.count()}
		r.scenario(w)
	}
}
