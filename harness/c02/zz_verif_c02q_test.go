package query

// Correspondence harness for C02 in package query, injected with `go test -overlay` (add-only).
//
// inlineTagFilter itself: for generated tag tables and queries every conjunct of the parsed query is inlined
// with the real (unexported) Conditions.inlineTagFilter and the raw result -- before the trailing Clean() of
// InlineTagFilters -- is written as a list of conjuncts, together with everything the Coq model needs to
// redo the step: the conjunct, and per tag the definition as inlineTagFilter sees it and its inversion.

import (
	"bufio"
	"encoding/json"
	"fmt"
	"os"
	"sort"
	"strings"
	"testing"
)

type (
	verifC02QTag struct {
		Name      string `json:"name"`
		Def       string `json:"def"`
		Uncertain bool   `json:"uncertain"`
	}
	verifC02QCase struct {
		Tags []verifC02QTag `json:"tags"`
		Q    string         `json:"q"`
	}
	verifC02QCases struct {
		Inl []verifC02QCase `json:"inl"`
	}
)

const (
	verifC02QCondSep = "\x1d" // between the conditions of a conjunct
	verifC02QTagSep  = "\x1f" // inside a rendered tag condition
)

func verifC02QCond(c Condition) string {
	if t, ok := c.(*TagCondition); ok {
		return strings.Join([]string{"T", t.TagName, fmt.Sprintf("%d", t.Accept), t.SubQuery}, verifC02QTagSep)
	}
	return "A" + verifC02QTagSep + c.String()
}

func verifC02QConj(cs Conditions) string {
	l := []string(nil)
	for _, c := range cs {
		l = append(l, verifC02QCond(c))
	}
	return strings.Join(l, verifC02QCondSep)
}

func TestVerifC02Q(t *testing.T) {
	in := os.Getenv("VERIF_CASES")
	if in == "" {
		t.Skip("no VERIF_CASES")
	}
	raw, err := os.ReadFile(in)
	if err != nil {
		t.Fatal(err)
	}
	cases := verifC02QCases{}
	if err := json.Unmarshal(raw, &cases); err != nil {
		t.Fatal(err)
	}
	of, err := os.Create(os.Getenv("VERIF_OUT"))
	if err != nil {
		t.Fatal(err)
	}
	defer of.Close()
	w := bufio.NewWriter(of)
	defer w.Flush()
	for ci, c := range cases.Inl {
		p := func() (p interface{}) {
			defer func() { p = recover() }()
			verifC02QCaseRun(w, ci, c)
			return nil
		}()
		if p != nil {
			fmt.Fprintf(w, "INLPANIC\t%d\t%v\n", ci, p)
		}
		w.Flush()
	}
}

func verifC02QCaseRun(w *bufio.Writer, ci int, c verifC02QCase) {
	tags := map[string]TagDetails{}
	names := []string(nil)
	for _, tg := range c.Tags {
		q, err := Parse(tg.Def)
		if err != nil {
			fmt.Fprintf(w, "INLERR\t%d\ttag %s: %v\n", ci, tg.Name, err)
			return
		}
		td := TagDetails{Conditions: q.Conditions}
		if tg.Uncertain {
			td.Uncertain.Set(0)
		}
		tags[tg.Name] = td
		names = append(names, tg.Name)
	}
	sort.Strings(names)
	q, err := Parse(c.Q)
	if err != nil {
		fmt.Fprintf(w, "INLERR\t%d\t%v\n", ci, err)
		return
	}
	for ji, conj := range q.Conditions {
		fmt.Fprintf(w, "INL\t%d\t%d\n", ci, ji)
		fmt.Fprintf(w, "ntags\t%d\n", len(names))
		for _, n := range names {
			td := tags[n]
			def := td.Conditions.InlineTagFilters(tags)
			inv := ConditionsSet{Conditions{}}
			if len(def) != 0 {
				inv = def.invert()
			}
			unc := 0
			if !td.Uncertain.IsZero() {
				unc = 1
			}
			fmt.Fprintf(w, "tag\t%s\t%d\t%d\t%d\n", n, unc, len(def), len(inv))
			for _, d := range def {
				fmt.Fprintf(w, "d\t%s\n", verifC02QConj(d))
			}
			for _, d := range inv {
				fmt.Fprintf(w, "i\t%s\n", verifC02QConj(d))
			}
		}
		fmt.Fprintf(w, "in\t%s\n", verifC02QConj(conj))
		out := conj.inlineTagFilter(tags)
		fmt.Fprintf(w, "out\t%d\n", len(out))
		for _, o := range out {
			fmt.Fprintf(w, "o\t%s\n", verifC02QConj(o))
		}
	}
}
