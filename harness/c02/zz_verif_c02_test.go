package index

// Correspondence harness for C02, injected with `go test -overlay` (add-only).
//
// Reads populations + searches from $VERIF_CASES (JSON), builds the index files with
// the real Writer, runs the real index.SearchStreams and writes
//   $VERIF_OUT    one observation line per search (ids, attributes, more flag)
//   $VERIF_MODEL  the inputs of the Coq model for the same searches: per file the
//                 stream table and the three sorted sections as stored in the file,
//                 per (file, query part) what buildSearchObjects compiled
//                 (possible / lookups / truth table of the pure query filters).
// Only observables are written; nothing here decides pass/fail.

import (
	"bufio"
	"context"
	"encoding/json"
	"fmt"
	"os"
	"path/filepath"
	"sort"
	"strings"
	"testing"
	"time"

	"github.com/gopacket/gopacket"
	"github.com/gopacket/gopacket/reassembly"
	"github.com/spq/pkappa2/internal/index/streams"
	"github.com/spq/pkappa2/internal/query"
	"github.com/spq/pkappa2/internal/tools/bitmask"
	pcapmetadata "github.com/spq/pkappa2/internal/tools/pcapMetadata"
)

type (
	verifC02Stream struct {
		ID    uint64 `json:"id"`
		CH    string `json:"ch"`
		SH    string `json:"sh"`
		CP    uint16 `json:"cp"`
		SP    uint16 `json:"sp"`
		CB    int    `json:"cb"`
		SB    int    `json:"sb"`
		FT    int64  `json:"ft"` // ns after base
		LT    int64  `json:"lt"`
		Proto string `json:"proto"`
	}
	verifC02Tag struct {
		Name      string   `json:"name"`
		Def       string   `json:"def"`
		Matches   []uint64 `json:"matches"`
		Uncertain []uint64 `json:"uncertain"`
	}
	verifC02SearchCase struct {
		Q     string          `json:"q"`
		Sort  [][]interface{} `json:"sort"`
		Limit uint            `json:"limit"`
		Skip  uint            `json:"skip"`
		IDs   *[]uint64       `json:"ids"`
	}
	verifC02Pop struct {
		Name     string               `json:"name"`
		Files    [][]verifC02Stream   `json:"files"`
		Tags     []verifC02Tag        `json:"tags"`
		Searches []verifC02SearchCase `json:"searches"`
		// sleep between parsing the tag definitions and running the searches (known finding tag-inline-reftime)
		TagDelayMS int `json:"tagdelay_ms"`
	}
	verifC02SelOp struct {
		Sqs  []int    `json:"sqs"`
		Forb [][]uint `json:"forb"`
	}
	verifC02SelCase struct {
		Init [][]uint        `json:"init"`
		Ops  []verifC02SelOp `json:"ops"`
	}
	verifC02NumSub struct {
		Factor int      `json:"factor"`
		Vals   []uint64 `json:"vals"`
		Init   []uint   `json:"init"`
	}
	verifC02NumCase struct {
		Kind string           `json:"kind"` // num | time | flag | host
		N    int64            `json:"n"`    // constant of the condition (flag: Value)
		Own  uint64           `json:"own"`  // value of the stream under consideration (factor +1; flag: its flags; host: its stream index)
		Subs []verifC02NumSub `json:"subs"` // host: vals = stream indexes of the sub-query results
		// flag
		Mask uint16 `json:"mask"`
		// host: an index with these (client, server) hosts is built; which side of this stream / of the sub-query stream
		Streams     [][2]string `json:"streams"`
		MyServer    bool        `json:"myserver"`
		OtherServer bool        `json:"otherserver"`
		Invert      bool        `json:"invert"`
		Mask4       string      `json:"mask4"`
		Mask6       string      `json:"mask6"`
	}
	verifC02Cases struct {
		Base int64             `json:"base"` // unix seconds
		Pops []verifC02Pop     `json:"pops"`
		Sel  []verifC02SelCase `json:"sel"`
		Num  []verifC02NumCase `json:"num"`
	}
)

var verifC02SortKeys = map[string]query.SortingKey{
	"id": query.SortingKeyID, "ftime": query.SortingKeyFirstPacketTime, "ltime": query.SortingKeyLastPacketTime,
	"cbytes": query.SortingKeyClientBytes, "sbytes": query.SortingKeyServerBytes,
	"cport": query.SortingKeyClientPort, "sport": query.SortingKeyServerPort,
	"chost": query.SortingKeyClientHost, "shost": query.SortingKeyServerHost,
}

func verifC02MakeStream(base time.Time, v verifC02Stream) (*streams.Stream, error) {
	ca, sa := verifC02ParseIP(v.CH), verifC02ParseIP(v.SH)
	if ca == nil || sa == nil {
		return nil, fmt.Errorf("bad address %q %q", v.CH, v.SH)
	}
	ft := base.Add(time.Duration(v.FT))
	lt := base.Add(time.Duration(v.LT))
	pcapinfo := &pcapmetadata.PcapInfo{
		Filename:           "verif.pcap",
		Filesize:           123,
		PacketTimestampMin: ft,
		PacketTimestampMax: lt,
		ParseTime:          lt.Add(time.Minute),
		PacketCount:        4,
	}
	mid := ft.Add(lt.Sub(ft) / 2)
	packets := []gopacket.CaptureInfo{
		{Timestamp: ft, CaptureLength: 60, Length: 60},
		{Timestamp: mid, CaptureLength: 60, Length: 60},
		{Timestamp: mid, CaptureLength: 60, Length: 60},
		{Timestamp: lt, CaptureLength: 60, Length: 60},
	}
	dirs := []reassembly.TCPFlowDirection{
		reassembly.TCPDirClientToServer, reassembly.TCPDirClientToServer,
		reassembly.TCPDirServerToClient, reassembly.TCPDirClientToServer,
	}
	data := []streams.StreamData(nil)
	if v.CB > 0 {
		data = append(data, streams.StreamData{Bytes: []byte(strings.Repeat("c", v.CB)), PacketIndex: 1})
	}
	if v.SB > 0 {
		data = append(data, streams.StreamData{Bytes: []byte(strings.Repeat("s", v.SB)), PacketIndex: 2})
	}
	for i := range packets {
		pcapmetadata.AddPcapMetadata(&packets[i], pcapinfo, uint64(i))
	}
	fl := streams.StreamFlagsComplete
	if v.Proto == "udp" {
		fl |= streams.StreamFlagsProtocolUDP
	} else {
		fl |= streams.StreamFlagsProtocolTCP
	}
	return &streams.Stream{
		ClientAddr: ca, ServerAddr: sa, ClientPort: v.CP, ServerPort: v.SP,
		Packets: packets, PacketDirections: dirs, Data: data, Flags: fl,
	}, nil
}

func verifC02ParseIP(s string) []byte {
	// hex string of 4 or 16 bytes
	if len(s) != 8 && len(s) != 32 {
		return nil
	}
	out := make([]byte, len(s)/2)
	for i := range out {
		var b byte
		if _, err := fmt.Sscanf(s[2*i:2*i+2], "%02x", &b); err != nil {
			return nil
		}
		out[i] = b
	}
	return out
}

func verifC02Hex(b []byte) string {
	return fmt.Sprintf("%x", b)
}

func TestVerifC02(t *testing.T) {
	in := os.Getenv("VERIF_CASES")
	if in == "" {
		t.Skip("no VERIF_CASES")
	}
	raw, err := os.ReadFile(in)
	if err != nil {
		t.Fatal(err)
	}
	cases := verifC02Cases{}
	if err := json.Unmarshal(raw, &cases); err != nil {
		t.Fatal(err)
	}
	of, err := os.Create(os.Getenv("VERIF_OUT"))
	if err != nil {
		t.Fatal(err)
	}
	defer of.Close()
	w := bufio.NewWriter(of)
	defer w.Flush()
	mw := (*bufio.Writer)(nil)
	if mp := os.Getenv("VERIF_MODEL"); mp != "" {
		mf, err := os.Create(mp)
		if err != nil {
			t.Fatal(err)
		}
		defer mf.Close()
		mw = bufio.NewWriter(mf)
		defer mw.Flush()
	}
	base := time.Unix(cases.Base, 0)
	tmp := t.TempDir()

	for pi, pop := range cases.Pops {
		dir := filepath.Join(tmp, fmt.Sprintf("p%d", pi))
		if err := os.MkdirAll(dir, 0o755); err != nil {
			t.Fatal(err)
		}
		readers := []*Reader(nil)
		fail := ""
		for fi, fstreams := range pop.Files {
			wr, err := NewWriter(filepath.Join(dir, fmt.Sprintf("f%d.idx", fi)))
			if err != nil {
				t.Fatal(err)
			}
			for _, v := range fstreams {
				s, err := verifC02MakeStream(base, v)
				if err != nil {
					fail = err.Error()
					break
				}
				ok, err := wr.AddStream(s, v.ID)
				if err != nil || !ok {
					fail = fmt.Sprintf("AddStream: %v %v", ok, err)
					break
				}
			}
			if fail != "" {
				wr.Close()
				break
			}
			r, err := wr.Finalize()
			if err != nil {
				fail = "Finalize: " + err.Error()
				break
			}
			readers = append(readers, r)
		}
		fmt.Fprintf(w, "P %d %s\n", pi, pop.Name)
		if fail != "" {
			fmt.Fprintf(w, "BUILDFAIL %s\n", fail)
			w.Flush()
			continue
		}
		tagDetails := map[string]query.TagDetails{}
		for _, tg := range pop.Tags {
			q, err := query.Parse(tg.Def)
			if err != nil {
				fail = fmt.Sprintf("tag %s: %v", tg.Name, err)
				break
			}
			td := query.TagDetails{Conditions: q.Conditions}
			for _, id := range tg.Matches {
				td.Matches.Set(uint(id))
			}
			for _, id := range tg.Uncertain {
				td.Uncertain.Set(uint(id))
			}
			tagDetails[tg.Name] = td
		}
		if fail != "" {
			fmt.Fprintf(w, "BUILDFAIL %s\n", fail)
			w.Flush()
			continue
		}
		if pop.TagDelayMS > 0 {
			time.Sleep(time.Duration(pop.TagDelayMS) * time.Millisecond)
		}
		if mw != nil {
			verifC02DumpPop(mw, pi, base, readers)
		}
		for si, sr := range pop.Searches {
			line := ""
			// watchdog: query.Parse is exponential for some shapes (C14's topic); never stall or eat memory
			type outcome struct {
				line string
				p    interface{}
			}
			done := make(chan outcome, 1)
			go func() {
				o := outcome{}
				defer func() {
					o.p = recover()
					done <- o
				}()
				o.line = verifC02Search(pi, si, base, readers, tagDetails, sr, mw)
			}()
			var p interface{}
			select {
			case o := <-done:
				line, p = o.line, o.p
			case <-time.After(20 * time.Second):
				fmt.Fprintf(w, "R %d %d SLOW search or query.Parse did not return within 20s: %s\n", pi, si, sr.Q)
				w.Flush()
				if mw != nil {
					mw.Flush()
				}
				of.Sync()
				os.Exit(3)
			}
			if p != nil {
				line = fmt.Sprintf("R %d %d PANIC %v", pi, si, p)
				if mw != nil {
					fmt.Fprintf(mw, "X %d %d\n", pi, si)
				}
			}
			fmt.Fprintln(w, line)
			w.Flush()
			if mw != nil {
				mw.Flush()
			}
		}
		for _, r := range readers {
			r.Close()
		}
		os.RemoveAll(dir)
	}
	if len(cases.Num) != 0 {
		// any reader will do: the relation filters only look at the previous results
		wr, err := NewWriter(filepath.Join(tmp, "num.idx"))
		if err != nil {
			t.Fatal(err)
		}
		st, _ := verifC02MakeStream(base, verifC02Stream{ID: 0, CH: "0a000001", SH: "0a000002", CP: 1, SP: 2, CB: 1, SB: 1, FT: 0, LT: 1000000000, Proto: "tcp"})
		if ok, err := wr.AddStream(st, 0); err != nil || !ok {
			t.Fatal("AddStream", ok, err)
		}
		r, err := wr.Finalize()
		if err != nil {
			t.Fatal(err)
		}
		for ci, c := range cases.Num {
			p := func() (p interface{}) {
				defer func() { p = recover() }()
				verifC02Num(w, ci, c, r)
				return nil
			}()
			if p != nil {
				fmt.Fprintf(w, "N %d PANIC %v\n", ci, p)
			}
			w.Flush()
		}
		r.Close()
	}
	for ci, c := range cases.Sel {
		p := func() (p interface{}) {
			defer func() { p = recover() }()
			verifC02Sel(w, ci, c)
			return nil
		}()
		if p != nil {
			fmt.Fprintf(w, "L %d PANIC %v\n", ci, p)
		}
		w.Flush()
	}
}

// verifC02Sel runs subQuerySelection.remove sequences and prints, after every remove, whether the selection is
// empty and which combinations of sub-query result positions it still allows.
func verifC02Sel(w *bufio.Writer, ci int, c verifC02SelCase) {
	name := func(i int) string { return fmt.Sprintf("s%d", i) }
	m := map[string]bitmask.ConnectedBitmask{}
	for i, set := range c.Init {
		bm := bitmask.ConnectedBitmask{}
		for _, x := range set {
			bm.Set(x)
		}
		m[name(i)] = bm
	}
	sqs := subQuerySelection{remaining: []map[string]bitmask.ConnectedBitmask{m}}
	fmt.Fprintf(w, "L %d", ci)
	for _, op := range c.Ops {
		names := []string(nil)
		forb := []*bitmask.ConnectedBitmask(nil)
		for i, sq := range op.Sqs {
			names = append(names, name(sq))
			bm := bitmask.ConnectedBitmask{}
			for _, x := range op.Forb[i] {
				bm.Set(x)
			}
			forb = append(forb, &bm)
		}
		sqs.remove(names, forb)
		combos := map[string]struct{}{}
		for _, rem := range sqs.remaining {
			cur := []string{""}
			for i := range c.Init {
				bm := rem[name(i)]
				next := []string(nil)
				for _, pre := range cur {
					for x := uint(0); x < uint(bm.Len()); x++ {
						if bm.IsSet(x) {
							next = append(next, fmt.Sprintf("%s.%d", pre, x))
						}
					}
				}
				cur = next
			}
			for _, x := range cur {
				combos[x] = struct{}{}
			}
		}
		l := []string(nil)
		for x := range combos {
			l = append(l, x)
		}
		sort.Strings(l)
		e := 0
		if sqs.empty() {
			e = 1
		}
		fmt.Fprintf(w, " %d:%s", e, strings.Join(l, ","))
	}
	fmt.Fprintf(w, "\n")
}

// verifC02Num compiles ONE number or time condition that relates the stream under consideration to sub-queries
// (real buildSearchObjects, synthetic previous results) and runs its filter on a selection: the answer and
// the combinations of sub-query result positions that stay allowed are printed.
func verifC02Num(w *bufio.Writer, ci int, c verifC02NumCase, r *Reader) {
	name := func(i int) string { return fmt.Sprintf("s%d", i) }
	prev := map[string]resultData{}
	init := map[string]bitmask.ConnectedBitmask{}
	for i, sub := range c.Subs {
		rd := resultData{matchingQueryPart: make([]bitmask.ConnectedBitmask, 1)}
		for pos, v := range sub.Vals {
			st := &Stream{r: r, index: uint32(pos)}
			if c.Kind == "time" {
				st.FirstPacketTimeNS = v
			} else {
				st.ClientBytes = v
			}
			rd.streams = append(rd.streams, st)
			rd.matchingQueryPart[0].Set(uint(pos))
		}
		prev[name(i)] = rd
		bm := bitmask.ConnectedBitmask{}
		for _, x := range sub.Init {
			bm.Set(x)
		}
		init[name(i)] = bm
	}
	conds := query.Conditions{}
	own := &stream{}
	if c.Kind == "host" {
		// a real index with the wanted hosts; the sub-query results and this stream are streams of it
		wr, err := NewWriter(filepath.Join(os.TempDir(), fmt.Sprintf("verifc02host_%d_%d.idx", os.Getpid(), ci)))
		if err != nil {
			panic(err)
		}
		for i, hs := range c.Streams {
			st, err := verifC02MakeStream(time.Unix(1577880000, 0), verifC02Stream{ID: uint64(i), CH: hs[0], SH: hs[1], CP: 1, SP: 2, CB: 1, SB: 1, FT: 0, LT: 1000000000, Proto: "tcp"})
			if err != nil {
				panic(err)
			}
			if ok, err := wr.AddStream(st, uint64(i)); err != nil || !ok {
				panic(fmt.Sprintf("AddStream %v %v", ok, err))
			}
		}
		hr, err := wr.Finalize()
		if err != nil {
			panic(err)
		}
		defer func() {
			hr.Close()
			os.Remove(hr.Filename())
		}()
		r = hr
		for i, sub := range c.Subs {
			rd := resultData{matchingQueryPart: make([]bitmask.ConnectedBitmask, 1)}
			for pos, v := range sub.Vals {
				ss, err := r.streamByIndex(uint32(v))
				if err != nil {
					panic(err)
				}
				st, err := ss.wrap(r, uint32(v))
				if err != nil {
					panic(err)
				}
				rd.streams = append(rd.streams, st)
				rd.matchingQueryPart[0].Set(uint(pos))
			}
			prev[name(i)] = rd
		}
		o, err := r.streamByIndex(uint32(c.Own))
		if err != nil {
			panic(err)
		}
		own = o
		side := func(server bool) query.HostConditionSourceType {
			if server {
				return query.HostConditionSourceTypeServer
			}
			return query.HostConditionSourceTypeClient
		}
		conds = append(conds, &query.HostCondition{
			HostConditionSources: []query.HostConditionSource{{Type: side(c.MyServer), SubQuery: ""}, {Type: side(c.OtherServer), SubQuery: name(0)}},
			Mask4:                verifC02ParseIP(c.Mask4), Mask6: verifC02ParseIP(c.Mask6), Invert: c.Invert,
		})
	} else if c.Kind == "flag" {
		for i, sub := range c.Subs {
			rd := prev[name(i)]
			for pos, v := range sub.Vals {
				rd.streams[pos].Flags = uint16(v)
			}
		}
		conds = append(conds, &query.FlagCondition{SubQueries: []string{"", name(0)}, Value: uint16(c.N), Mask: c.Mask})
		own.Flags = uint16(c.Own)
	} else if c.Kind == "time" {
		tc := &query.TimeCondition{Duration: time.Duration(c.N)}
		tc.Summands = append(tc.Summands, query.TimeConditionSummand{SubQuery: "", FTimeFactor: 1})
		for i, sub := range c.Subs {
			tc.Summands = append(tc.Summands, query.TimeConditionSummand{SubQuery: name(i), FTimeFactor: sub.Factor})
		}
		conds = append(conds, tc)
		own.FirstPacketTimeNS = c.Own
		own.LastPacketTimeNS = c.Own
	} else {
		nc := &query.NumberCondition{Number: int(c.N)}
		nc.Summands = append(nc.Summands, query.NumberConditionSummand{SubQuery: "", Type: query.NumberConditionSummandTypeClientBytes, Factor: 1})
		for i, sub := range c.Subs {
			nc.Summands = append(nc.Summands, query.NumberConditionSummand{SubQuery: name(i), Type: query.NumberConditionSummandTypeClientBytes, Factor: sub.Factor})
		}
		conds = append(conds, nc)
		own.ClientBytes = c.Own
	}
	qp, err := r.buildSearchObjects("", 0, prev, r.ReferenceTime, &conds, nil, nil, nil, map[string]ConverterAccess{})
	if err != nil || !qp.possible || len(qp.filters) != 1 {
		fmt.Fprintf(w, "N %d BUILD %v possible=%v filters=%d\n", ci, err, qp.possible, len(qp.filters))
		return
	}
	sc := &searchContext{allowedSubQueries: subQuerySelection{remaining: []map[string]bitmask.ConnectedBitmask{init}}}
	ok, err := qp.filters[0](sc, own)
	if err != nil {
		fmt.Fprintf(w, "N %d ERR %v\n", ci, err)
		return
	}
	if !ok {
		fmt.Fprintf(w, "N %d 0:\n", ci)
		return
	}
	combos := map[string]struct{}{}
	for _, rem := range sc.allowedSubQueries.remaining {
		cur := []string{""}
		for i := range c.Subs {
			bm := rem[name(i)]
			next := []string(nil)
			for _, pre := range cur {
				for x := uint(0); x < uint(bm.Len()); x++ {
					if bm.IsSet(x) {
						next = append(next, fmt.Sprintf("%s.%d", pre, x))
					}
				}
			}
			cur = next
		}
		for _, x := range cur {
			combos[x] = struct{}{}
		}
	}
	l := []string(nil)
	for x := range combos {
		l = append(l, x)
	}
	sort.Strings(l)
	fmt.Fprintf(w, "N %d 1:%s\n", ci, strings.Join(l, ","))
}

func verifC02DumpPop(mw *bufio.Writer, pi int, base time.Time, readers []*Reader) {
	fmt.Fprintf(mw, "P %d %d\n", pi, len(readers))
	for _, r := range readers {
		n := r.StreamCount()
		fmt.Fprintf(mw, "file %d\n", n)
		for i := 0; i < n; i++ {
			s, err := r.streamByIndex(uint32(i))
			if err != nil {
				panic(err)
			}
			ss, err := s.wrap(r, uint32(i))
			if err != nil {
				panic(err)
			}
			hg := &r.hostGroups[s.HostGroup]
			fmt.Fprintf(mw, "s %d %d %d %d %d %d %d %s %s\n", s.StreamID,
				ss.FirstPacket().Sub(base).Nanoseconds(), ss.LastPacket().Sub(base).Nanoseconds(),
				s.ClientBytes, s.ServerBytes, s.ClientPort, s.ServerPort,
				verifC02Hex(hg.get(s.ClientHost)), verifC02Hex(hg.get(s.ServerHost)))
		}
		for _, sec := range []section{sectionStreamsByStreamID, sectionStreamsByFirstPacketTime, sectionStreamsByLastPacketTime} {
			res := make([]uint32, n)
			if err := r.readObjects(sec, res); err != nil {
				panic(err)
			}
			fmt.Fprintf(mw, "sec")
			for _, x := range res {
				fmt.Fprintf(mw, " %d", x)
			}
			fmt.Fprintf(mw, "\n")
		}
	}
}

func verifC02Search(pi, si int, base time.Time, readers []*Reader, tagDetails map[string]query.TagDetails, sr verifC02SearchCase, mw *bufio.Writer) string {
	q, err := query.Parse(sr.Q)
	if err != nil {
		if mw != nil {
			fmt.Fprintf(mw, "X %d %d\n", pi, si)
		}
		return fmt.Sprintf("R %d %d PARSEERR %v", pi, si, err)
	}
	sorting := []query.Sorting(nil)
	for _, s := range sr.Sort {
		sorting = append(sorting, query.Sorting{Key: verifC02SortKeys[s[0].(string)], Dir: query.SortingDir(s[1].(float64) != 0)})
	}
	limitIDs := (*bitmask.LongBitmask)(nil)
	if sr.IDs != nil {
		limitIDs = &bitmask.LongBitmask{}
		for _, id := range *sr.IDs {
			limitIDs.Set(uint(id))
		}
	}
	converters := map[string]ConverterAccess{}
	if mw != nil {
		verifC02DumpSearch(mw, pi, si, readers, tagDetails, sr, q, converters)
	}
	res, more, _, err := SearchStreams(context.Background(), readers, limitIDs, q.ReferenceTime, q.Conditions, nil, sorting, sr.Limit, sr.Skip, tagDetails, converters, false)
	if err != nil {
		return fmt.Sprintf("R %d %d ERR %v", pi, si, err)
	}
	// excluded form: after normalisation a sub-query occurs that no relation connects to the main query; the
	// engine does not evaluate it (it is not in SubQueries()), the query behaves as if it were not there
	status := "OK"
	if len(q.Conditions) != 0 {
		qs := q.Conditions.InlineTagFilters(tagDetails)
		if len(qs) != 0 {
			evaluated := map[string]bool{}
			for _, sq := range qs.SubQueries() {
				evaluated[sq] = true
			}
			for _, name := range verifC02SubQueryNames(qs) {
				if !evaluated[name] {
					status = "EXCLUDED"
				}
			}
		}
	}
	sb := strings.Builder{}
	fmt.Fprintf(&sb, "R %d %d %s more=%v n=%d |", pi, si, status, more, len(res))
	for _, s := range res {
		fidx := -1
		for i, r := range readers {
			if r == s.r {
				fidx = i
			}
		}
		hg := &s.r.hostGroups[s.HostGroup]
		proto := "tcp"
		if s.Flags&flagsStreamProtocol == flagsStreamProtocolUDP {
			proto = "udp"
		}
		fmt.Fprintf(&sb, " %d,%d,%d,%d,%d,%d,%d,%d,%d,%s,%s,%s", s.StreamID, fidx, s.index,
			s.FirstPacket().Sub(base).Nanoseconds(), s.LastPacket().Sub(base).Nanoseconds(),
			s.ClientBytes, s.ServerBytes, s.ClientPort, s.ServerPort,
			verifC02Hex(hg.get(s.ClientHost)), verifC02Hex(hg.get(s.ServerHost)), proto)
	}
	return sb.String()
}

func verifC02SubQueryNames(qs query.ConditionsSet) []string {
	seen := map[string]bool{}
	for _, cs := range qs {
		for _, c := range cs {
			switch cc := c.(type) {
			case *query.TagCondition:
				seen[cc.SubQuery] = true
			case *query.FlagCondition:
				for _, sq := range cc.SubQueries {
					seen[sq] = true
				}
			case *query.HostCondition:
				for _, h := range cc.HostConditionSources {
					seen[h.SubQuery] = true
				}
			case *query.NumberCondition:
				for _, h := range cc.Summands {
					seen[h.SubQuery] = true
				}
			case *query.TimeCondition:
				for _, h := range cc.Summands {
					seen[h.SubQuery] = true
				}
			case *query.DataCondition:
				for _, h := range cc.Elements {
					seen[h.SubQuery] = true
				}
			}
		}
	}
	out := []string(nil)
	for k := range seen {
		if k != "" {
			out = append(out, k)
		}
	}
	sort.Strings(out)
	return out
}

// verifC02DumpSearch writes what the search engine compiles for this query on every file:
// the model consumes it as the given "does stream s satisfy part p" data.
func verifC02DumpSearch(mw *bufio.Writer, pi, si int, readers []*Reader, tagDetails map[string]query.TagDetails, sr verifC02SearchCase, q *query.Query, converters map[string]ConverterAccess) {
	qs := q.Conditions
	if len(qs) != 0 {
		qs = qs.InlineTagFilters(tagDetails)
	}
	// Sub-queries are evaluated first, exactly as the loop in SearchStreams does it (no sorting, no limit, no
	// id restriction); their results are the previousResults of the main query.  The model is fed with the
	// parts of every (sub-)query compiled against the results of the sub-queries evaluated before it.
	allResults := map[string]resultData{}
	subEmpty := false
	subDump := strings.Builder{}
	nsubs := 0
	if len(qs) != 0 {
		for _, subQuery := range qs.SubQueries() {
			if subQuery == "" {
				continue
			}
			results := resultData{matchingQueryPart: make([]bitmask.ConnectedBitmask, len(qs))}
			for idxIdx := len(readers) - 1; idxIdx >= 0; idxIdx-- {
				idx := readers[idxIdx]
				queryParts := make([]queryPart, 0, len(qs))
				for qID := range qs {
					qp, err := idx.buildSearchObjects(subQuery, qID, allResults, q.ReferenceTime, &qs[qID], readers[idxIdx+1:], nil, tagDetails, converters)
					if err != nil {
						fmt.Fprintf(mw, "X %d %d\n", pi, si)
						return
					}
					queryParts = append(queryParts, qp)
				}
				if err := idx.searchStreams(context.Background(), &results, allResults, queryParts, nil, nil, 0, nil); err != nil {
					fmt.Fprintf(mw, "X %d %d\n", pi, si)
					return
				}
			}
			nsubs++
			fmt.Fprintf(&subDump, "sub %s %d", subQuery, len(results.streams))
			for _, st := range results.streams {
				fidx := -1
				for i, r := range readers {
					if r == st.r {
						fidx = i
					}
				}
				fmt.Fprintf(&subDump, " %d.%d", fidx, st.index)
			}
			fmt.Fprintf(&subDump, "\n")
			for qID := range qs {
				fmt.Fprintf(&subDump, "mp")
				for pos := range results.streams {
					if results.matchingQueryPart[qID].IsSet(uint(pos)) {
						fmt.Fprintf(&subDump, " %d", pos)
					}
				}
				fmt.Fprintf(&subDump, "\n")
			}
			verifC02DumpParts(&subDump, subQuery, readers, qs, allResults, q, tagDetails, converters, false)
			if len(results.streams) == 0 {
				subEmpty = true
				break
			}
			allResults[subQuery] = results
		}
	}
	fmt.Fprintf(mw, "Q %d %d\n", pi, si)
	fmt.Fprintf(mw, "sort %d", len(sr.Sort))
	for _, s := range sr.Sort {
		d := 0
		if s[1].(float64) != 0 {
			d = 1
		}
		fmt.Fprintf(mw, " %s %d", s[0].(string), d)
	}
	fmt.Fprintf(mw, "\nlimit %d %d\n", sr.Limit, sr.Skip)
	if sr.IDs == nil {
		fmt.Fprintf(mw, "ids 0\n")
	} else {
		ids := append([]uint64(nil), (*sr.IDs)...)
		sort.Slice(ids, func(i, j int) bool { return ids[i] < ids[j] })
		fmt.Fprintf(mw, "ids 1 %d", len(ids))
		for _, id := range ids {
			fmt.Fprintf(mw, " %d", id)
		}
		fmt.Fprintf(mw, "\n")
	}
	fmt.Fprintf(mw, "parts %d\n", len(qs))
	main := strings.Builder{}
	verifC02DumpParts(&main, "", readers, qs, allResults, q, tagDetails, converters, subEmpty)
	mw.WriteString(main.String())
	fmt.Fprintf(mw, "subs %d\n", nsubs)
	mw.WriteString(subDump.String())
}

// verifC02DumpParts writes, for every file and every part, what buildSearchObjects compiles for (sub-)query
// subQuery given the results of the sub-queries evaluated so far: possible, lookups, and the truth table of the
// filters, each stream evaluated with a fresh searchContext exactly as filterAndAddToResult creates it.
func verifC02DumpParts(w *strings.Builder, subQuery string, readers []*Reader, qs query.ConditionsSet, allResults map[string]resultData, q *query.Query, tagDetails map[string]query.TagDetails, converters map[string]ConverterAccess, dead bool) {
	for _, r := range readers {
		n := r.StreamCount()
		for qID := range qs {
			qp, err := r.buildSearchObjects(subQuery, qID, allResults, q.ReferenceTime, &qs[qID], nil, nil, tagDetails, converters)
			if err != nil {
				fmt.Fprintf(w, "qperr\n")
				continue
			}
			// a sub-query without results ends the search; a part none of whose sub-query results matched the
			// same part is skipped for every stream
			partDead := dead
			for _, v := range allResults {
				if v.matchingQueryPart[qID].IsZero() {
					partDead = true
				}
			}
			poss := 0
			if qp.possible && !dead {
				poss = 1
			}
			fmt.Fprintf(w, "qp %d %d\n", poss, len(qp.lookups))
			for _, l := range qp.lookups {
				idxs, err := l()
				if err != nil {
					panic(err)
				}
				idxs = append([]uint32(nil), idxs...)
				sort.Slice(idxs, func(i, j int) bool { return idxs[i] < idxs[j] })
				fmt.Fprintf(w, "l %d", len(idxs))
				for _, x := range idxs {
					fmt.Fprintf(w, " %d", x)
				}
				fmt.Fprintf(w, "\n")
			}
			fmt.Fprintf(w, "flt")
			for i := 0; i < n; i++ {
				s, err := r.streamByIndex(uint32(i))
				if err != nil {
					panic(err)
				}
				ok := !partDead
				tmp := map[string]bitmask.ConnectedBitmask{}
				for k, v := range allResults {
					tmp[k] = v.matchingQueryPart[qID].Copy()
				}
				sc := &searchContext{allowedSubQueries: subQuerySelection{remaining: []map[string]bitmask.ConnectedBitmask{tmp}}}
				for _, f := range qp.filters {
					if !ok {
						break
					}
					m, err := f(sc, s)
					if err != nil {
						panic(err)
					}
					if !m {
						ok = false
						break
					}
				}
				if ok {
					fmt.Fprintf(w, " 1")
				} else {
					fmt.Fprintf(w, " 0")
				}
			}
			fmt.Fprintf(w, "\n")
		}
	}
}
