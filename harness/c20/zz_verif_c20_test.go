package manager

// API stress scenario for C20, injected with `go test -race -overlay` (add-only).
//
// W worker goroutines issue random API calls (imports, tag add/update/delete with marks,
// queries and converters, views with searches and stream data, listeners, status calls,
// pcap-over-ip endpoints fed by a local TCP server, webhooks, converter reset/stderr) against one
// Manager while its background jobs run.  The verif gates count how many instances of each
// background job are active: the table of translate/c20 assumes at most one (serial jobs).
// The race detector's reports on stderr are parsed by checks/c20.py.
import (
	"context"
	"fmt"
	"io"
	"log"
	"math/rand"
	"net"
	"net/http"
	"net/http/httptest"
	"os"
	"path/filepath"
	"runtime"
	"strconv"
	"strings"
	"sync"
	"sync/atomic"
	"testing"
	"time"

	"github.com/gopacket/gopacket"
	"github.com/gopacket/gopacket/layers"
	"github.com/gopacket/gopacket/pcapgo"
	"github.com/spq/pkappa2/internal/query"
)

const verifC20Converter = `#!/usr/bin/env python3
import sys, json, base64
while True:
    meta = sys.stdin.readline()
    if not meta:
        break
    chunks = []
    while True:
        line = sys.stdin.readline().strip()
        if not line:
            break
        chunks.append(json.loads(line))
    for c in chunks:
        c["Content"] = base64.b64encode(base64.b64decode(c["Content"]).upper()).decode()
        print(json.dumps(c), flush=True)
    print("", flush=True)
    print(meta.strip(), flush=True)
`

func verifC20UDP(cport, sport int, ts time.Time, payload string) (gopacket.CaptureInfo, []byte) {
	ip := layers.IPv4{Version: 4, TTL: 64, SrcIP: net.IPv4(10, 0, 0, byte(1+cport%3)), DstIP: net.IPv4(10, 0, 1, 1), Protocol: layers.IPProtocolUDP}
	udp := layers.UDP{SrcPort: layers.UDPPort(cport), DstPort: layers.UDPPort(sport)}
	_ = udp.SetNetworkLayerForChecksum(&ip)
	buf := gopacket.NewSerializeBuffer()
	if err := gopacket.SerializeLayers(buf, gopacket.SerializeOptions{ComputeChecksums: true, FixLengths: true}, &ip, &udp, gopacket.Payload([]byte(payload))); err != nil {
		panic(err)
	}
	d := buf.Bytes()
	return gopacket.CaptureInfo{Timestamp: ts, CaptureLength: len(d), Length: len(d)}, d
}

func verifC20WritePcap(dir, name string, rng *rand.Rand, base time.Time) error {
	f, err := os.Create(filepath.Join(dir, name))
	if err != nil {
		return err
	}
	defer f.Close()
	w := pcapgo.NewWriter(f)
	if err := w.WriteFileHeader(0xffff, layers.LinkTypeIPv4); err != nil {
		return err
	}
	n := 1 + rng.Intn(5)
	for i := 0; i < n; i++ {
		ci, d := verifC20UDP(1000+rng.Intn(6), []int{4321, 80, 53}[rng.Intn(3)], base.Add(time.Duration(rng.Intn(600))*time.Second), []string{"foo", "bar", "foo bar", "qux"}[rng.Intn(4)])
		if err := w.WritePacket(ci, d); err != nil {
			return err
		}
	}
	return nil
}

// Second conversion pass over streams that are cached already: import 12 streams (ids in one
// 64-bit word), attach the working converter to a tag that matches them, wait for the conversion,
// import 12 more: the tag is evaluated again and ALL its matches are queued for the converter, the
// first 12 are in its cache.  All waits are bounded and never fatal.
func verifC20Reconvert(mgr *Manager, pcapDir string, base time.Time) {
	events, closeEvents := mgr.Listen()
	defer closeEvents()
	waitFor := func(eventType string, limit time.Duration) bool {
		watchdog := time.After(limit)
		for {
			select {
			case e, ok := <-events:
				if !ok {
					return false
				}
				if e.Type == eventType {
					return true
				}
			case <-watchdog:
				return false
			}
		}
	}
	importStreams := func(name string, first int) bool {
		f, err := os.Create(filepath.Join(pcapDir, name))
		if err != nil {
			return false
		}
		w := pcapgo.NewWriter(f)
		_ = w.WriteFileHeader(0xffff, layers.LinkTypeIPv4)
		for i := first; i < first+12; i++ {
			ci, d := verifC20UDP(3000+i, 4321, base.Add(time.Duration(i)*time.Second), fmt.Sprintf("payload %d foo", i))
			_ = w.WritePacket(ci, d)
		}
		f.Close()
		mgr.ImportPcaps([]string{name})
		return waitFor("pcapProcessed", 30*time.Second)
	}
	if !importStreams("verif-pro-1.pcap", 0) {
		return
	}
	if mgr.AddTag("tag/conv", "#123456", "sport:4321") != nil {
		return
	}
	if mgr.UpdateTag("tag/conv", UpdateTagOperationSetConverter([]string{"conv_ok"})) != nil {
		return
	}
	if !waitFor("converterCompleted", 60*time.Second) {
		return
	}
	if !importStreams("verif-pro-2.pcap", 12) {
		return
	}
	waitFor("converterCompleted", 60*time.Second)
}

func TestVerifC20(t *testing.T) {
	if os.Getenv("VERIF_C20") == "" {
		t.Skip("no VERIF_C20")
	}
	log.SetOutput(io.Discard)
	atoi := func(k string, d int) int {
		if v, err := strconv.Atoi(os.Getenv(k)); err == nil {
			return v
		}
		return d
	}
	seed := int64(atoi("VERIF_SEED", 1))
	workers, ops := atoi("VERIF_C20_WORKERS", 6), atoi("VERIF_C20_OPS", 60)
	rounds := atoi("VERIF_C20_ROUNDS", 1)
	for round := 0; round < rounds; round++ {
		verifC20Round(t, seed+int64(round)*7919, workers, ops)
	}
}

// serial-job assumption of the access table: instances of one background job never overlap
var verifC20Active, verifC20Max [4]int32

// installed before any test starts a manager (background jobs of earlier tests outlive them)
func init() {
	if os.Getenv("VERIF_C20") != "" {
		VerifGate = verifC20Gate
	}
}

func verifC20Gate(point string) {
	job, ev, _ := strings.Cut(point, ".")
	k, ok := map[string]int{"import": 0, "merge": 1, "tag": 2, "convert": 3}[job]
	if !ok {
		return
	}
	if ev == "start" {
		n := atomic.AddInt32(&verifC20Active[k], 1)
		for {
			m := atomic.LoadInt32(&verifC20Max[k])
			if n <= m || atomic.CompareAndSwapInt32(&verifC20Max[k], m, n) {
				break
			}
		}
	} else if ev == "done" {
		atomic.AddInt32(&verifC20Active[k], -1)
	}
}

func verifC20Round(t *testing.T, seed int64, workers, ops int) {
	atoi := func(k string, d int) int {
		if v, err := strconv.Atoi(os.Getenv(k)); err == nil {
			return v
		}
		return d
	}
	base := t.TempDir()
	d := map[string]string{}
	for _, n := range []string{"pcap", "index", "snapshot", "state", "converter", "watch"} {
		d[n] = filepath.Join(base, n) + "/"
		if err := os.Mkdir(d[n], 0755); err != nil {
			t.Fatal(err)
		}
	}
	_ = os.WriteFile(filepath.Join(d["converter"], "conv_ok"), []byte(verifC20Converter), 0775)
	_ = os.WriteFile(filepath.Join(d["converter"], "conv_bad"), []byte("#!/bin/sh\necho oops >&2\nexit 3\n"), 0775)

	// leftovers of the previous round (Close does not wait for background jobs)
	for i := 0; i < 2000; i++ {
		busy := false
		for k := range verifC20Active {
			busy = busy || atomic.LoadInt32(&verifC20Active[k]) != 0
		}
		if !busy {
			break
		}
		time.Sleep(5 * time.Millisecond)
	}
	for k := range verifC20Max {
		atomic.StoreInt32(&verifC20Max[k], 0)
	}

	mgr, err := New(d["pcap"], d["index"], d["snapshot"], d["state"], d["converter"], d["watch"])
	if err != nil {
		t.Fatal(err)
	}

	verifC20Reconvert(mgr, d["pcap"], time.Date(2020, 1, 1, 9, 0, 0, 0, time.UTC))

	// pcap-over-ip source
	ln, err := net.Listen("tcp", "127.0.0.1:0")
	if err != nil {
		t.Fatal(err)
	}
	stop := make(chan struct{})
	var srvWG sync.WaitGroup
	srvWG.Add(1)
	go func() {
		defer srvWG.Done()
		for {
			c, err := ln.Accept()
			if err != nil {
				return
			}
			srvWG.Add(1)
			go func(c net.Conn) {
				defer srvWG.Done()
				defer c.Close()
				w := pcapgo.NewWriter(c)
				if w.WriteFileHeader(0xffff, layers.LinkTypeIPv4) != nil {
					return
				}
				for i := 0; i < 40; i++ {
					select {
					case <-stop:
						return
					case <-time.After(3 * time.Millisecond):
					}
					ci, data := verifC20UDP(2000+i%4, 4321, time.Now(), "poi foo")
					if w.WritePacket(ci, data) != nil {
						return
					}
				}
			}(c)
		}
	}()
	hook := httptest.NewServer(http.HandlerFunc(func(w http.ResponseWriter, r *http.Request) { _, _ = io.Copy(io.Discard, r.Body) }))
	defer hook.Close()

	tagNames := []string{"tag/a", "tag/b", "tag/c", "service/s", "mark/m", "mark/n"}
	queries := []string{"cport:1001", "sport:4321", "cdata:foo", "sdata:bar", "tag:tag/a", "-tag:tag/b cport:1000:1003", "service:s", "mark:m", "data:qux", "cport:1002 or sport:80"}
	t0 := time.Date(2020, 1, 1, 12, 0, 0, 0, time.UTC)
	var wg sync.WaitGroup
	var pcapN int32
	for w := 0; w < workers; w++ {
		wg.Add(1)
		go func(w int) {
			defer wg.Done()
			rng := rand.New(rand.NewSource(seed*1000 + int64(w)))
			for i := 0; i < ops; i++ {
				func() {
					defer func() {
						if r := recover(); r != nil {
							t.Errorf("PANIC worker %d op %d: %v", w, i, r)
						}
					}()
					name := tagNames[rng.Intn(len(tagNames))]
					switch op := rng.Intn(20); op {
					case 0, 1, 2:
						fn := fmt.Sprintf("verif-%d.pcap", atomic.AddInt32(&pcapN, 1))
						if err := verifC20WritePcap(d["pcap"], fn, rng, t0.Add(time.Duration(rng.Intn(3))*time.Hour)); err == nil {
							mgr.ImportPcaps([]string{fn})
						}
					case 3, 4:
						q := queries[rng.Intn(len(queries))]
						if strings.HasPrefix(name, "mark/") {
							q = "id:" + strconv.Itoa(rng.Intn(5))
						}
						_ = mgr.AddTag(name, "#ff0000", q)
					case 5:
						_ = mgr.DelTag(name)
					case 6:
						ids := []uint64{uint64(rng.Intn(8)), uint64(rng.Intn(8))}
						if rng.Intn(2) == 0 {
							_ = mgr.UpdateTag(name, UpdateTagOperationMarkAddStream(ids))
						} else {
							_ = mgr.UpdateTag(name, UpdateTagOperationMarkDelStream(ids))
						}
					case 7:
						switch rng.Intn(3) {
						case 0:
							_ = mgr.UpdateTag(name, UpdateTagOperationUpdateColor("#00ff00"))
						case 1:
							_ = mgr.UpdateTag(name, UpdateTagOperationUpdateQuery(queries[rng.Intn(len(queries))]))
						default:
							_ = mgr.UpdateTag(name, UpdateTagOperationSetConverter([][]string{{"conv_ok"}, {"conv_bad"}, {"conv_ok", "conv_bad"}, nil}[rng.Intn(4)]))
						}
					case 8:
						_ = mgr.ListTags()
						_ = mgr.Status()
						_ = mgr.KnownPcaps()
					case 9:
						for _, s := range mgr.ListConverters() {
							for _, p := range s.Processes {
								_, _ = mgr.ConverterStderr(s.Name, p.Pid)
							}
						}
						_ = mgr.ListPcapOverIPEndpoints()
						_ = mgr.ListPcapProcessorWebhooks()
					case 10, 11, 12:
						v := mgr.GetView()
						q, err := query.Parse(queries[rng.Intn(len(queries))])
						if err == nil {
							ctx, cancel := context.WithTimeout(context.Background(), 5*time.Second)
							_, _, _, _ = v.SearchStreams(ctx, q, func(sc StreamContext) error {
								_, _ = sc.Data("")
								if rng.Intn(2) == 0 {
									_, _ = sc.Data("conv_ok")
								}
								_, _ = sc.AllTags()
								_, _ = sc.AllConverters()
								return nil
							}, Limit(10, 0), PrefetchAllTags())
							cancel()
						}
						if sc, err := v.Stream(uint64(rng.Intn(6))); err == nil && sc.Stream() != nil {
							_, _ = sc.Data([]string{"", "conv_ok", "conv_bad"}[rng.Intn(3)])
							_, _ = sc.HasTag(name)
						}
						_, _ = v.ReferenceTime()
						v.Release()
					case 13:
						ch, closer := mgr.Listen()
						timeout := time.After(time.Duration(rng.Intn(30)) * time.Millisecond)
					loop:
						for {
							select {
							case _, ok := <-ch:
								if !ok {
									break loop
								}
							case <-timeout:
								break loop
							}
						}
						closer()
					case 14:
						_ = mgr.AddPcapOverIPEndpoint(ln.Addr().String())
					case 15:
						_ = mgr.DelPcapOverIPEndpoint(ln.Addr().String())
					case 16:
						_ = mgr.SetConfig(Config{AutoInsertLimitToQuery: rng.Intn(2) == 0})
						_ = mgr.Config()
					case 17:
						_ = mgr.ResetConverter([]string{"conv_ok", "conv_bad"}[rng.Intn(2)])
					case 18:
						if rng.Intn(2) == 0 {
							_ = mgr.AddPcapProcessorWebhook(hook.URL)
						} else {
							_ = mgr.DelPcapProcessorWebhook(hook.URL)
						}
					default:
						_ = mgr.Status()
					}
				}()
			}
		}(w)
	}
	// watchdog: a converter that never answers blocks StreamContext.Data forever (no timeout in
	// Converter.Data); that is a liveness matter (C09), not a race: report and stop the process
	// so that the race reports collected so far are kept
	done := make(chan struct{})
	go func() { wg.Wait(); close(done) }()
	limit := time.Duration(atoi("VERIF_C20_ROUND_LIMIT", 90)) * time.Second
	select {
	case <-done:
	case <-time.After(limit):
		fmt.Printf("VERIF-C20 HANG workers did not finish within %v (seed %d)\n", limit, seed)
		buf := make([]byte, 1<<20)
		n := runtime.Stack(buf, true)
		for _, g := range strings.Split(string(buf[:n]), "\n\n") {
			if strings.Contains(g, "verifC20Round.func") && !strings.Contains(g, "runtime.Stack") {
				l := strings.Split(g, "\n")
				if len(l) > 12 {
					l = l[:12]
				}
				fmt.Printf("VERIF-C20 HANG-STACK %s\n", strings.Join(l, " | "))
			}
		}
		os.Stdout.Sync()
		os.Exit(3)
	}
	// quiescence, bounded
	deadline := time.Now().Add(20 * time.Second)
	for time.Now().Before(deadline) {
		s := mgr.Status()
		if s.ImportJobCount == 0 && !s.MergeJobRunning && !s.TaggingJobRunning && !s.ConverterJobRunning {
			break
		}
		time.Sleep(10 * time.Millisecond)
	}
	_ = mgr.DelPcapOverIPEndpoint(ln.Addr().String())
	close(stop)
	ln.Close()
	mgr.Close()
	srvWG.Wait()
	for k, name := range []string{"import", "merge", "tagging", "converter"} {
		fmt.Printf("VERIF-C20 max concurrent %s jobs: %d\n", name, atomic.LoadInt32(&verifC20Max[k]))
		if atomic.LoadInt32(&verifC20Max[k]) > 1 {
			t.Errorf("VERIF-C20 SERIAL-VIOLATED %s jobs ran concurrently (%d)", name, verifC20Max[k])
		}
	}
}
