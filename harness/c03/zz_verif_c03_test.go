package query

// Correspondence harness for C03 (and reused by C14), injected with `go test -overlay`
// (add-only, nothing in /repo is edited).
//
// For every query text of $VERIF_CASES (one JSON string per line) it
//   1. runs the participle grammar and the value sub-parsers and dumps a NEUTRAL surface
//      tree (operators + value-parsed atoms; no ConditionsSet logic involved),
//   2. runs query.Parse and keeps the normalised Query.Conditions,
//   3. builds "critical valuations" from the constants of the surface tree,
//   4. evaluates (a) the normalised conditions with a small direct evaluator, (b) the
//      surface tree with the reference semantics `sem` (success/failure continuation
//      semantics, see notes/C03.md) and (c) the surface tree with the look-ahead reading
//      of NOT (`semL`, DESIGN.md), on every valuation,
//   5. writes one JSON line per case to $VERIF_OUT (flushed per case) and the same case in
//      the token format of the extracted Coq model to $VERIF_MODEL_IN.
//
// A panic is caught per case (`"panic": ...`), a Parse that does not return within
// $VERIF_HANG_MS is reported (`"hang": true`) and the process exits (a hang cannot be
// interrupted in-process; the caller restarts behind that case).

import (
	"bufio"
	"encoding/hex"
	"encoding/json"
	"fmt"
	"math/rand"
	"os"
	"sort"
	"strconv"
	"strings"
	"testing"
	"time"
)

// ---------------------------------------------------------------- neutral surface tree

type vPart struct {
	Neg   bool   `json:"neg"`
	IsVar bool   `json:"isvar"`
	IsAbs bool   `json:"isabs,omitempty"` // times: an absolute time (as opposed to a duration)
	AbsT  []int  `json:"abst,omitempty"`  // spec trees: year, month, day, hour, minute, second of an absolute time (local time zone)
	Num   int64  `json:"num"`             // constant (numbers) or nanoseconds relative to the reference time (times)
	VSub  string `json:"vsub"`            // variable: sub-query name
	VName string `json:"vname"`           // variable: name
}

type vBound struct {
	Parts []vPart `json:"parts"`
}

type vHost struct {
	IsVar bool   `json:"isvar"`
	IP    []byte `json:"ip"`
	VSub  string `json:"vsub"`
	VName string `json:"vname"`
	M4    []byte `json:"m4"`
	M6    []byte `json:"m6"`
}

type vProto struct {
	IsVar bool   `json:"isvar"`
	Tok   int    `json:"tok"`
	VSub  string `json:"vsub"`
}

type vAtom struct {
	Kind   string     `json:"kind"` // tag proto host num time data
	Key    string     `json:"key"`
	Sub    string     `json:"sub"`
	Tags   []string   `json:"tags,omitempty"`
	Protos []vProto   `json:"protos,omitempty"`
	Hosts  []vHost    `json:"hosts,omitempty"`
	Ranges [][]vBound `json:"ranges,omitempty"`
	Conv   string     `json:"conv,omitempty"`
	Regex  string     `json:"regex,omitempty"`
	Elems  []int      `json:"elems,omitempty"` // data: element ids (rank among the distinct elements of the query)
}

type vExpr struct {
	Op   string   `json:"op"` // not and or then skip atom
	Kids []*vExpr `json:"kids,omitempty"`
	Atom *vAtom   `json:"atom,omitempty"`
}

type vElem struct {
	Sub   string
	Flags uint8
	Regex string
	Conv  string
}

type vDumper struct {
	ref   time.Time
	loc   *time.Location
	elems []vElem // distinct data elements, in order of appearance (ranked later)
	unsup string  // reason why this query is outside the evaluated fragment
}

func (d *vDumper) elem(e vElem) int {
	for i, o := range d.elems {
		if o == e {
			return i
		}
	}
	d.elems = append(d.elems, e)
	return len(d.elems) - 1
}

func (d *vDumper) term(t *queryTerm) (*vAtom, error) {
	if t.ConverterName != "" && t.Key != "data" && t.Key != "cdata" && t.Key != "sdata" {
		return nil, fmt.Errorf("converter not allowed")
	}
	a := &vAtom{Key: t.Key, Sub: t.SubQuery}
	switch t.Key {
	case "tag", "service", "mark", "generated":
		a.Kind = "tag"
		for _, v := range strings.Split(t.Value, ",") {
			a.Tags = append(a.Tags, t.Key+"/"+strings.TrimSpace(v))
		}
	case "protocol":
		a.Kind = "proto"
		val, err := valueTokenListParser.ParseString("", t.Value)
		if err != nil {
			return nil, err
		}
		for _, e := range val.List {
			if e.Variable != nil {
				if e.Variable.Name != "protocol" {
					return nil, fmt.Errorf("bad protocol variable")
				}
				a.Protos = append(a.Protos, vProto{IsVar: true, VSub: e.Variable.Sub})
				continue
			}
			f, ok := map[string]int{"tcp": 1, "udp": 2, "sctp": 3, "other": 0}[strings.ToLower(e.Token)]
			if !ok {
				return nil, fmt.Errorf("unknown protocol")
			}
			a.Protos = append(a.Protos, vProto{Tok: f})
		}
	case "chost", "shost", "host":
		a.Kind = "host"
		val, err := valueHostListParser.ParseString("", t.Value)
		if err != nil {
			return nil, err
		}
		for _, e := range val.List {
			h := vHost{}
			if e.Host != nil {
				h.IP = append([]byte(nil), e.Host.Host...)
			} else {
				if e.Variable.Name != "chost" && e.Variable.Name != "shost" {
					return nil, fmt.Errorf("bad host variable")
				}
				h.IsVar, h.VSub, h.VName = true, e.Variable.Sub, e.Variable.Name
			}
			if e.Masks != nil {
				h.M4 = append([]byte(nil), e.Masks.V4Mask...)
				h.M6 = append([]byte(nil), e.Masks.V6Mask...)
			} else {
				h.M4 = []byte{255, 255, 255, 255}
				h.M6 = []byte{255, 255, 255, 255, 255, 255, 255, 255, 255, 255, 255, 255, 255, 255, 255, 255}
			}
			a.Hosts = append(a.Hosts, h)
		}
	case "id", "cport", "sport", "port", "cbytes", "sbytes", "bytes":
		a.Kind = "num"
		val, err := valueNumberRangeListParser.ParseString("", t.Value)
		if err != nil {
			return nil, err
		}
		for _, e := range val.List {
			rg := []vBound{}
			for _, r := range e.Range {
				b := vBound{Parts: []vPart{}}
				for _, p := range r.Parts {
					neg := strings.Count(p.Operators, "-")%2 == 1
					if p.Variable == nil {
						b.Parts = append(b.Parts, vPart{Neg: neg, Num: int64(p.Number)})
						continue
					}
					switch p.Variable.Name {
					case "id", "cport", "sport", "cbytes", "sbytes":
					default:
						return nil, fmt.Errorf("bad number variable")
					}
					b.Parts = append(b.Parts, vPart{Neg: neg, IsVar: true, VSub: p.Variable.Sub, VName: p.Variable.Name})
				}
				rg = append(rg, b)
			}
			a.Ranges = append(a.Ranges, rg)
		}
	case "ftime", "ltime", "time":
		a.Kind = "time"
		val, err := valueTimeRangeListParser.ParseString("", t.Value)
		if err != nil {
			return nil, err
		}
		for _, e := range val.List {
			rg := []vBound{}
			for _, r := range e.Range {
				b := vBound{Parts: []vPart{}}
				for _, p := range r.Parts {
					neg := strings.Count(p.Operators, "-")%2 == 1
					switch {
					case p.Duration != nil:
						b.Parts = append(b.Parts, vPart{Neg: neg, Num: int64(p.Duration.Duration)})
					case p.Time != nil:
						// an absolute time denotes its distance to the reference time of the query
						tt := p.Time.Time
						dd := tt
						if !p.Time.HasDate {
							dd = d.ref
						}
						tt = time.Date(dd.Year(), dd.Month(), dd.Day(), tt.Hour(), tt.Minute(), tt.Second(), tt.Nanosecond(), d.loc)
						b.Parts = append(b.Parts, vPart{Neg: neg, IsAbs: true, Num: int64(tt.Sub(d.ref))})
					case p.Variable != nil:
						if p.Variable.Name != "ftime" && p.Variable.Name != "ltime" {
							return nil, fmt.Errorf("bad time variable")
						}
						b.Parts = append(b.Parts, vPart{Neg: neg, IsVar: true, VSub: p.Variable.Sub, VName: p.Variable.Name})
					}
				}
				rg = append(rg, b)
			}
			a.Ranges = append(a.Ranges, rg)
		}
	case "cdata", "sdata", "data":
		a.Kind = "data"
		val, err := valueStringParser.ParseString("", t.Value)
		if err != nil {
			return nil, err
		}
		content := ""
		for _, e := range val.Elements {
			if e.Variable != nil {
				d.unsup = "data filter with a variable"
				continue
			}
			content += e.Content
		}
		a.Regex, a.Conv = content, t.ConverterName
		flags := map[string][]uint8{"data": {0, 1}, "cdata": {0}, "sdata": {1}}[t.Key]
		for _, f := range flags {
			a.Elems = append(a.Elems, d.elem(vElem{Sub: t.SubQuery, Flags: f, Regex: content, Conv: t.ConverterName}))
		}
	default:
		return nil, fmt.Errorf("unknown key %q", t.Key)
	}
	return a, nil
}

func (d *vDumper) cond(c *queryCondition) (*vExpr, error) {
	switch {
	case c.Negated != nil:
		k, err := d.cond(c.Negated)
		if err != nil {
			return nil, err
		}
		return &vExpr{Op: "not", Kids: []*vExpr{k}}, nil
	case c.Grouped != nil:
		return d.or(c.Grouped)
	case c.Term != nil:
		a, err := d.term(c.Term)
		if err != nil {
			return nil, err
		}
		return &vExpr{Op: "atom", Atom: a}, nil
	case c.SortTerm != nil, c.LimitTerm != nil, c.GroupTerm != nil:
		return &vExpr{Op: "skip"}, nil
	}
	return nil, fmt.Errorf("empty queryCondition")
}

func (d *vDumper) then(c *queryThenCondition) (*vExpr, error) {
	ks := []*vExpr{}
	for _, a := range c.Then {
		k, err := d.cond(a)
		if err != nil {
			return nil, err
		}
		ks = append(ks, k)
	}
	if len(ks) == 1 {
		return ks[0], nil
	}
	return &vExpr{Op: "then", Kids: ks}, nil
}

func (d *vDumper) and(c *queryAndCondition) (*vExpr, error) {
	ks := []*vExpr{}
	for _, a := range c.And {
		k, err := d.then(a)
		if err != nil {
			return nil, err
		}
		ks = append(ks, k)
	}
	if len(ks) == 1 {
		return ks[0], nil
	}
	return &vExpr{Op: "and", Kids: ks}, nil
}

func (d *vDumper) or(c *queryOrCondition) (*vExpr, error) {
	ks := []*vExpr{}
	for _, a := range c.Or {
		k, err := d.and(a)
		if err != nil {
			return nil, err
		}
		ks = append(ks, k)
	}
	if len(ks) == 1 {
		return ks[0], nil
	}
	return &vExpr{Op: "or", Kids: ks}, nil
}

// rank data elements: ids follow the order (sub, direction, regex, converter) so that the
// model can sort by id where the code sorts by these strings.
func (d *vDumper) rank(trees ...*vExpr) {
	idx := make([]int, len(d.elems))
	for i := range idx {
		idx[i] = i
	}
	sort.Slice(idx, func(i, j int) bool {
		a, b := d.elems[idx[i]], d.elems[idx[j]]
		if a.Sub != b.Sub {
			return a.Sub < b.Sub
		}
		if a.Flags != b.Flags {
			return a.Flags < b.Flags
		}
		if a.Regex != b.Regex {
			return a.Regex < b.Regex
		}
		return a.Conv < b.Conv
	})
	newID := make([]int, len(idx))
	ne := make([]vElem, len(idx))
	for r, o := range idx {
		newID[o] = r
		ne[r] = d.elems[o]
	}
	d.elems = ne
	var walk func(e *vExpr)
	walk = func(e *vExpr) {
		if e.Atom != nil {
			for i := range e.Atom.Elems {
				e.Atom.Elems[i] = newID[e.Atom.Elems[i]]
			}
		}
		for _, k := range e.Kids {
			walk(k)
		}
	}
	for _, e := range trees {
		if e != nil {
			walk(e)
		}
	}
}

// The SPEC tree: what the generator meant by the text it wrote, parsed from the text by the checker's own
// value parser (checks/c03.py), never by the code under test. The harness only completes it with what needs
// the run-time context: ids of the payload elements and the distance of absolute times to the reference time.
func (d *vDumper) completeSpec(e *vExpr) {
	if e == nil {
		return
	}
	for _, k := range e.Kids {
		d.completeSpec(k)
	}
	a := e.Atom
	if a == nil {
		return
	}
	switch a.Kind {
	case "time":
		for _, rg := range a.Ranges {
			for _, b := range rg {
				for i := range b.Parts {
					p := &b.Parts[i]
					if p.IsAbs && len(p.AbsT) == 6 {
						tt := time.Date(p.AbsT[0], time.Month(p.AbsT[1]), p.AbsT[2], p.AbsT[3], p.AbsT[4], p.AbsT[5], 0, d.loc)
						p.Num = int64(tt.Sub(d.ref))
					}
				}
			}
		}
	case "data":
		flags := map[string][]uint8{"data": {0, 1}, "cdata": {0}, "sdata": {1}}[a.Key]
		a.Elems = nil
		for _, f := range flags {
			a.Elems = append(a.Elems, d.elem(vElem{Sub: a.Sub, Flags: f, Regex: a.Regex, Conv: a.Conv}))
		}
	}
}

// strip: sort/limit/group terms are directives, not filters. They vanish from the operator
// they stand in; a group or a negation of nothing but directives is itself a directive.
func vStrip(e *vExpr) *vExpr {
	switch e.Op {
	case "skip":
		return nil
	case "atom":
		return e
	case "not":
		k := vStrip(e.Kids[0])
		if k == nil {
			return nil
		}
		return &vExpr{Op: "not", Kids: []*vExpr{k}}
	}
	ks := []*vExpr{}
	for _, k := range e.Kids {
		if s := vStrip(k); s != nil {
			ks = append(ks, s)
		}
	}
	if len(ks) == 0 {
		return nil
	}
	if len(ks) == 1 {
		return ks[0]
	}
	return &vExpr{Op: e.Op, Kids: ks}
}

// ---------------------------------------------------------------- valuations

type vStream struct {
	Num    [5]int64       `json:"num"` // id cbytes sbytes cport sport (NumberConditionSummandType order)
	FTime  int64          `json:"ftime"`
	LTime  int64          `json:"ltime"`
	Flags  uint16         `json:"flags"`
	CHost  []byte         `json:"chost"`
	SHost  []byte         `json:"shost"`
	Tags   map[string]int `json:"tags"`   // tag name -> 1 matching, 2 failing, 4 uncertain+matching, 8 uncertain+failing
	Events []int          `json:"events"` // payload events in conversation order: ids of the data elements that match there
}

type vVal map[string]*vStream // sub-query name -> stream ("" = the stream itself)

var vNumIdx = map[string]int{"id": 0, "cbytes": 1, "sbytes": 2, "cport": 3, "sport": 4}

func (s *vStream) nxt(el int, p int) (int, bool) {
	for q := p; q < len(s.Events); q++ {
		if s.Events[q] == el {
			return q + 1, true
		}
	}
	return 0, false
}

// ---------------------------------------------------------------- reference semantics of atoms

func vMaskedEq(a, b, m4, m6 []byte) bool {
	if len(a) != len(b) {
		return false
	}
	m := m4
	if len(a) == 16 {
		m = m6
	}
	for i := range a {
		if (a[i]^b[i])&m[i] != 0 {
			return false
		}
	}
	return true
}

func vBoundVal(b vBound, v vVal, isTime bool) int64 {
	x := int64(0)
	for _, p := range b.Parts {
		y := p.Num
		if p.IsVar {
			s := v[p.VSub]
			if isTime {
				if p.VName == "ftime" {
					y = s.FTime
				} else {
					y = s.LTime
				}
			} else {
				y = s.Num[vNumIdx[p.VName]]
			}
		}
		if p.Neg {
			x -= y
		} else {
			x += y
		}
	}
	return x
}

// truth of a non-data atom as written
func (a *vAtom) truth(v vVal) bool {
	s := v[a.Sub]
	switch a.Kind {
	case "tag":
		for _, t := range a.Tags {
			if st := s.Tags[t]; st == 1 || st == 4 {
				return true
			}
		}
		return false
	case "proto":
		for _, p := range a.Protos {
			if p.IsVar {
				if s.Flags&3 == v[p.VSub].Flags&3 {
					return true
				}
			} else if int(s.Flags&3) == p.Tok {
				return true
			}
		}
		return false
	case "host":
		mine := [][]byte{}
		if a.Key != "shost" {
			mine = append(mine, s.CHost)
		}
		if a.Key != "chost" {
			mine = append(mine, s.SHost)
		}
		for _, m := range mine {
			for _, h := range a.Hosts {
				o := h.IP
				if h.IsVar {
					if h.VName == "chost" {
						o = v[h.VSub].CHost
					} else {
						o = v[h.VSub].SHost
					}
				}
				if vMaskedEq(m, o, h.M4, h.M6) {
					return true
				}
			}
		}
		return false
	case "num":
		keys := map[string][]string{"port": {"cport", "sport"}, "bytes": {"cbytes", "sbytes"}}[a.Key]
		if keys == nil {
			keys = []string{a.Key}
		}
		for _, k := range keys {
			x := s.Num[vNumIdx[k]]
			for _, rg := range a.Ranges {
				lo, hi := rg[0], rg[len(rg)-1]
				ok := true
				if len(lo.Parts) != 0 && x < vBoundVal(lo, v, false) {
					ok = false
				}
				if len(hi.Parts) != 0 && x > vBoundVal(hi, v, false) {
					ok = false
				}
				if ok {
					return true
				}
			}
		}
		return false
	case "time":
		for _, rg := range a.Ranges {
			lo, hi := rg[0], rg[len(rg)-1]
			xlo, xhi := s.FTime, s.FTime
			switch a.Key {
			case "ltime":
				xlo, xhi = s.LTime, s.LTime
			case "time":
				// the stream's lifetime [ftime, ltime] overlaps [lo, hi]
				xlo, xhi = s.LTime, s.FTime
			}
			ok := true
			if len(lo.Parts) != 0 && xlo < vBoundVal(lo, v, true) {
				ok = false
			}
			if len(hi.Parts) != 0 && xhi > vBoundVal(hi, v, true) {
				ok = false
			}
			if ok {
				return true
			}
		}
		return false
	}
	panic("truth of " + a.Kind)
}

// ---------------------------------------------------------------- reference semantics of expressions
//
// sem (the reference, notes/C03.md). OR (and the two directions of `data:`) is a choice made for the whole
// expression: e holds iff one of its OR-free readings (vExpand) holds. An OR-free expression is run from a
// payload position p and yields the list of positions reached by its payload sequences (empty if it
// involves no payload filter: filters on ports, tags, hosts ... have no position):
//
//	THEN = AND, but the payload filters of the right side start where the sequences of the left side ended
//	       (at the same place as the left side if that has none);
//	NOT  is a test at the current position: it holds iff its operand does not hold from there; it does
//	       not move the position.
func vExpand(e *vExpr) []*vExpr {
	switch e.Op {
	case "atom":
		if e.Atom.Kind == "data" && len(e.Atom.Elems) > 1 {
			res := []*vExpr{}
			for _, el := range e.Atom.Elems {
				a := *e.Atom
				a.Elems = []int{el}
				res = append(res, &vExpr{Op: "atom", Atom: &a})
			}
			return res
		}
		return []*vExpr{e}
	case "not":
		return []*vExpr{e}
	case "or":
		res := []*vExpr{}
		for _, k := range e.Kids {
			res = append(res, vExpand(k)...)
		}
		return res
	}
	alts := [][]*vExpr{{}}
	for _, k := range e.Kids {
		ks := vExpand(k)
		n := [][]*vExpr{}
		for _, A := range alts {
			for _, x := range ks {
				n = append(n, append(append([]*vExpr{}, A...), x))
			}
		}
		alts = n
		vGuard(len(alts))
	}
	res := []*vExpr{}
	for _, A := range alts {
		res = append(res, &vExpr{Op: e.Op, Kids: A})
	}
	return res
}

var vExpandCache = map[*vExpr][]*vExpr{}

func vHolds(e *vExpr, v vVal, p int) bool {
	ex, ok := vExpandCache[e]
	if !ok {
		ex = vExpand(e)
		vExpandCache[e] = ex
	}
	for _, c := range ex {
		if ok, _ := vRunC(c, v, p); ok {
			return true
		}
	}
	return false
}

// run of an OR-free expression: (holds, positions reached)
func vRunC(e *vExpr, v vVal, p int) (bool, []int) {
	switch e.Op {
	case "atom":
		a := e.Atom
		if a.Kind != "data" {
			return a.truth(v), nil
		}
		q, ok := v[a.Sub].nxt(a.Elems[0], p)
		if !ok {
			return false, nil
		}
		return true, []int{q}
	case "not":
		return !vHolds(e.Kids[0], v, p), nil
	case "and":
		ends := []int(nil)
		for _, k := range e.Kids {
			ok, es := vRunC(k, v, p)
			if !ok {
				return false, nil
			}
			ends = append(ends, es...)
		}
		return true, ends
	case "then":
		ok, cur := vRunC(e.Kids[0], v, p)
		if !ok {
			return false, nil
		}
		for _, b := range e.Kids[1:] {
			if len(cur) == 0 {
				ok, cur = vRunC(b, v, p)
				if !ok {
					return false, nil
				}
				continue
			}
			n := []int(nil)
			for _, q := range cur {
				ok, es := vRunC(b, v, q)
				if !ok {
					return false, nil
				}
				if len(es) == 0 {
					es = []int{q}
				}
				n = append(n, es...)
			}
			cur = n
		}
		return true, cur
	}
	panic("op " + e.Op)
}

func vGuard(n int) {
	if n > 200000 {
		panic("reference semantics: too many alternatives")
	}
}

func vSem(e *vExpr, v vVal) bool {
	if e == nil {
		return true
	}
	return vHolds(e, v, 0)
}

// The fragment on which the meaning of NOT inside a sequence is unambiguous (notes/C03.md): where something
// follows in a sequence (non-last operand of THEN, at any depth), (1) a NOT is applied only to operands
// without NOT and THEN, (2) an AND is applied only to operands without THEN; and (3) where the left side of a
// THEN can end at several positions (it contains an AND), the right side negates only ORs of filters.
func vNoThen(e *vExpr) bool {
	if e.Op == "then" {
		return false
	}
	for _, k := range e.Kids {
		if !vNoThen(k) {
			return false
		}
	}
	return true
}

// bound on the number of payload positions a reading of a group ends at
func vDataEnds(e *vExpr) int {
	switch e.Op {
	case "atom":
		if e.Atom.Kind == "data" {
			return 1
		}
		return 0
	case "and", "then":
		n := 0
		for _, k := range e.Kids {
			n += vDataEnds(k)
		}
		return n
	case "or":
		n := 0
		for _, k := range e.Kids {
			if m := vDataEnds(k); m > n {
				n = m
			}
		}
		return n
	}
	return 0
}

// can e end at more than one payload position: an AND (outside NOT) of sides with payload filters
func vMultiEnd(e *vExpr) bool {
	switch e.Op {
	case "and":
		return vDataEnds(e) >= 2
	case "or", "then":
		for _, k := range e.Kids {
			if vMultiEnd(k) {
				return true
			}
		}
	}
	return false
}

func vOrOnly(e *vExpr) bool {
	switch e.Op {
	case "atom", "skip":
		return true
	case "or":
		for _, k := range e.Kids {
			if !vOrOnly(k) {
				return false
			}
		}
		return true
	}
	return false
}

func vNotsOrOnly(e *vExpr) bool {
	if e.Op == "not" {
		return vOrOnly(e.Kids[0])
	}
	for _, k := range e.Kids {
		if !vNotsOrOnly(k) {
			return false
		}
	}
	return true
}

func vSimple(e *vExpr) bool {
	if e.Op == "not" || e.Op == "then" {
		return false
	}
	for _, k := range e.Kids {
		if !vSimple(k) {
			return false
		}
	}
	return true
}

func vWf(e *vExpr, tail bool) bool {
	switch e.Op {
	case "atom":
		return true
	case "not":
		return vWf(e.Kids[0], true) && (tail || vSimple(e.Kids[0]))
	case "then":
		multi := false
		for i, k := range e.Kids {
			if !vWf(k, tail && i == len(e.Kids)-1) {
				return false
			}
			if i > 0 && multi && !vNotsOrOnly(k) {
				return false
			}
			multi = multi || vMultiEnd(k)
		}
		return true
	case "and":
		if !tail {
			for _, k := range e.Kids {
				if !vNoThen(k) {
					return false
				}
			}
		}
	}
	for _, k := range e.Kids {
		if !vWf(k, tail) {
			return false
		}
	}
	return true
}

// semL: the reading of DESIGN.md section C03: NOT is a pure look-ahead, the continuation restarts at the
// position where the negated expression started.
func vLook(e *vExpr, v vVal, p int, k func(int) bool) bool {
	switch e.Op {
	case "atom":
		a := e.Atom
		if a.Kind != "data" {
			return a.truth(v) && k(p)
		}
		for _, el := range a.Elems {
			if q, ok := v[a.Sub].nxt(el, p); ok && k(q) {
				return true
			}
		}
		return false
	case "not":
		return !vLook(e.Kids[0], v, p, func(int) bool { return true }) && k(p)
	case "and":
		for _, c := range e.Kids {
			if !vLook(c, v, p, k) {
				return false
			}
		}
		return true
	case "or":
		for _, c := range e.Kids {
			if vLook(c, v, p, k) {
				return true
			}
		}
		return false
	case "then":
		return vLookThen(e.Kids, v, p, k)
	}
	panic("op " + e.Op)
}

func vLookThen(ks []*vExpr, v vVal, p int, k func(int) bool) bool {
	if len(ks) == 1 {
		return vLook(ks[0], v, p, k)
	}
	return vLook(ks[0], v, p, func(q int) bool { return vLookThen(ks[1:], v, q, k) })
}

func vSemL(e *vExpr, v vVal) bool {
	if e == nil {
		return true
	}
	return vLook(e, v, 0, func(int) bool { return true })
}

// ---------------------------------------------------------------- direct evaluator of the normal form

func vEvalCond(c Condition, v vVal, elemID func(e DataConditionElement) int) bool {
	switch cc := c.(type) {
	case *ImpossibleCondition:
		return false
	case *TagCondition:
		st := v[cc.SubQuery].Tags[cc.TagName]
		return uint8(cc.Accept)&uint8(st) != 0
	case *FlagCondition:
		x := cc.Value
		for _, sq := range cc.SubQueries {
			x ^= v[sq].Flags
		}
		return x&cc.Mask != 0
	case *HostCondition:
		var h []byte
		if len(cc.Host) != 0 {
			h = append([]byte(nil), cc.Host...)
		}
		for _, src := range cc.HostConditionSources {
			o := v[src.SubQuery].CHost
			if src.Type == HostConditionSourceTypeServer {
				o = v[src.SubQuery].SHost
			}
			if h == nil {
				h = append([]byte(nil), o...)
				continue
			}
			if len(h) != len(o) {
				// different address families never compare equal
				return cc.Invert
			}
			for i := range h {
				h[i] ^= o[i]
			}
		}
		m := []byte(cc.Mask4)
		if len(h) == 16 {
			m = cc.Mask6
		}
		zero := true
		for i := range h {
			if h[i]&m[i] != 0 {
				zero = false
			}
		}
		return zero != cc.Invert
	case *NumberCondition:
		x := int64(cc.Number)
		for _, s := range cc.Summands {
			x += int64(s.Factor) * v[s.SubQuery].Num[int(s.Type)]
		}
		return x >= 0
	case *TimeCondition:
		x := int64(cc.Duration)
		for _, s := range cc.Summands {
			x += int64(s.FTimeFactor)*v[s.SubQuery].FTime + int64(s.LTimeFactor)*v[s.SubQuery].LTime
		}
		return x >= 0
	case *DataCondition:
		p := 0
		for i, e := range cc.Elements {
			q, ok := v[e.SubQuery].nxt(elemID(e), p)
			if i == len(cc.Elements)-1 && cc.Inverted {
				return !ok
			}
			if !ok {
				return false
			}
			p = q
		}
		return true
	}
	panic(fmt.Sprintf("condition %T", c))
}

func vEvalSet(cs ConditionsSet, v vVal, elemID func(e DataConditionElement) int) bool {
	for _, conj := range cs {
		ok := true
		for _, c := range conj {
			if !vEvalCond(c, v, elemID) {
				ok = false
				break
			}
		}
		if ok {
			return true
		}
	}
	return false
}

// ---------------------------------------------------------------- critical valuations

type vCrit struct {
	num   [5][]int64
	times []int64
	hosts [][]byte
	tags  []string
	subs  []string
	nelem int
	forms []vForm // bounds with variable arithmetic: sum coef*var + cst compared with 0
	hvars []vHostVar
	order [][]int // payload elements of the data filters in the order of the text (first collect only)
	frozen bool
}

// a host filter that compares the address of its own stream with a host VARIABLE under the masks m4 / m6
type vHostVar struct {
	sub, key    string // stream and attribute(s) of the filter: chost / shost / host
	vsub, vname string // the variable
	m4, m6      []byte
}

// a bound of a number (or time) filter as a linear form over stream attributes
type vFormVar struct {
	sub  string
	time bool // ftime/ltime instead of a number attribute
	idx  int  // number attribute index, or 0 ftime / 1 ltime
}
type vForm struct {
	coef map[vFormVar]int64
	cst  int64
}

func (c *vCrit) collect(e *vExpr) {
	if e == nil {
		return
	}
	for _, k := range e.Kids {
		c.collect(k)
	}
	a := e.Atom
	if a == nil {
		return
	}
	addSub := func(s string) {
		for _, o := range c.subs {
			if o == s {
				return
			}
		}
		c.subs = append(c.subs, s)
	}
	addSub(a.Sub)
	switch a.Kind {
	case "tag":
		c.tags = append(c.tags, a.Tags...)
	case "proto":
		for _, p := range a.Protos {
			if p.IsVar {
				addSub(p.VSub)
			}
		}
	case "host":
		for _, h := range a.Hosts {
			if h.IsVar {
				addSub(h.VSub)
				c.hvars = append(c.hvars, vHostVar{sub: a.Sub, key: a.Key, vsub: h.VSub, vname: h.VName, m4: h.M4, m6: h.M6})
				continue
			}
			c.hosts = append(c.hosts, h.IP)
			m := h.M4
			if len(h.IP) == 16 {
				m = h.M6
			}
			// one bit flipped inside the mask, one outside
			in, out := append([]byte(nil), h.IP...), append([]byte(nil), h.IP...)
			doneIn, doneOut := false, false
			for i := len(m) - 1; i >= 0; i-- {
				for b := uint(0); b < 8; b++ {
					if m[i]&(1<<b) != 0 && !doneIn {
						in[i] ^= 1 << b
						doneIn = true
					}
					if m[i]&(1<<b) == 0 && !doneOut {
						out[i] ^= 1 << b
						doneOut = true
					}
				}
			}
			c.hosts = append(c.hosts, in, out)
		}
	case "num", "time":
		types := []int{}
		switch a.Key {
		case "port":
			types = []int{3, 4}
		case "bytes":
			types = []int{1, 2}
		case "id", "cport", "sport", "cbytes", "sbytes":
			types = []int{vNumIdx[a.Key]}
		}
		// linear forms of the bounds that do arithmetic on variables (for valuations at the rounding gaps)
		owns := []vFormVar{}
		if a.Kind == "num" {
			for _, t := range types {
				owns = append(owns, vFormVar{sub: a.Sub, idx: t})
			}
		} else {
			switch a.Key {
			case "ftime":
				owns = []vFormVar{{sub: a.Sub, time: true, idx: 0}}
			case "ltime":
				owns = []vFormVar{{sub: a.Sub, time: true, idx: 1}}
			default:
				owns = []vFormVar{{sub: a.Sub, time: true, idx: 0}, {sub: a.Sub, time: true, idx: 1}}
			}
		}
		for _, rg := range a.Ranges {
			for _, b := range rg {
				hasVar := false
				for _, p := range b.Parts {
					hasVar = hasVar || p.IsVar
				}
				if !hasVar {
					continue
				}
				for _, own := range owns {
					f := vForm{coef: map[vFormVar]int64{own: -1}}
					for _, p := range b.Parts {
						sg := int64(1)
						if p.Neg {
							sg = -1
						}
						if !p.IsVar {
							f.cst += sg * p.Num
							continue
						}
						fv := vFormVar{sub: p.VSub}
						if a.Kind == "num" {
							fv.idx = vNumIdx[p.VName]
						} else {
							fv.time = true
							if p.VName == "ltime" {
								fv.idx = 1
							}
						}
						f.coef[fv] += sg
					}
					c.forms = append(c.forms, f)
				}
			}
		}
		for _, rg := range a.Ranges {
			for _, b := range rg {
				cst := int64(0)
				tt := append([]int(nil), types...)
				for _, p := range b.Parts {
					if p.IsVar {
						addSub(p.VSub)
						if a.Kind == "num" {
							tt = append(tt, vNumIdx[p.VName])
						}
						continue
					}
					if p.Neg {
						cst -= p.Num
					} else {
						cst += p.Num
					}
				}
				for _, d := range []int64{-1, 0, 1} {
					if a.Kind == "time" {
						c.times = append(c.times, cst+d)
					} else if cst+d >= 0 {
						for _, t := range tt {
							c.num[t] = append(c.num[t], cst+d)
						}
					} else {
						// negative constants: the interesting values are small ones and |c|
						for _, t := range tt {
							c.num[t] = append(c.num[t], -(cst + d))
						}
					}
				}
			}
		}
	case "data":
		for _, el := range a.Elems {
			if el+1 > c.nelem {
				c.nelem = el + 1
			}
		}
		if !c.frozen && len(a.Elems) != 0 {
			c.order = append(c.order, append([]int(nil), a.Elems...))
		}
	}
}

func (c *vCrit) stream(rng *rand.Rand, events []int) *vStream {
	s := &vStream{Tags: map[string]int{}, Events: events}
	small := len(c.forms) != 0 && rng.Intn(2) == 0
	for t := 0; t < 5; t++ {
		cand := append([]int64{0, 1, 2}, c.num[t]...)
		if small {
			// variable arithmetic: small values, so that sums and differences land near the constants
			s.Num[t] = int64(rng.Intn(9))
		} else if rng.Intn(8) == 0 {
			s.Num[t] = int64(rng.Intn(70000))
		} else {
			s.Num[t] = cand[rng.Intn(len(cand))]
		}
	}
	tc := append([]int64{0, -1, 1}, c.times...)
	a, b := tc[rng.Intn(len(tc))], tc[rng.Intn(len(tc))]
	switch rng.Intn(4) {
	case 0:
		b = a
	case 1:
		b = a + int64(rng.Intn(3))
	}
	if a > b {
		a, b = b, a
	}
	s.FTime, s.LTime = a, b
	s.Flags = uint16(rng.Intn(4))
	size := 4
	if len(c.hosts) != 0 {
		size = len(c.hosts[rng.Intn(len(c.hosts))])
		if rng.Intn(6) == 0 {
			size = 20 - size
		}
	}
	pick := func() []byte {
		cand := [][]byte{}
		for _, h := range c.hosts {
			if len(h) == size {
				cand = append(cand, h)
			}
		}
		if len(cand) == 0 || rng.Intn(6) == 0 {
			h := make([]byte, size)
			for i := range h {
				h[i] = byte(rng.Intn(256))
			}
			return h
		}
		return append([]byte(nil), cand[rng.Intn(len(cand))]...)
	}
	s.CHost, s.SHost = pick(), pick()
	if rng.Intn(4) == 0 {
		s.SHost = append([]byte(nil), s.CHost...)
	}
	for _, t := range c.tags {
		s.Tags[t] = 1 << uint(rng.Intn(4))
	}
	return s
}

// adjustHosts makes the two addresses compared by a host-variable filter differ in exactly one bit (or not at
// all): the last / first bit inside the mask of the address family, the first / last bit outside it, a random bit -
// for IPv4 and IPv6 streams alike, and with the masks of the OTHER host-variable filters of the query too
// (two filters on the same pair of variables differ only there).
func (c *vCrit) adjustHosts(rng *rand.Rand, v vVal) {
	if len(c.hvars) == 0 || rng.Intn(4) == 0 {
		return
	}
	hv := c.hvars[rng.Intn(len(c.hvars))]
	t, src := v[hv.sub], v[hv.vsub]
	if t == nil || src == nil {
		return
	}
	size := len(src.CHost)
	if rng.Intn(3) == 0 {
		size = 4
		if rng.Intn(3) != 0 {
			size = 16
		}
	}
	fresh := func() []byte {
		h := make([]byte, size)
		for i := range h {
			h[i] = byte(rng.Intn(256))
		}
		return h
	}
	if len(src.CHost) != size {
		src.CHost, src.SHost = fresh(), fresh()
	}
	if len(t.CHost) != size {
		t.CHost, t.SHost = fresh(), fresh()
	}
	o := src.CHost
	if hv.vname != "chost" {
		o = src.SHost
	}
	mk := c.hvars[rng.Intn(len(c.hvars))]
	if rng.Intn(2) == 0 {
		mk = hv
	}
	m := mk.m4
	if size == 16 {
		m = mk.m6
	}
	in, out := []int{}, []int{}
	for p := 0; p < 8*size && p < 8*len(m); p++ {
		if m[p/8]&(0x80>>uint(p%8)) != 0 {
			in = append(in, p)
		} else {
			out = append(out, p)
		}
	}
	cand := []int{-1, rng.Intn(8 * size)}
	if len(in) != 0 {
		cand = append(cand, in[0], in[len(in)-1], in[len(in)-1], in[rng.Intn(len(in))])
	}
	if len(out) != 0 {
		cand = append(cand, out[0], out[0], out[len(out)-1], out[rng.Intn(len(out))])
	}
	n := append([]byte(nil), o...)
	if p := cand[rng.Intn(len(cand))]; p >= 0 {
		n[p/8] ^= 0x80 >> uint(p%8)
	}
	toClient := hv.key == "chost" || (hv.key == "host" && rng.Intn(2) == 0)
	if t == src && toClient == (hv.vname == "chost") {
		return // the filter compares an address with itself
	}
	if toClient {
		t.CHost = n
	} else {
		t.SHost = n
	}
}

// adjust moves one attribute of a valuation onto (or next to) the exact rational bound of one of the
// linear forms: floor and ceil of the bound and one step beyond, where rounding in a simplifier would show.
func (c *vCrit) adjust(rng *rand.Rand, v vVal) {
	if len(c.forms) == 0 || rng.Intn(4) == 0 {
		return
	}
	f := c.forms[rng.Intn(len(c.forms))]
	vars := []vFormVar{}
	for fv, co := range f.coef {
		if co != 0 && v[fv.sub] != nil {
			vars = append(vars, fv)
		}
	}
	if len(vars) == 0 {
		return
	}
	sort.Slice(vars, func(i, j int) bool {
		a, b := vars[i], vars[j]
		if a.sub != b.sub {
			return a.sub < b.sub
		}
		if a.time != b.time {
			return !a.time
		}
		return a.idx < b.idx
	})
	get := func(fv vFormVar) int64 {
		s := v[fv.sub]
		if fv.time {
			if fv.idx == 0 {
				return s.FTime
			}
			return s.LTime
		}
		return s.Num[fv.idx]
	}
	pick := vars[rng.Intn(len(vars))]
	rest := f.cst
	for _, fv := range vars {
		if fv != pick {
			rest += f.coef[fv] * get(fv)
		}
	}
	co := f.coef[pick]
	// coef*y + rest = 0  <=>  y = -rest/coef
	num, den := -rest, co
	if den < 0 {
		num, den = -num, -den
	}
	fl := num / den
	if num%den != 0 && num < 0 {
		fl--
	}
	ce := fl
	if num%den != 0 {
		ce = fl + 1
	}
	cand := []int64{fl - 1, fl, ce, ce + 1}
	y := cand[rng.Intn(len(cand))]
	s := v[pick.sub]
	if pick.time {
		if pick.idx == 0 {
			s.FTime = y
		} else {
			s.LTime = y
		}
		if s.FTime > s.LTime {
			if pick.idx == 0 {
				s.LTime = s.FTime
			} else {
				s.FTime = s.LTime
			}
		}
		return
	}
	if y < 0 {
		y = 0
	}
	s.Num[pick.idx] = y
}

func (c *vCrit) eventSeqs(rng *rand.Rand, n int) [][]int {
	k := c.nelem
	res := [][]int{}
	if k == 0 {
		return [][]int{{}}
	}
	if k <= 2 {
		// every sequence up to length 3 (k=1: 4, k=2: 15)
		var rec func(cur []int, l int)
		rec = func(cur []int, l int) {
			res = append(res, append([]int{}, cur...))
			if l == 3 {
				return
			}
			for e := 0; e < k; e++ {
				rec(append(cur, e), l+1)
			}
		}
		rec(nil, 0)
		return res
	}
	res = append(res, []int{})
	// guided: the payload filters in the order of the text, with one of them (a negated one, say) left out, and the
	// prefixes; long sequences are rarely satisfied by random event orders
	if len(c.order) != 0 && len(c.order) <= 12 {
		base := make([]int, len(c.order))
		for i, els := range c.order {
			base[i] = els[rng.Intn(len(els))]
		}
		guided := [][]int{base}
		for i := range base {
			guided = append(guided, append(append([]int{}, base[:i]...), base[i+1:]...))
		}
		for i := 1; i < len(base); i++ {
			guided = append(guided, append([]int{}, base[:i]...))
		}
		for i := range base {
			for j := i + 1; j < len(base); j++ {
				d := []int{}
				for t, e := range base {
					if t != i && t != j {
						d = append(d, e)
					}
				}
				guided = append(guided, d)
			}
		}
		if len(guided) > n/2 {
			guided = guided[:n/2]
		}
		res = append(res, guided...)
	}
	for len(res) < n {
		l := 1 + rng.Intn(k+2)
		s := make([]int, l)
		for i := range s {
			s[i] = rng.Intn(k)
		}
		res = append(res, s)
	}
	return res
}

// ---------------------------------------------------------------- model token format

func vHex(s string) string {
	if s == "" {
		return "-"
	}
	return hex.EncodeToString([]byte(s))
}

type vNames struct {
	subs, tags map[string]int
}

func vRankNames(list []string) map[string]int {
	l := append([]string(nil), list...)
	sort.Strings(l)
	m := map[string]int{}
	for _, s := range l {
		if _, ok := m[s]; !ok {
			m[s] = len(m)
		}
	}
	return m
}

func (n *vNames) expr(e *vExpr, w *strings.Builder) {
	switch e.Op {
	case "skip":
		w.WriteString("S ")
	case "not":
		w.WriteString("N ")
		n.expr(e.Kids[0], w)
	case "and", "or", "then":
		fmt.Fprintf(w, "%s %d ", map[string]string{"and": "A", "or": "O", "then": "T"}[e.Op], len(e.Kids))
		for _, k := range e.Kids {
			n.expr(k, w)
		}
	case "atom":
		a := e.Atom
		switch a.Kind {
		case "tag":
			fmt.Fprintf(w, "tag %d %d ", n.subs[a.Sub], len(a.Tags))
			for _, t := range a.Tags {
				fmt.Fprintf(w, "%d ", n.tags[t])
			}
		case "proto":
			fmt.Fprintf(w, "proto %d %d ", n.subs[a.Sub], len(a.Protos))
			for _, p := range a.Protos {
				if p.IsVar {
					fmt.Fprintf(w, "v %d ", n.subs[p.VSub])
				} else {
					fmt.Fprintf(w, "t %d ", p.Tok)
				}
			}
		case "host":
			fmt.Fprintf(w, "host %s %d %d ", a.Key, n.subs[a.Sub], len(a.Hosts))
			for _, h := range a.Hosts {
				if h.IsVar {
					fmt.Fprintf(w, "v %d %s ", n.subs[h.VSub], h.VName)
				} else {
					fmt.Fprintf(w, "i %s ", hex.EncodeToString(h.IP))
				}
				fmt.Fprintf(w, "%s %s ", hex.EncodeToString(h.M4), hex.EncodeToString(h.M6))
			}
		case "num", "time":
			fmt.Fprintf(w, "%s %s %d %d ", a.Kind, a.Key, n.subs[a.Sub], len(a.Ranges))
			for _, rg := range a.Ranges {
				fmt.Fprintf(w, "%d ", len(rg))
				for _, b := range rg {
					fmt.Fprintf(w, "%d ", len(b.Parts))
					for _, p := range b.Parts {
						sign := "+"
						if p.Neg {
							sign = "-"
						}
						if p.IsVar {
							fmt.Fprintf(w, "%s v %d %s ", sign, n.subs[p.VSub], p.VName)
						} else if p.IsAbs {
							fmt.Fprintf(w, "%s a %d ", sign, p.Num)
						} else {
							fmt.Fprintf(w, "%s n %d ", sign, p.Num)
						}
					}
				}
			}
		case "data":
			fmt.Fprintf(w, "data %d %d ", n.subs[a.Sub], len(a.Elems))
			for _, el := range a.Elems {
				fmt.Fprintf(w, "%d ", el)
			}
		}
	}
}

func (n *vNames) val(v vVal, w *strings.Builder) {
	// streams in sub-query rank order
	subs := make([]string, len(n.subs))
	for s, i := range n.subs {
		subs[i] = s
	}
	tags := make([]string, len(n.tags))
	for t, i := range n.tags {
		tags[i] = t
	}
	fmt.Fprintf(w, "V %d ", len(subs))
	for _, sq := range subs {
		s := v[sq]
		fmt.Fprintf(w, "%d %d %d %d %d %d %d %d %s %s %d ", s.Num[0], s.Num[1], s.Num[2], s.Num[3], s.Num[4],
			s.FTime, s.LTime, s.Flags, hex.EncodeToString(s.CHost), hex.EncodeToString(s.SHost), len(tags))
		for _, t := range tags {
			fmt.Fprintf(w, "%d ", s.Tags[t])
		}
		fmt.Fprintf(w, "%d ", len(s.Events))
		for _, e := range s.Events {
			fmt.Fprintf(w, "%d ", e)
		}
	}
}

// ---------------------------------------------------------------- driver

type vResult struct {
	I        int      `json:"i"`
	Q        string   `json:"q"`
	Err      string   `json:"err,omitempty"`   // Parse returned an error
	DErr     string   `json:"derr,omitempty"`  // the dumper found the text ill-formed
	Unsup    string   `json:"unsup,omitempty"` // outside the evaluated fragment (reason)
	Wf       bool     `json:"wf"`              // NOT-inside-sequence fragment with unambiguous meaning (spec tree)
	WfD      bool     `json:"wfd"`             // the same on the dumped tree
	SemD     string   `json:"semd,omitempty"`  // sem on the dumped tree (what the model sees); sem is on the spec tree
	SemLD    string   `json:"semld,omitempty"`
	SpecNote string   `json:"specnote,omitempty"`
	Panic    string   `json:"panic,omitempty"`
	Hang     bool     `json:"hang,omitempty"`
	Tree     *vExpr   `json:"tree,omitempty"`
	Norm     string   `json:"norm,omitempty"`
	NConj    int      `json:"nconj"`
	Imposs   bool     `json:"impossible"`
	ParseS   float64  `json:"parse_s"`
	Vals     []vVal   `json:"vals,omitempty"`
	Impl     string   `json:"impl,omitempty"`
	Impl1c   string   `json:"impl1c,omitempty"` // first parse on the coarse-time copy of the valuations
	Impl2    string   `json:"impl2,omitempty"`  // second Parse of the same text on the coarse-time copy
	Sem      string   `json:"sem,omitempty"`
	SemL     string   `json:"seml,omitempty"`
	Elems    []string `json:"elems,omitempty"`
}

type vParsed struct {
	q   *Query
	err error
	pan string
}

func vParseGuard(text string, hang time.Duration) (*vParsed, bool) {
	ch := make(chan *vParsed, 1)
	go func() {
		r := &vParsed{}
		defer func() {
			if x := recover(); x != nil {
				r.pan = fmt.Sprint(x)
			}
			ch <- r
		}()
		r.q, r.err = Parse(text)
	}()
	select {
	case r := <-ch:
		return r, true
	case <-time.After(hang):
		return nil, false
	}
}

func vBits(bs []bool) string {
	b := make([]byte, len(bs))
	for i, x := range bs {
		b[i] = '0'
		if x {
			b[i] = '1'
		}
	}
	return string(b)
}

func vRunCase(i int, text string, nvals int, seed int64, hang time.Duration, mw *bufio.Writer) (res vResult) {
	return vRunCaseSpec(i, text, nil, nvals, seed, hang, mw)
}

func vRunCaseSpec(i int, text string, spec *vExpr, nvals int, seed int64, hang time.Duration, mw *bufio.Writer) (res vResult) {
	res = vResult{I: i, Q: text}
	defer func() {
		if x := recover(); x != nil {
			res.Panic = "harness: " + fmt.Sprint(x)
		}
	}()
	t0 := time.Now()
	pr, ok := vParseGuard(text, hang)
	res.ParseS = time.Since(t0).Seconds()
	if !ok {
		res.Hang = true
		return
	}
	if pr.pan != "" {
		res.Panic = pr.pan
		return
	}
	if pr.err != nil {
		res.Err = pr.err.Error()
	}
	// neutral dump
	root, perr := parser.ParseString("", text)
	if perr != nil {
		res.DErr = "grammar: " + perr.Error()
		return
	}
	d := &vDumper{loc: time.Local}
	if pr.q != nil {
		d.ref = pr.q.ReferenceTime
	} else {
		d.ref = time.Now()
	}
	var tree *vExpr
	if root.Term == nil {
		tree = &vExpr{Op: "skip"}
	} else {
		var derr error
		tree, derr = d.or(root.Term)
		if derr != nil {
			res.DErr = "value: " + derr.Error()
			return
		}
	}
	if pr.err != nil {
		return
	}
	nOwn := len(d.elems)
	d.completeSpec(spec)
	if spec != nil && len(d.elems) != nOwn {
		res.SpecNote = "the text as written names a payload element that the parsed tree does not contain"
	}
	d.rank(tree, spec)
	res.Tree = tree
	for _, e := range d.elems {
		res.Elems = append(res.Elems, fmt.Sprintf("%s|%d|%q|%s", e.Sub, e.Flags, e.Regex, e.Conv))
	}
	q := pr.q
	res.Norm = q.Conditions.String()
	res.NConj = len(q.Conditions)
	res.Imposs = len(q.Conditions) == 0
	if d.unsup != "" {
		res.Unsup = d.unsup
		return
	}
	elemID := func(e DataConditionElement) int {
		k := vElem{Sub: e.SubQuery, Flags: e.Flags, Regex: e.Regex, Conv: e.ConverterName}
		for i, o := range d.elems {
			if o == k {
				return i
			}
		}
		panic("normal form contains a data element that is not in the query: " + e.Regex)
	}
	stripped := vStrip(tree)
	// the oracle works on the spec tree when there is one (the dumped tree is what the model gets)
	oracle := stripped
	if spec != nil {
		oracle = vStrip(spec)
	}
	vExpandCache = map[*vExpr][]*vExpr{}
	res.Wf = oracle == nil || vWf(oracle, true)
	res.WfD = stripped == nil || vWf(stripped, true)
	crit := &vCrit{subs: []string{""}}
	crit.collect(oracle)
	crit.frozen = true
	if spec != nil {
		crit.collect(stripped)
	}
	rng := rand.New(rand.NewSource(seed*1000003 + int64(i)))
	seqs := crit.eventSeqs(rng, nvals)
	n := nvals
	if len(seqs) > n {
		n = len(seqs)
	}
	// second parse: same text, must mean the same
	var pr2 *vParsed
	ok2 := false
	twiceMax := 0.15
	if s := os.Getenv("VERIF_TWICE_MAX_S"); s != "" {
		twiceMax, _ = strconv.ParseFloat(s, 64)
	}
	if res.ParseS < twiceMax {
		pr2, ok2 = vParseGuard(text, hang)
	}
	impl, impl1c, impl2, sem, semL, semD, semLD := []bool{}, []bool{}, []bool{}, []bool{}, []bool{}, []bool{}, []bool{}
	names := &vNames{subs: vRankNames(crit.subs), tags: vRankNames(crit.tags)}
	var mb strings.Builder
	fmt.Fprintf(&mb, "C %d ", i)
	names.expr(tree, &mb)
	mb.WriteString("\n")
	for j := 0; j < n; j++ {
		v := vVal{}
		for _, sq := range crit.subs {
			v[sq] = crit.stream(rng, seqs[(j+len(sq))%len(seqs)])
		}
		crit.adjust(rng, v)
		crit.adjustHosts(rng, v)
		res.Vals = append(res.Vals, v)
		impl = append(impl, vEvalSet(q.Conditions, v, elemID))
		if ok2 && pr2.q != nil {
			// Parsing twice: the two parses have different reference times (time.Now()), so absolute and
			// relative time filters move against each other by the time between the parses. Compared on a
			// coarse copy of the valuation: stream times about 0.38 s away from every critical value.
			vc := vVal{}
			for sq, st := range v {
				c := *st
				d := int64(377123457) // an offset no sum of the constants of a query is likely to hit
				if j%2 == 1 {
					d = -d
				}
				c.FTime += d
				c.LTime += d
				vc[sq] = &c
			}
			impl1c = append(impl1c, vEvalSet(q.Conditions, vc, elemID))
			impl2 = append(impl2, vEvalSet(pr2.q.Conditions, vc, elemID))
		}
		sem = append(sem, vSem(oracle, v))
		semL = append(semL, vSemL(oracle, v))
		if spec != nil {
			semD = append(semD, vSem(stripped, v))
			semLD = append(semLD, vSemL(stripped, v))
		}
		names.val(v, &mb)
		mb.WriteString("\n")
	}
	mb.WriteString("E\n")
	res.Impl, res.Impl1c, res.Impl2, res.Sem, res.SemL = vBits(impl), vBits(impl1c), vBits(impl2), vBits(sem), vBits(semL)
	if spec != nil {
		res.SemD, res.SemLD = vBits(semD), vBits(semLD)
	} else {
		res.SemD, res.SemLD = res.Sem, res.SemL
	}
	if mw != nil {
		mw.WriteString(mb.String())
		mw.Flush()
	}
	return
}

func TestVerifC03(t *testing.T) {
	in := os.Getenv("VERIF_CASES")
	if in == "" {
		t.Skip("no VERIF_CASES")
	}
	f, err := os.Open(in)
	if err != nil {
		t.Fatal(err)
	}
	defer f.Close()
	of, err := os.Create(os.Getenv("VERIF_OUT"))
	if err != nil {
		t.Fatal(err)
	}
	defer of.Close()
	w := bufio.NewWriter(of)
	defer w.Flush()
	var mw *bufio.Writer
	if p := os.Getenv("VERIF_MODEL_IN"); p != "" {
		mf, err := os.Create(p)
		if err != nil {
			t.Fatal(err)
		}
		defer mf.Close()
		mw = bufio.NewWriter(mf)
		defer mw.Flush()
	}
	nvals := 48
	if s := os.Getenv("VERIF_NVALS"); s != "" {
		nvals, _ = strconv.Atoi(s)
	}
	seed := int64(1)
	if s := os.Getenv("VERIF_SEED"); s != "" {
		seed, _ = strconv.ParseInt(s, 10, 64)
	}
	hang := 5 * time.Second
	if s := os.Getenv("VERIF_HANG_MS"); s != "" {
		ms, _ := strconv.Atoi(s)
		hang = time.Duration(ms) * time.Millisecond
	}
	skip := 0
	if s := os.Getenv("VERIF_SKIP"); s != "" {
		skip, _ = strconv.Atoi(s)
	}
	novals := os.Getenv("VERIF_NOVALS") != ""
	sc := bufio.NewScanner(f)
	sc.Buffer(make([]byte, 1<<20), 1<<28)
	i := -1
	for sc.Scan() {
		i++
		if i < skip {
			continue
		}
		var text string
		var spec *vExpr
		if err := json.Unmarshal(sc.Bytes(), &text); err != nil {
			var obj struct {
				Q    string `json:"q"`
				Spec *vExpr `json:"spec"`
			}
			if err2 := json.Unmarshal(sc.Bytes(), &obj); err2 != nil {
				t.Fatalf("case %d: %v", i, err2)
			}
			text, spec = obj.Q, obj.Spec
		}
		res := vRunCaseSpec(i, text, spec, nvals, seed, hang, mw)
		if novals {
			res.Vals = nil
		}
		b, err := json.Marshal(res)
		if err != nil {
			b, _ = json.Marshal(vResult{I: i, Q: text, Panic: "harness: marshal: " + err.Error()})
		}
		w.Write(b)
		w.WriteString("\n")
		w.Flush()
		if res.Hang {
			// the hung goroutine cannot be stopped: leave, the caller restarts behind this case
			of.Sync()
			os.Exit(3)
		}
	}
}
