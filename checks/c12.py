"""C12 -- state survives restart and a crash at any point.

Coq: theories/Persist.v (model), PersistProofs.v, props/C12.v.
Tie: scenarios on a real Manager (harness/c12, overlay in package manager, build tag verif):
imports of generated pcaps, tag / config / webhook calls, jobs parked and released at the
gates.  At every gate, after every acknowledged call and at every idle point the data
directory is copied from inside the service loop (= what a process kill leaves).  From the
copies further crash states are derived along the step model of Persist.v (torn unpublished
index file, torn new state file next to the old one, merged inputs partly removed, torn
snapshot file).  manager.New runs on every state in a fresh process; the direct oracle
(`judge`) checks the property; the extracted model `recover` is run on the scanned files
and compared with what manager.New made of them.
"""
import json
import os
import random
import re
import shutil
import struct
import time

from vplib import *

PROP = "C12"
KNOWN_ORDER = "index-order-by-name"
KNOWN_STALE = "stale-converter-output-after-interrupted-import"
KNOWN_STALE_JOB = "stale-converter-output-after-interrupted-converter-job"
QUICK_STATES = 800


def run_dir():
    d = os.path.join(BUILD, "run", "c12", "p%d" % os.getpid())
    os.makedirs(d, exist_ok=True)
    return d


def overlay():
    """Harness files (add-only) plus a copy of builder.go in which the literal snapshot interval is the
    variable verifSnapEvery of harness/c12/zz_verif_c12_builder.go (fails loudly if the literal is not
    found exactly once)."""
    src = open(os.path.join(REPO, "internal/index/builder/builder.go")).read()
    pat = "nPacketsAfterSnapshot >= 100_000"
    if src.count(pat) != 1:
        raise RuntimeError("snapshot interval literal not found exactly once in builder.go")
    bp = os.path.join(run_dir(), "builder_snapevery.go")
    open(bp, "w").write(src.replace(pat, "nPacketsAfterSnapshot >= verifSnapEvery"))
    return go_overlay({"internal/index/manager/zz_verif_c12_test.go": os.path.join(ROOT, "harness/c12/zz_verif_c12_test.go"),
                       "internal/index/builder/zz_verif_c12_builder.go": os.path.join(ROOT, "harness/c12/zz_verif_c12_builder.go"),
                       "internal/index/builder/builder.go": bp}, "c12_%d" % os.getpid())


# ---------------------------------------------------------------- scenarios
def pkt(cport, t, data, sport=80):
    return {"c": "1.2.3.4:%d" % cport, "s": "4.3.2.1:%d" % sport, "t": t, "data": data}


def scen_merge_shadow():
    """The known ordering defect: the merge of [A,B] is parked at its start, import C extends
    stream 0 and is parked before publishing, the merge runs, then the import publishes."""
    return {"name": "merge-shadow", "converters": ["ca"], "steps": [
        {"op": "pcap", "name": "a.pcap", "packets": [pkt(1000, 0, "foo")]},
        {"op": "idle"},
        {"op": "add", "name": "tag/p", "color": "red", "def": "cport:1000"},
        {"op": "idle"},
        {"op": "park", "point": "merge.start"},
        {"op": "pcap", "name": "b.pcap", "packets": [pkt(1001, 10, "bar"), pkt(1002, 11, "baz")]},
        {"op": "wait", "point": "merge.start"},
        {"op": "park", "point": "import.done"},
        {"op": "pcap", "name": "c.pcap", "packets": [pkt(1000, 20, " MORE")]},
        {"op": "wait", "point": "import.done"},
        {"op": "release", "point": "merge.start"},
        {"op": "waitflag", "point": "merge"},
        {"op": "release", "point": "import.done"},
        {"op": "idle"}]}


def scen_tags():
    """Tag / config / webhook calls of every kind, with converters attached."""
    q = "sport:80"
    return {"name": "tags", "converters": ["ca", "cb"], "steps": [
        {"op": "pcap", "name": "a.pcap", "packets": [pkt(1000, 0, "foo"), pkt(1001, 1, "bar"), pkt(1002, 2, "baz")]},
        {"op": "idle"},
        {"op": "add", "name": "tag/a", "color": "red", "def": "cport:1000"},
        {"op": "add", "name": "service/s", "color": "blue", "def": "sport:80"},
        {"op": "add", "name": "tag/b", "color": "x", "def": "tag:a or cport:1001"},
        {"op": "add", "name": "tag/sq", "color": "x", "def": "@s:service:s cport:@s:cport@"},
        {"op": "add", "name": "mark/m", "color": "green", "def": "id:1"},
        {"op": "upd", "name": "mark/m", "markadd": [0, 2]},
        {"op": "upd", "name": "mark/m", "markdel": [1]},
        {"op": "upd", "name": "tag/a", "conv": ["ca", "cb"]},
        {"op": "idle"},
        {"op": "config", "auto": True},
        {"op": "webhook", "url": "http://127.0.0.1:9/hook"},
        {"op": "upd", "name": "tag/a", "color": "yellow"},
        {"op": "upd", "name": "tag/b", "query": "cdata:ba"},
        {"op": "upd", "name": "tag/b", "newname": "tag/c"},
        {"op": "upd", "name": "tag/a", "conv": ["cb"]},
        {"op": "add", "name": "generated/g", "color": "red", "def": "id:0,2"},
        {"op": "del", "name": "service/s"},
        {"op": "idle"},
        {"op": "del", "name": "tag/sq"},
        {"op": "del", "name": "service/s"},
        {"op": "delwebhook", "url": "http://127.0.0.1:9/hook"},
        {"op": "config", "auto": False},
        {"op": "idle"}]}


def scen_converters():
    """Converter output (> 4 KiB per stream) cached while imports extend streams; captures under both
    accepted file name extensions."""
    return {"name": "converters", "converters": ["ca", "cb"], "steps": [
        {"op": "pcap", "name": "a.pcapng", "packets": [pkt(1000, 0, "foo"), pkt(1001, 1, "bar"), pkt(1002, 2, "baz")]},
        {"op": "idle"},
        {"op": "add", "name": "tag/a", "color": "red", "def": "cport:1000:1002"},
        {"op": "upd", "name": "tag/a", "conv": ["ca"]},
        {"op": "idle"},
        {"op": "pcap", "name": "b.pcap", "packets": [pkt(1000, 5, " MORE"), pkt(1003, 6, "qux")]},
        {"op": "idle"},
        {"op": "add", "name": "service/s", "color": "blue", "def": "sport:80"},
        {"op": "upd", "name": "service/s", "conv": ["ca", "cb"]},
        {"op": "idle"},
        {"op": "pcap", "name": "c.pcapng", "packets": [pkt(1004, 9, "new"), pkt(1001, 10, "!")]},
        {"op": "idle"}]}


def scen_snapshot():
    """Snapshot points every 3 packets (overlay), packets with sub-second timestamps, a flow that is open
    at the snapshot; the import after the restart continues that flow (checked exactly at idle copies)."""
    def p(cport, t, ms, data):
        d = pkt(cport, t, data)
        d["ms"] = ms
        return d
    return {"name": "snapshot", "converters": [], "cont_stream": 0, "steps": [
        {"op": "snapevery", "n": 3},
        # the capture starts in the second before the snapshot points (a snapshot only filters captures that
        # begin before it) and the snapshots fall on fractions of a second
        {"op": "pcap", "name": "a.pcap", "packets": [p(1000, 9, 100, "a1"), p(1001, 9, 500, "b1"), p(1000, 9, 900, "a2"), p(1000, 10, 100, "a3"),
                                                     p(1001, 10, 200, "b2"), p(1000, 10, 300, "a4"), p(1002, 10, 600, "c1"), p(1000, 10, 800, "a5")]},
        {"op": "idle"},
        {"op": "pcap", "name": "b.pcap", "packets": [p(1000, 11, 250, "a6"), p(1001, 11, 350, "b3"), p(1003, 11, 450, "d1"), p(1000, 11, 550, "a7")]},
        {"op": "idle"},
        {"op": "add", "name": "tag/a", "color": "red", "def": "cport:1000"},
        {"op": "idle"}]}


def scen_mark_digits():
    """Mark tags over 13 streams with ids that share leading digits (1 / 10 / 11 / 12): mark and unmark, then the
    restart must show exactly the marked streams (a restart rebuilds the matches from the definition text)."""
    return {"name": "mark-digits", "converters": [], "steps": [
        {"op": "pcap", "name": "a.pcap", "packets": [pkt(1000 + i, i, "s%d" % i) for i in range(13)]},
        {"op": "idle"},
        {"op": "add", "name": "mark/m", "color": "red", "def": "id:10"},
        {"op": "upd", "name": "mark/m", "markadd": [1]},
        {"op": "upd", "name": "mark/m", "markdel": [1]},
        {"op": "add", "name": "mark/n", "color": "red", "def": "id:12"},
        {"op": "upd", "name": "mark/n", "markadd": [1, 2, 11]},
        {"op": "upd", "name": "mark/n", "markdel": [2]},
        {"op": "upd", "name": "mark/n", "markdel": [1]},
        {"op": "add", "name": "generated/g", "color": "red", "def": "id:11,1"},
        {"op": "upd", "name": "generated/g", "markadd": [10, 0]},
        {"op": "upd", "name": "generated/g", "markdel": [1, 0]},
        {"op": "idle"}]}


def scen_mark_text():
    """A mark tag whose definition is not a plain id list, then mark operations on it."""
    return {"name": "mark-text", "converters": [], "steps": [
        {"op": "pcap", "name": "a.pcap", "packets": [pkt(1000, 0, "foo"), pkt(1001, 1, "bar"), pkt(1002, 2, "baz"), pkt(1003, 3, "qux")]},
        {"op": "idle"},
        {"op": "add", "name": "mark/m", "color": "red", "def": "id:1 id:2"},
        {"op": "upd", "name": "mark/m", "markadd": [3, 0, 1]},
        {"op": "add", "name": "mark/n", "color": "red", "def": "id:1 or id:2"},
        {"op": "upd", "name": "mark/n", "markadd": [3]},
        {"op": "add", "name": "mark/o", "color": "red", "def": "id:0:2"},
        {"op": "upd", "name": "mark/o", "markadd": [3]},
        {"op": "idle"}]}


def gen_scenario(rng, k):
    """Random scenario: imports (new flows and continuations of old flows), tag calls, jobs parked at
    random gates and released later."""
    steps = []
    flows = []            # (cport)
    t = 0
    npcap = 0
    tags = set()
    parked = []           # points with a park request outstanding (a job may or may not arrive)
    convs = ["ca", "cb"] if rng.random() < 0.5 else []

    def new_pcap():
        nonlocal t, npcap
        pk = []
        for _ in range(rng.choice([1, 1, 2, 3])):
            if flows and rng.random() < 0.45:
                cp = rng.choice(flows)
            else:
                cp = 1000 + len(flows)
                flows.append(cp)
            t += rng.choice([1, 2, 5])
            pk.append(pkt(cp, t, rng.choice(["foo", "bar", " MORE", "baz!", "x"])))
        npcap += 1
        return {"op": "pcap", "name": "p%02d.%s" % (npcap, "pcapng" if rng.random() < 0.35 else "pcap"), "packets": pk}
    steps.append(new_pcap())
    steps.append({"op": "idle"})
    n = rng.choice([6, 10, 14])
    for _ in range(n):
        r = rng.random()
        if r < 0.30:
            # import, possibly with jobs parked around it
            if rng.random() < 0.5 and not parked:
                pt = rng.choice(["merge.start", "merge.done", "import.done", "import.start", "tag.done", "tag.start"])
                steps.append({"op": "park", "point": pt})
                parked.append(pt)
            steps.append(new_pcap())
            if not parked:
                if rng.random() < 0.5:
                    steps.append({"op": "idle"})
        elif r < 0.42 and parked:
            pt = parked.pop(0)
            steps.append({"op": "tryrelease", "point": pt})
            if not parked and rng.random() < 0.6:
                steps.append({"op": "idle"})
        elif r < 0.60:
            nm = rng.choice(["tag/a", "tag/b", "service/s", "mark/m", "generated/g"])
            if nm.startswith(("mark", "gen")):
                d = rng.choice(["id:0", "id:-1", "id:0,1", "id:1"])
            else:
                refs = [x for x in tags if x.startswith("tag/") and x != nm]
                d = rng.choice(["cport:1000", "cport:1001,1002", "sport:80", "cdata:foo", "cdata:MORE", "cport:1000:1003"] +
                               (["tag:%s" % refs[0].split("/")[1], "@s:tag:%s cport:@s:cport@" % refs[0].split("/")[1]] if refs else []))
            steps.append({"op": "add", "name": nm, "color": rng.choice(["red", "blue"]), "def": d})
            tags.add(nm)
        elif r < 0.85 and tags:
            nm = rng.choice(sorted(tags))
            k2 = rng.random()
            if nm.startswith(("mark", "gen")):
                if k2 < 0.5:
                    steps.append({"op": "upd", "name": nm, "markadd": [rng.choice([0, 1, 2])]})
                elif k2 < 0.8:
                    steps.append({"op": "upd", "name": nm, "markdel": [rng.choice([0, 1, 2])]})
                else:
                    steps.append({"op": "upd", "name": nm, "color": "green"})
            elif k2 < 0.25:
                steps.append({"op": "upd", "name": nm, "color": rng.choice(["green", "black"])})
            elif k2 < 0.5:
                steps.append({"op": "upd", "name": nm, "query": rng.choice(["cport:1001", "cdata:bar", "sport:80 cport:1000"])})
            elif k2 < 0.7 and convs:
                steps.append({"op": "upd", "name": nm, "conv": [c for c in convs if rng.random() < 0.6]})
            elif k2 < 0.85:
                steps.append({"op": "del", "name": nm})
                tags.discard(nm)
            else:
                steps.append({"op": "config", "auto": rng.random() < 0.5})
        else:
            steps.append({"op": "webhook" if rng.random() < 0.6 else "delwebhook", "url": "http://127.0.0.1:9/h%d" % rng.randrange(2)})
    for pt in parked:
        steps.append({"op": "tryrelease", "point": pt})
    steps.append({"op": "releaseall"})
    steps.append({"op": "idle"})
    return {"name": "random-%d" % k, "converters": convs, "steps": steps}


# ---------------------------------------------------------------- running
def read_run(of):
    lines = []
    if os.path.exists(of):
        for ln in open(of):
            try:
                lines.append(json.loads(ln))
            except ValueError:
                pass
    metas = [ln for ln in lines if "snap" in ln and "label" in ln]
    errs = [ln for ln in lines if "error" in ln]
    closed = any(ln.get("closed") for ln in lines)
    return metas, errs, closed


def run_scenarios(scens):
    """All scenarios in one harness process (restarted after a scenario that kills it).
    Returns list of (base dir, metas, note)."""
    specs = []
    for si, scen in enumerate(scens):
        base = os.path.join(run_dir(), "s%03d" % si)
        shutil.rmtree(base, ignore_errors=True)
        os.makedirs(base)
        specs.append({"scenario": scen, "dir": base, "out": os.path.join(base, "run.out")})
    res = [None] * len(scens)
    todo = list(range(len(scens)))
    rounds = 0
    while todo and rounds < 6:
        rounds += 1
        sf = os.path.join(run_dir(), "specs.json")
        json.dump([specs[i] for i in todo], open(sf, "w"))
        rc, out, _ = go_test("./internal/index/manager/", overlay(), "^TestVerifC12Run$", {"VERIF_C12_SCEN": sf}, timeout=1500)
        nxt = []
        died = None
        for i in todo:
            metas, errs, closed = read_run(specs[i]["out"])
            if closed and not errs:
                res[i] = (specs[i]["dir"], metas, "")
            elif errs:
                res[i] = (specs[i]["dir"], metas, "scenario run failed: %s" % errs[:1])
            elif os.path.exists(specs[i]["out"]) and died is None and rc != 0:
                m = re.search(r"(panic: .*?)(?:\n\n|\Z)", out, re.S)
                res[i] = (specs[i]["dir"], metas, "process died in this scenario rc=%d %s" % (rc, m.group(1)[:500] if m else out[-700:]))
                died = i
            else:
                nxt.append(i)
        if rc == 0 or died is None:
            for i in nxt:
                res[i] = (specs[i]["dir"], [], "scenario was not run rc=%d %s" % (rc, out[-500:]))
            break
        todo = nxt
    return [r if r is not None else (specs[i]["dir"], [], "scenario was not run") for i, r in enumerate(res)]


def files(d, sub, ext):
    p = os.path.join(d, sub)
    return sorted(f for f in os.listdir(p) if f.endswith(ext)) if os.path.isdir(p) else []


def clone(src, dst):
    shutil.copytree(src, dst)


def derive(base, metas, rng, per_file_cuts):
    """Crash states: the copies themselves plus derived ones. Returns list of dicts
    {dir, meta (index), kind, alt (index of an alternative acceptable meta or None), note}."""
    states = []
    ncidx = [0]       # torn cache file states per scenario are bounded
    nempty = [0]
    snaps = os.path.join(base, "snaps")
    crash = os.path.join(base, "crash")
    os.makedirs(crash, exist_ok=True)
    n = 0

    def add(src, mi, kind, alt=None, note="", mutate=None):
        nonlocal n
        d = os.path.join(crash, "%04d" % n)
        n += 1
        # materialised later, only for the states that are kept
        states.append({"dir": d, "meta": mi, "kind": kind, "alt": alt, "note": note, "src": src, "mutate": mutate})

    for mi, m in enumerate(metas):
        src = os.path.join(snaps, "%04d" % m["snap"])
        if not os.path.isdir(src):
            continue
        add(src, mi, "copy:" + m["label"])
        published = set(m.get("indexes") or [])
        # crash inside the writing of an index file that is not yet published
        for f in files(src, "index", ".idx"):
            if f in published:
                continue
            size = os.path.getsize(os.path.join(src, "index", f))
            cuts = sorted({0, 16, 100, size // 2, max(0, size - 1)} | {rng.randrange(0, size) for _ in range(per_file_cuts)}) if size else [0]
            for c in cuts[:per_file_cuts + 3]:
                def mut(d, f=f, c=c):
                    p = os.path.join(d, "index", f)
                    with open(p, "r+b") as fh:
                        fh.truncate(c)
                        fh.seek(0)
                        fh.write(b"\0" * min(16, c))       # the magic is written last
                add(src, mi, "torn-index", note="%s cut at %d of %d, magic not written" % (f, c, size), mutate=mut)

            def mut2(d, f=f):
                with open(os.path.join(d, "index", f), "r+b") as fh:
                    fh.write(b"\0" * 16)
            add(src, mi, "index-without-magic", note=f, mutate=mut2)
        # crash inside an append to a converter cache file (the cache may lose the entry, nothing else)
        for f in files(src, "index", ".cidx"):
            size = os.path.getsize(os.path.join(src, "index", f))
            if size > 16 and ncidx[0] < 4 * (per_file_cuts + 1) and m["label"] in ("idle", "gate convert.done", "gate import.done"):
                ncidx[0] += 1
                for c in sorted({size - 1, size - 9, max(9, size - rng.randrange(1, min(size - 8, 6000)))})[:per_file_cuts + 1]:
                    def mutc(d, f=f, c=c):
                        with open(os.path.join(d, "index", f), "r+b") as fh:
                            fh.truncate(c)
                    add(src, mi, "torn-cidx", note="%s cut at %d of %d" % (f, c, size), mutate=mutc)
        # crash while a capture file is being written into the pcap directory (upload, pcap-over-ip, tcpdump):
        # only the 24 byte file header is there
        if m["label"] == "idle" and nempty[0] < 2:
            nempty[0] += 1

            def mutp(d):
                with open(os.path.join(d, "pcap", "zz-being-written.pcap"), "wb") as fh:
                    fh.write(struct.pack("<IHHiIII", 0xa1b2c3d4, 2, 4, 0, 0, 0xffff, 228))
            add(src, mi, "capture-being-written", note="pcap/zz-being-written.pcap holds only the pcap file header", mutate=mutp)
        # crash inside the writing of the snapshot file
        sn = files(src, "snapshot", ".snap")
        if sn and m["label"].startswith("gate import.done"):
            f = sn[-1]
            size = os.path.getsize(os.path.join(src, "snapshot", f))
            for c in sorted({0, 4, max(0, size - 1)}):
                def mut3(d, f=f, c=c):
                    with open(os.path.join(d, "snapshot", f), "r+b") as fh:
                        fh.truncate(c)
                add(src, mi, "torn-snapshot", note="%s cut at %d of %d" % (f, c, size), mutate=mut3)
        # crash inside a state save: the old state file is still there, the new one is torn / complete
        if mi > 0:
            prev = os.path.join(snaps, "%04d" % metas[mi - 1]["snap"])
            old, new = files(prev, "state", ".state.json"), files(src, "state", ".state.json")
            if old and new and new[-1] not in old and os.path.isdir(prev):
                nf = new[-1]
                size = os.path.getsize(os.path.join(src, "state", nf))
                cuts = sorted({0, 1, size // 2, max(0, size - 2)} | {rng.randrange(0, size) for _ in range(per_file_cuts)})
                for c in cuts[:per_file_cuts + 2]:
                    def mut4(d, nf=nf, c=c, prev=prev, old=old):
                        for o in old:
                            if not os.path.exists(os.path.join(d, "state", o)):
                                shutil.copy(os.path.join(prev, "state", o), os.path.join(d, "state", o))
                        with open(os.path.join(d, "state", nf), "r+b") as fh:
                            fh.truncate(c)
                    # index / snapshot directories are those of the later copy: only the state differs
                    add(src, mi - 1, "torn-state", alt=None, note="%s cut at %d of %d, old state file present" % (nf, c, size), mutate=mut4)

                # the newest state file parses but is REJECTED by manager.New (dangling tag reference, reference cycle,
                # malformed mark tag, bad pcap-over-ip address) and carries other settings: nothing of it may be used
                how = rng.choice(["dangling", "cycle", "mark", "endpoint"])

                def mut7(d, nf=nf, prev=prev, old=old, how=how):
                    for o in old:
                        if not os.path.exists(os.path.join(d, "state", o)):
                            shutil.copy(os.path.join(prev, "state", o), os.path.join(d, "state", o))
                    pth = os.path.join(d, "state", nf)
                    j = json.load(open(pth))
                    j["Tags"] = j.get("Tags") or []
                    bad = lambda n, de: {"Name": n, "Definition": de, "Matches": [], "Color": "poison", "Converters": []}
                    if how == "dangling":
                        j["Tags"].append(bad("tag/zz-poison", "tag:zz-missing"))
                    elif how == "cycle":
                        j["Tags"] += [bad("tag/zz-p1", "tag:zz-p2"), bad("tag/zz-p2", "tag:zz-p1")]
                    elif how == "mark":
                        j["Tags"].append(bad("mark/zz-poison", "sport:80"))
                    else:
                        j["PcapOverIPEndpoints"] = ["no-port-here"]
                    j["Config"] = {"AutoInsertLimitToQuery": not (j.get("Config") or {}).get("AutoInsertLimitToQuery", False)}
                    j["PcapProcessorWebhookUrls"] = ["http://127.0.0.1:9/poison"]
                    json.dump(j, open(pth, "w"))
                add(src, mi - 1, "invalid-newer-state", note="%s rejected by validation (%s), other config / webhooks; old state file present" % (nf, how), mutate=mut7)

                def mut5(d, prev=prev, old=old):
                    for o in old:
                        if not os.path.exists(os.path.join(d, "state", o)):
                            shutil.copy(os.path.join(prev, "state", o), os.path.join(d, "state", o))
                add(src, mi, "two-state-files", note="old state file not yet removed", mutate=mut5)
        # crash while the inputs of a published merge are removed one by one
        if m["label"].startswith("gate merge.done"):
            # the output of this merge = the complete file on disk that is not published yet; its inputs =
            # what the first later copy that shows the output no longer shows
            outs = [f for f in files(src, "index", ".idx") if f not in published and ".m" in f]
            later = [x for x in metas[mi + 1:] if outs and outs[-1] in (x.get("indexes") or [])]
            if later:
                gone = [f for f in (m.get("indexes") or []) if f not in set(later[0]["indexes"]) and os.path.exists(os.path.join(src, "index", f))]
                for k in range(1, len(gone) + 1):
                    def mut6(d, rm=gone[:k]):
                        for f in rm:
                            os.remove(os.path.join(d, "index", f))
                    add(src, mi, "merge-inputs-partly-removed", note="removed %s" % gone[:k], mutate=mut6)
    return states


def recover_all(states, tag):
    d = run_dir()
    lf, of = os.path.join(d, "list_%s.txt" % tag), os.path.join(d, "recover_%s.out" % tag)
    res, note = {}, ""
    # a Manager keeps a few descriptors open after Close: at most 1200 directories per process
    if len(states) > 1200:
        for k in range(0, len(states), 1200):
            r, n = recover_all(states[k:k + 1200], tag)
            res.update(r)
            note = (note + " " + n).strip()
        return res, note
    todo = [s["dir"] for s in states]
    spec = {s["dir"]: {"dir": s["dir"], "deep": bool(s.get("deep")), "cont": s.get("cont"), "snap": s.get("snap", 0)} for s in states}
    rounds = 0
    while todo and rounds < 6:
        rounds += 1
        json.dump([spec[x] for x in todo], open(lf, "w"))
        if os.path.exists(of):
            os.remove(of)
        rc, out, _ = go_test("./internal/index/manager/", overlay(), "^TestVerifC12Recover$", {"VERIF_C12_LIST": lf, "VERIF_OUT": of}, timeout=900)
        last = None
        if os.path.exists(of):
            for ln in open(of):
                try:
                    j = json.loads(ln)
                except ValueError:
                    continue
                last = j["dir"]
                res.setdefault(j["dir"], {})[j["phase"]] = j
        if rc == 0:
            break
        if last is None:
            note = "recover harness rc=%d: %s" % (rc, out[-1500:])
            break
        m = re.search(r"(panic: .*?)(?:\n\n|\Z)", out, re.S)
        if "end" not in res.get(last, {}):
            res[last]["fatal"] = m.group(1)[:600] if m else out[-600:]
        todo = todo[todo.index(last) + 1:]
        if sum(1 for v in res.values() if str(v.get("end", {}).get("new", "")).startswith("hang")) >= 2:
            for x in todo:
                res.setdefault(x, {"skipped": True})
            break       # two recovered managers hung: enough evidence, do not wait for more watchdogs
    return res, note


# ---------------------------------------------------------------- crash states from the system call trace
STRACE = ["strace", "-f", "-y", "-xx", "-s", "100000000", "-e",
          "trace=openat,creat,write,pwrite64,lseek,close,unlink,unlinkat,rename,renameat,renameat2,ftruncate,truncate"]


def unhex(t):
    t = t.strip()
    if t.startswith('"'):
        t = t[1:t.rindex('"')]
    return bytes.fromhex(t.replace("\\x", ""))


def fd_path(t):
    m = re.match(r"(-?\d+|AT_FDCWD)<(.*)>$", t.strip())
    if not m:
        return None, None
    return m.group(1), unhex(m.group(2)).decode("utf8", "replace")


def parse_strace(path):
    """-> list of (syscall, [args], ret) in completion order"""
    pending, out = {}, []
    for ln in open(path, errors="replace"):
        m = re.match(r"(\d+)\s+(.*)$", ln.rstrip("\n"))
        if not m:
            continue
        pid, rest = m.group(1), m.group(2)
        if rest.endswith("<unfinished ...>"):
            pending[pid] = rest[:-len("<unfinished ...>")]
            continue
        m2 = re.match(r"<\.\.\. \w+ resumed>(.*)$", rest)
        if m2:
            rest = pending.pop(pid, "") + m2.group(1)
        m3 = re.match(r"(\w+)\((.*)\)\s*= (-?\d+)", rest)
        if not m3:
            continue
        out.append((m3.group(1), m3.group(2).split(", "), int(m3.group(3))))
    return out


def trace_events(log, live, outfile):
    """File operations below `live` and the harness' marker lines, in order.
    -> list of ("create"|"trunc"|"write"|"unlink"|"rename"|"marker", ...)"""
    evs, off, mbuf = [], {}, b""
    live = live.rstrip("/") + "/"

    def rel(pth):
        pth = os.path.normpath(pth)
        return pth[len(live):] if (pth + "/").startswith(live) and len(pth) > len(live) else None
    for sc, a, ret in parse_strace(log):
        if ret < 0:
            continue
        if sc in ("openat", "creat"):
            pth = unhex(a[1] if sc == "openat" else a[0]).decode("utf8", "replace")
            flags = a[2] if sc == "openat" else "O_CREAT|O_WRONLY|O_TRUNC"
            r = rel(pth)
            if r is None or "O_DIRECTORY" in flags:
                continue
            off[ret] = (r, "APPEND" if "O_APPEND" in flags else 0)
            if "O_CREAT" in flags:
                mode = int(a[3], 8) if sc == "openat" and len(a) > 3 else 0o644
                evs.append(("create", r, mode))
            if "O_TRUNC" in flags:
                evs.append(("trunc", r, 0))
        elif sc in ("write", "pwrite64"):
            fd, pth = fd_path(a[0])
            if pth is None:
                continue
            data = unhex(a[1])[:ret]
            if os.path.normpath(pth) == os.path.normpath(outfile):
                mbuf += data
                while b"\n" in mbuf:
                    line, mbuf = mbuf.split(b"\n", 1)
                    try:
                        evs.append(("marker", json.loads(line.decode())))
                    except ValueError:
                        pass
                continue
            r = rel(pth)
            if r is None:
                continue
            fdn = int(fd)
            if sc == "pwrite64":
                evs.append(("write", r, int(a[3]), data))
            else:
                cur = off.get(fdn, (r, 0))[1]
                evs.append(("write", r, cur, data))
                off[fdn] = (r, "APPEND" if cur == "APPEND" else cur + len(data))
        elif sc == "lseek":
            fd, pth = fd_path(a[0])
            if pth is not None and rel(pth) is not None:
                off[int(fd)] = (rel(pth), ret)
        elif sc == "ftruncate":
            fd, pth = fd_path(a[0])
            if pth is not None and rel(pth) is not None:
                evs.append(("trunc", rel(pth), int(a[1])))
        elif sc == "truncate":
            r = rel(unhex(a[0]).decode("utf8", "replace"))
            if r is not None:
                evs.append(("trunc", r, int(a[1])))
        elif sc in ("unlink", "unlinkat"):
            r = rel(unhex(a[0] if sc == "unlink" else a[1]).decode("utf8", "replace"))
            if r is not None:
                evs.append(("unlink", r))
        elif sc in ("rename", "renameat", "renameat2"):
            strs = [x for x in a if x.strip().startswith('"')]
            if len(strs) >= 2:
                r1, r2 = rel(unhex(strs[0]).decode("utf8", "replace")), rel(unhex(strs[1]).decode("utf8", "replace"))
                if r1 is not None and r2 is not None:
                    evs.append(("rename", r1, r2))
        elif sc == "close":
            fd, _ = fd_path(a[0])
            if fd is not None and fd != "AT_FDCWD":
                off.pop(int(fd), None)
    return evs


def apply_event(vfs, modes, e, upto=None):
    k = e[0]
    if k == "create":
        if e[1] not in vfs:
            vfs[e[1]] = bytearray()
            modes[e[1]] = e[2]
    elif k == "trunc":
        if e[1] in vfs:
            del vfs[e[1]][e[2]:]
    elif k == "write":
        b = vfs.setdefault(e[1], bytearray())
        pos = len(b) if e[2] == "APPEND" else e[2]
        data = e[3] if upto is None else e[3][:upto]
        if len(b) < pos:
            b.extend(b"\0" * (pos - len(b)))
        b[pos:pos + len(data)] = data
    elif k == "unlink":
        vfs.pop(e[1], None)
    elif k == "rename":
        if e[1] in vfs:
            vfs[e[2]] = vfs.pop(e[1])
            modes[e[2]] = modes.pop(e[1], 0o644)


def materialise(vfs, modes, d):
    for sub in ("pcap", "index", "snapshot", "state", "converter", "watch"):
        os.makedirs(os.path.join(d, sub), exist_ok=True)
    for r, b in vfs.items():
        pth = os.path.join(d, r)
        os.makedirs(os.path.dirname(pth), exist_ok=True)
        with open(pth, "wb") as f:
            f.write(bytes(b))
        os.chmod(pth, modes.get(r, 0o644))


def alts_until_ack(metas, after):
    """The copies after a crash point up to the first one that acknowledges an API call: the call in
    progress at the crash point may or may not have taken effect (copies made at gates in between
    can be older than their position in the trace)."""
    out = []
    for j in after:
        out.append(j)
        if metas[j][1]["label"].startswith("ack"):
            break
    return out


def trace_states(base, evs, rng, limit):
    """One crash state after every file operation on index/, state/, snapshot/ (and inside writes).
    -> (metas from the markers, states)"""
    metas, points = [], []
    for i, e in enumerate(evs):
        if e[0] == "marker":
            if "snap" in e[1] and "label" in e[1]:
                metas.append((i, e[1]))
            continue
        if e[1].split("/")[0] in ("index", "state", "snapshot") or (e[0] == "rename" and e[2].split("/")[0] in ("index", "state", "snapshot")):
            points.append((i, None))
            if e[0] == "write" and len(e[3]) >= 2:
                points.append((i, rng.randrange(1, len(e[3]))))
    if len(points) > limit:
        cidx = [j for j, (i, _) in enumerate(points) if evs[i][1].endswith(".cidx")]
        keep = set(rng.sample(cidx, min(len(cidx), limit // 5)))
        rest = [j for j in range(len(points)) if j not in keep]
        keep |= set(rng.sample(rest, min(len(rest), limit - len(keep))))
        points = [p for j, p in enumerate(points) if j in keep]
    want = {}
    for i, cut in points:
        want.setdefault(i, []).append(cut)
    states, vfs, modes = [], {}, {}
    crash = os.path.join(base, "tcrash")
    n = 0
    mlist = [m for _, m in metas]
    for i, e in enumerate(evs):
        if e[0] == "marker":
            continue
        for cut in sorted(want.get(i, []), key=lambda c: (c is None, c)):
            if cut is not None:
                v2, m2 = {k: bytearray(v) for k, v in vfs.items()}, dict(modes)
                apply_event(v2, m2, e, cut)
                d = os.path.join(crash, "%05d" % n)
                materialise(v2, m2, d)
                kind, note = "trace-inside-write", "%s: %d of %d bytes at offset %s written" % (e[1], cut, len(e[3]), e[2])
            else:
                continue
            before = [j for j, (pos, _) in enumerate(metas) if pos < i]
            after = [j for j, (pos, _) in enumerate(metas) if pos > i]
            states.append({"dir": d, "meta": before[-1] if before else None, "alt": alts_until_ack(metas, after), "kind": kind, "note": note,
                           "cidx": e[1].endswith(".cidx")})
            n += 1
        apply_event(vfs, modes, e)
        if None in want.get(i, []):
            d = os.path.join(crash, "%05d" % n)
            materialise(vfs, modes, d)
            before = [j for j, (pos, _) in enumerate(metas) if pos < i]
            after = [j for j, (pos, _) in enumerate(metas) if pos > i]
            states.append({"dir": d, "meta": before[-1] if before else None, "alt": alts_until_ack(metas, after), "kind": "trace-after-" + e[0],
                           "note": "after %s %s" % (e[0], " ".join(str(x) for x in e[1:3] if not isinstance(x, (bytes, bytearray)))),
                           "cidx": e[1].endswith(".cidx")})
            n += 1
    return mlist, states


def run_traced(scens):
    """Scenarios under strace (go test -exec). -> list of (base, evs, note)"""
    specs = []
    for si, scen in enumerate(scens):
        base = os.path.join(run_dir(), "t%03d" % si)
        shutil.rmtree(base, ignore_errors=True)
        os.makedirs(base)
        specs.append({"scenario": scen, "dir": base, "out": os.path.join(base, "run.out")})
    sf, log = os.path.join(run_dir(), "tspecs.json"), os.path.join(run_dir(), "strace.log")
    json.dump(specs, open(sf, "w"))
    if os.path.exists(log):
        os.remove(log)
    rc, out, _ = go_test("./internal/index/manager/", overlay(), "^TestVerifC12Run$", {"VERIF_C12_SCEN": sf}, timeout=1500,
                         extra=["-exec", " ".join(STRACE + ["-o", log])])
    res = []
    for sp in specs:
        metas, errs, closed = read_run(sp["out"])
        note = "" if (closed and not errs) else "traced scenario run failed rc=%d %s %s" % (rc, errs[:1], out[-500:])
        evs = trace_events(log, os.path.join(sp["dir"], "live"), sp["out"]) if os.path.exists(log) else []
        res.append((sp["dir"], evs, note))
    return res


# ---------------------------------------------------------------- the direct oracle
def tagview(tags):
    out = {}
    for t in tags or []:
        ismark = t["name"].startswith(("mark/", "generated/"))
        out[t["name"]] = {"def": None if ismark else t["def"], "color": t["color"], "convs": sorted(t["convs"] or []),
                          "marks": sorted(t["matches"] or []) if ismark else None, "referenced": bool(t.get("referenced"))}
    return out


def versions(metas):
    """per stream id the list of payload versions in order of first appearance in memory"""
    v = {}
    for m in metas:
        for k, s in (m.get("streams") or {}).items():
            v.setdefault(k, [])
            if s not in v[k]:
                v[k].append(s)
    return v


def stream_payload(text):
    body = text.split("|", 1)[1] if "|" in text else ""
    return b"".join(bytes.fromhex(c.split(":", 1)[1]) for c in body.split(",") if ":" in c)


def conv_fails(conv, streams, when):
    """converter output (as '<chunks> <bytes> <sha1>') against the deterministic converter of the harness"""
    out = []
    for key, got in sorted((conv or {}).items()):
        cn, sid = key.split(" ")
        text = (streams or {}).get(sid)
        if text is None:
            continue
        content = (b"CONV:" + stream_payload(text) + b";") * 700
        want = "1 %d %s" % (len(content), hashlib.sha1(b"0:" + content).hexdigest())
        if got != want:
            out.append(("converter-output", "%s: output of converter %s for stream %s is %s, the converter gives %s" % (when, cn, sid, got, want)))
    return out[:3]


def diff_keys(a, b):
    ks = [k for k in sorted(set(a) | set(b)) if a.get(k) != b.get(k)]
    return "; ".join("%s: %s -> %s" % (k, a.get(k), b.get(k)) for k in ks[:3])


def judge(state, metas, rec, vers):
    """-> list of (kind, text) failures of the property for this crash state"""
    fails = []
    EMPTY = {"tags": [], "streams": {}, "config": False, "webhooks": [], "indexes": []}
    m = metas[state["meta"]] if state["meta"] is not None else EMPTY
    if rec is None or "end" not in rec:
        return [("new-crashed", "manager.New did not return: %s" % ((rec or {}).get("fatal") or "no output"))]
    r = rec["end"]
    if r["new"] != "ok":
        return [("new-failed", "manager.New: " + r["new"])]
    # tags
    alt = state.get("alt")
    alt = [] if alt is None else (alt if isinstance(alt, list) else [alt])
    want = [tagview(m["tags"])] + [tagview(metas[j]["tags"]) for j in alt]
    got = tagview(r["tags"])
    if got not in want:
        for k in sorted(set(got) | set(want[0])):
            if got.get(k) != want[0].get(k):
                fails.append(("tag", "tag %s: acknowledged %s, after restart %s" % (k, want[0].get(k), got.get(k))))
    alts = [m] + [metas[j] for j in alt]
    if r["config"] not in [x["config"] for x in alts]:
        fails.append(("config", "config: acknowledged %s, after restart %s" % (m["config"], r["config"])))
    if sorted(r["webhooks"] or []) not in [sorted(x["webhooks"] or []) for x in alts]:
        fails.append(("webhooks", "webhooks: acknowledged %s, after restart %s" % (m["webhooks"], r["webhooks"])))
    # streams: every stream visible before the crash is visible under its id in that or a newer version
    for k, s in (m.get("streams") or {}).items():
        g = (r["streams"] or {}).get(k)
        if g is None:
            fails.append(("stream-lost", "stream %s (%s) is gone after restart" % (k, s)))
        elif g != s:
            vs = vers.get(k, [])
            if g not in vs or vs.index(g) < vs.index(s):
                fails.append(("stream-old", "stream %s: before the crash %s, after restart %s" % (k, s, g)))
    # a tag that other definitions reference (main or sub-query reference) is still protected after the restart
    for g in r.get("guards") or []:
        if g["del"] == "ok":
            fails.append(("guard", "after restart DelTag(%s) was accepted although %s reference it" % (g["name"], g["refby"])))
        if g["rename"] == "ok":
            fails.append(("guard", "after restart %s could be renamed although %s reference it" % (g["name"], g["refby"])))
    if r.get("pcaps", 0) < m.get("pcaps", 0):
        fails.append(("pcaps", "known captures: %d before the crash, %d after restart" % (m.get("pcaps", 0), r.get("pcaps", 0))))
    # converter output of every stream matched by a tag the converter is attached to
    fails += conv_fails(r.get("conv"), r["streams"], "after restart")
    # an import after the restart that continues a stream extends it under its id
    cont = state.get("cont")
    if cont and r["settled"]:
        if not r.get("cont_done"):
            fails.append(("continuation", "the import after the restart did not finish"))
        else:
            k = str(cont["id"])
            old, new = (r["streams"] or {}).get(k), (r.get("streams_c") or {}).get(k)
            tail = ",0:" + cont["data"].encode().hex()
            exact = state["kind"] in ("copy:idle", "closed", "capture-being-written")      # nothing was in flight: exactly the old stream plus the new datagram
            if old is not None and (new is None or not (new.startswith(old) and new.endswith(tail)) or (exact and new != old + tail)):
                fails.append(("continuation", "stream %s was %s after the restart; an import continuing its flow made it %s (expected it extended by %s)" % (k, old, new, tail)))
            if state["kind"] in ("copy:idle", "closed") and set(r.get("streams_c") or {}) != set(r["streams"] or {}):
                fails.append(("continuation", "the import continuing stream %s created other streams: ids %s -> %s" % (k, sorted(r["streams"] or {}), sorted(r.get("streams_c") or {}))))
    # second, clean restart
    if state.get("deep") and r.get("new2"):
        if r["new2"] != "ok":
            fails.append(("second-restart", "second manager.New: " + r["new2"]))
        else:
            if tagview(r["tags2"]) != got:
                fails.append(("second-restart", "tags after the second restart %s, after the first %s" % (tagview(r["tags2"]), got)))
            ref = r.get("streams_c") if r.get("cont_done") else r["streams"]
            if (r.get("streams2") or {}) != (ref or {}):
                fails.append(("second-restart", "streams after the second restart differ: %s" % diff_keys(ref or {}, r.get("streams2") or {})))
            if r.get("pcaps2", 0) < r.get("pcaps", 0):
                fails.append(("second-restart", "known captures: %d after the first restart, %d after the second" % (r.get("pcaps", 0), r.get("pcaps2", 0))))
            if r.get("settled2"):
                fails += conv_fails(r.get("conv2"), r.get("streams2"), "after the second restart")
    # convergence: settled, every tag decided, matches = a fresh evaluation of the definition
    if not r["settled"]:
        fails.append(("not-settled", "background jobs did not settle after restart"))
    else:
        for t in r["tags"] or []:
            if t["uncertain"]:
                fails.append(("uncertain", "tag %s still uncertain" % t["name"]))
            elif t.get("fresherr"):
                fails.append(("fresh", "tag %s: definition does not evaluate: %s" % (t["name"], t["fresherr"])))
            else:
                # (ids of streams that do not exist are C06's business: StreamIDs() clips `id:0,1` one too late)
                have = {int(k) for k in (r["streams"] or {})}
                a, b = sorted(set(t["matches"] or []) & have), sorted(set(t["fresh"] or []) & have)
                if a != b:
                    fails.append(("matches", "tag %s (%s): matches %s, fresh evaluation %s" % (t["name"], t["def"], a, b)))
    return fails


def conv_expected(text):
    content = (b"CONV:" + stream_payload(text) + b";") * 700
    return "1 %d %s" % (len(content), hashlib.sha1(b"0:" + content).hexdigest())


def stale_conv_shape(state, metas, rec, vers, fails):
    """The two known findings about converter output that is stale after a crash (a cache entry carries
    no stream version, so after a restart nothing notices).  Common shape: only converter-output
    failures, and every wrong output is the CORRECT output of an OLDER version of that stream.
    Returns KNOWN_STALE      if a readable index file on disk was not yet published in memory (the crash hit
                             an import between finalizing its file and its completion, which invalidates
                             the caches),
            KNOWN_STALE_JOB  if all index files were published but a converter job was in flight at the
                             copy (it converts from the index snapshot taken at its start and its completion,
                             which drops output of streams changed meanwhile, never ran),
            None             otherwise (stale output with nothing in flight, garbage, lost entries)."""
    if not fails or any(k != "converter-output" for k, _ in fails) or state["meta"] is None or rec is None or "end" not in rec:
        return None
    r = rec["end"]
    for conv, streams in ((r.get("conv"), r["streams"]), (r.get("conv2"), r.get("streams2"))):
        for key, got in (conv or {}).items():
            cn, sid = key.split(" ")
            text = (streams or {}).get(sid)
            if text is None or got == conv_expected(text):
                continue
            older = [conv_expected(v) for v in vers.get(sid, []) if v != text]
            if got not in older:
                return None
    m = metas[state["meta"]]
    on_disk = {f["name"] for f in (rec.get("begin", {}).get("index_files") or []) if f["ok"]}
    if on_disk - set(m.get("indexes") or []):
        return KNOWN_STALE
    alt = state.get("alt")
    around = [m] + [metas[j] for j in ([] if alt is None else (alt if isinstance(alt, list) else [alt]))]
    if any(x.get("job_convert") for x in around):
        return KNOWN_STALE_JOB
    return None


def order_defect_shape(state, metas, rec):
    """The known finding: the published index files sorted by name are not in memory order
    (a merged file is named later than an index published after the merge started) and the only
    failures are old stream versions."""
    if state["meta"] is None:
        return False
    m = metas[state["meta"]]
    idx = m.get("indexes") or []
    return idx != sorted(idx)


# ---------------------------------------------------------------- model
def model_case(rec):
    """Case text for the model driver from the scan of a crash directory (names -> ranks in name order)."""
    b = rec["begin"]
    lines = ["D"]
    for rank, f in enumerate(sorted(b["index_files"] or [], key=lambda x: x["name"])):
        ids = sorted((f["streams"] or {}).keys(), key=int)
        lines.append("I %d %d %s" % (rank, 1 if f["ok"] else 0, ",".join("%s:%s" % (k, f["streams"][k].encode().hex()) for k in ids) or "-"))
    for rank, f in enumerate(sorted(b["state_files"] or [], key=lambda x: x["name"])):
        # (accepted = parses AND passes the validation of manager.New; the only parsable files that do not are the ones
        #  this check poisons itself, recognisable by their webhook)
        acc = f["ok"] and "http://127.0.0.1:9/poison" not in (f.get("webhooks") or [])
        lines.append("S %d %d %d" % (rank, 1 if acc else 0, f["saved"] if f["ok"] else 0))
    lines.append("R")
    return "\n".join(lines) + "\n"


def run_model(exe, recs, tag):
    d = run_dir()
    cf, mf = os.path.join(d, "model_%s.txt" % tag), os.path.join(d, "model_%s.out" % tag)
    keys = [k for k in recs if "begin" in recs[k]]
    with open(cf, "w") as f:
        for k in keys:
            f.write(model_case(recs[k]))
    if os.path.exists(mf):
        os.remove(mf)
    rc, out, _ = run([exe, cf, mf], timeout=600)
    res = {}
    if os.path.exists(mf):
        got = [ln.rstrip("\n") for ln in open(mf)]
        for k, ln in zip(keys, got):
            # "streams id:hex,... | state <rank|->"
            a, _, b = ln.partition(" | ")
            st = {}
            body = a[len("streams "):].strip()
            if body and body != "-":
                for kv in body.split(","):
                    i, _, h = kv.partition(":")
                    st[i] = bytes.fromhex(h).decode()
            res[k] = {"streams": st, "state": b[len("state "):].strip()}
    return res, ("" if rc == 0 else "model driver rc=%d: %s" % (rc, out[-500:]))


def model_diff(rec, mres):
    """manager.New vs the model's recover on the same files"""
    if "end" not in rec or rec["end"]["new"] != "ok" or mres is None:
        return None
    r = rec["end"]
    if (r["streams"] or {}) != mres["streams"]:
        ks = [k for k in set(r["streams"] or {}) | set(mres["streams"]) if (r["streams"] or {}).get(k) != mres["streams"].get(k)]
        return "streams differ from the model's recover on %s: impl %s, model %s" % (ks[:3], [(r["streams"] or {}).get(k) for k in ks[:3]], [mres["streams"].get(k) for k in ks[:3]])
    sfs = sorted(rec["begin"]["state_files"] or [], key=lambda x: x["name"])
    if mres["state"] == "-":
        want = {}
    else:
        want = tagview(sfs[int(mres["state"])]["tags"])
    got = tagview(r["tags"])
    # matches of mark tags are re-derived from the definition on load: compare the rest
    strip = lambda tv: {k: {x: y for x, y in v.items() if x not in ("marks", "referenced")} for k, v in tv.items()}
    if strip(got) != strip(want):
        return "tags differ from the state file the model selects (%s): impl %s, file %s" % (mres["state"], strip(got), strip(want))
    return None


# ---------------------------------------------------------------- main
def load_corpus():
    cdir = os.path.join(ROOT, "corpus", PROP)
    out = []
    if os.path.isdir(cdir):
        for fn in sorted(os.listdir(cdir)):
            if fn.endswith(".json"):
                out.append(json.load(open(os.path.join(cdir, fn))))
    return out


def main(tier, seed, replay=None):
    t0 = time.time()
    proof = Proof(PROP, tier=tier)
    exe, _ = build_model(PROP, "ExtractC12.v", os.path.join(ROOT, "ocaml/c12"), ["theories/Persist.v"])
    rng = random.Random(seed)
    known, fixed = known_findings(PROP)
    known_ids = {k.get("id") for k in known}
    if replay:
        scens = [json.load(open(replay))["scenario"]]
    else:
        scens = load_corpus() + [scen_tags(), scen_converters(), scen_snapshot(), scen_mark_digits()]      # corpus/C12: merge-shadow, mark-text, convert-job
        nrand = 8 if tier == "quick" else 40
        scens += [gen_scenario(rng, k) for k in range(nrand)]
    cuts = 2 if tier == "quick" else 4
    nviol, nstates, kinds, known_hits, examined = 0, 0, {}, [], 0
    notes, samples = [], []
    reported = set()
    runs = run_scenarios(scens)
    log("C12: scenarios run %.0fs" % (time.time() - t0))
    all_states, per = [], []
    for si, scen in enumerate(scens):
        base, metas, note = runs[si]
        if note:
            notes.append("%s: %s" % (scen["name"], note))
        states = derive(base, metas, rng, cuts) if metas else []
        per.append((scen, base, metas, states))
        all_states += states
    # the same scenarios (a few of them in the quick tier) under a system call trace: one crash state
    # after every file operation and inside writes, as the implementation really performs them
    tscens = scens if (replay or tier != "quick") else scens[:4]       # corpus + tags + converters
    for (scen, (base, evs, note)) in zip(tscens, run_traced(tscens)):
        if note:
            notes.append("%s: %s" % (scen["name"], note))
        metas, states = trace_states(base, evs, rng, 110 if tier == "quick" else 250)
        if not states and not note:
            notes.append("%s: the system call trace yielded no file operation (strace output not understood)" % scen["name"])
        per.append((scen, base, metas, states))
        all_states += states
    for scen, base, metas, states in per:
        tmax = max([p["t"] for st in scen["steps"] for p in st.get("packets", [])] or [0])
        snap = ([st.get("n", 0) for st in scen["steps"] if st["op"] == "snapevery"] or [0])[-1]
        for s in states:
            s["snap"] = snap
            m = metas[s["meta"]] if s["meta"] is not None else None
            ids = sorted((m or {}).get("streams") or {}, key=int)
            if scen.get("cont_stream") is not None and str(scen["cont_stream"]) in ids:
                ids = [str(scen["cont_stream"])]
            if ids:
                # a packet that continues the flow of the oldest visible stream
                flow = m["streams"][ids[0]].split("|", 1)[0]
                if ">" in flow:
                    c, sv = flow.split(">")
                    s["cont"] = {"c": c, "s": sv, "t": tmax + 1, "data": "ZZ", "id": int(ids[0])}
            s["deep"] = (tier != "quick" and rng.random() < 0.3) or s["kind"] in ("copy:idle", "copy:gate import.done", "copy:gate convert.done", "copy:gate convert.start", "copy:gate merge.done", "torn-cidx", "capture-being-written", "invalid-newer-state") \
                or bool(s.get("cidx")) or rng.random() < 0.1
            if not s["deep"]:
                s.pop("cont", None)
    if tier == "quick" and not replay and len(all_states) > QUICK_STATES:
        # fixed budget for the quick tier (recovery costs ~25 ms per state): keep every copy and every
        # traced state of the corpus scenarios, sample the rest
        prio = lambda s: s["kind"].startswith("copy") or s["kind"] in ("torn-cidx", "capture-being-written") or s.get("cidx") or (s["kind"] == "invalid-newer-state" and rng.random() < 0.35)
        keep = [s for s in all_states if prio(s)]
        rest = [s for s in all_states if not prio(s)]
        rng.shuffle(rest)
        chosen = set(id(s) for s in keep + rest[:max(0, QUICK_STATES - len(keep))])
        for s in all_states:
            if id(s) not in chosen:
                shutil.rmtree(s["dir"], ignore_errors=True)
        all_states = [s for s in all_states if id(s) in chosen]
        per = [(scen, base, metas, [s for s in states if id(s) in chosen]) for scen, base, metas, states in per]
    for st in all_states:
        if "src" in st:
            clone(st["src"], st["dir"])
            if st["mutate"]:
                st["mutate"](st["dir"])
            st.pop("src")
            st.pop("mutate")
    log("C12: %d crash states prepared %.0fs" % (len(all_states), time.time() - t0))
    recs, rnote = recover_all(all_states, "all")
    log("C12: recovered %.0fs" % (time.time() - t0))
    if rnote:
        notes.append(rnote)
    mres, mnote = run_model(exe, {s["dir"]: recs.get(s["dir"], {}) for s in all_states if s["dir"] in recs}, "all")
    if mnote:
        notes.append(mnote)
    for scen, base, metas, states in per:
        vers = versions(metas)
        for s in states:
            nstates += 1
            kinds[s["kind"].split(":")[0]] = kinds.get(s["kind"].split(":")[0], 0) + 1
            rec = recs.get(s["dir"])
            if rec is not None and rec.get("skipped"):
                continue
            fails = judge(s, metas, rec, vers)
            md = model_diff(rec, mres.get(s["dir"])) if rec else None
            if replay:
                print(s["kind"], s["note"], "->", fails or "ok", "| model:", md or "agrees")
            if not fails and not md:
                continue
            examined += 1
            if fails and all(k == "stream-old" for k, _ in fails) and order_defect_shape(s, metas, rec):
                if KNOWN_ORDER in known_ids:
                    if KNOWN_ORDER not in reported:
                        print("KNOWN-FINDING: property=C12 id=%s scenario=%s %s" % (KNOWN_ORDER, scen["name"], fails[0][1]), flush=True)
                        reported.add(KNOWN_ORDER)
                    known_hits.append(scen["name"])
                    continue
            kf = stale_conv_shape(s, metas, rec, vers, fails)
            if kf and kf in known_ids:
                if kf not in reported:
                    print("KNOWN-FINDING: property=C12 id=%s scenario=%s state=%s %s" % (kf, scen["name"], s["kind"].replace(" ", "-"), fails[0][1]), flush=True)
                    reported.add(kf)
                known_hits.append(scen["name"])
                continue
            key = (scen["name"], fails[0][0] if fails else "model")
            if key in reported:
                continue
            reported.add(key)
            m = metas[s["meta"]] if s["meta"] is not None else {"label": "(before the first copy)", "step": -1, "indexes": []}
            obj = {"property": PROP, "scenario": scen, "crash_state": {"kind": s["kind"], "note": s["note"], "copy": m["label"], "step": m["step"],
                                                                         "memory_index_order": m.get("indexes"), "files": sorted(x["name"] for x in (rec or {}).get("begin", {}).get("index_files", []) or [])},
                   "failures": [t for _, t in fails][:8], "model": md, "seed": seed, "replay_cmd": "bin/check C12 --replay <this file>"}
            if fails:
                violation(PROP, obj)
            else:
                obj["broken"] = "correspondence: manager.New satisfies the direct oracle on this crash state but differs from the extracted model recover (theories/Persist.v)"
                violation(PROP, obj, no_input=True)
            nviol += 1
        if len(samples) < 2:
            samples.append({"scenario": scen["name"], "states": len(states), "copies": len(metas)})
    if notes and nviol == 0:
        violation(PROP, {"property": PROP, "broken": "correspondence harness could not run against this tree", "notes": notes[:5]}, no_input=True)
        nviol += 1
    if not proof.good() and nviol == 0:
        violation(PROP, {"property": PROP, "broken": proof.failure_text(), "searched_states": nstates}, no_input=True)
        nviol += 1
    cov = proof.coverage()
    cov.update({
        "trusted_base": TRUSTED_COMMON + [
            "OS: create / write / close / remove of a regular file are atomic and take effect in program order for a process kill (no power failure, no fsync reasoning); the 232-byte header write of an index file is atomic; os.ReadDir lists names in byte order",
            "the wall clock used by tools.MakeFilename is monotone (also across restarts) and at most 10 files are named within one millisecond",
            "crash states between the file operations inside one service-loop closure (state save, removal of merged inputs) are derived from the copies along the step model, not observed",
            "index / snapshot / pcap file formats: only 'readable or not' and the stream payloads are compared (C01); converter cache files: C15"],
        "evaluations": nstates,
        "distinct_nontrivial": nstates,
        "rule": "3 fixed scenarios (known merge/import interleaving, every kind of tag/config/webhook call with converters, mark tags with unusual definitions) + seeded random scenarios (imports extending old flows, tag calls, jobs parked at random gates); one crash state per directory copy (every gate arrival, every acknowledged call, every idle point, clean Close) plus derived states; every state recovered by manager.New in a fresh process; non-trivial = every state (each has at least one index or state file)",
        "scenarios": len(scens), "crash_states": nstates, "state_kinds": kinds, "known_finding_hits": known_hits,
        "disagreements_examined": examined, "samples": samples, "notes": notes[:5],
    })
    cov["fixed_findings"] = fixed
    cov["known_findings"] = [k["text"] for k in known]
    shutil.rmtree(run_dir(), ignore_errors=True)
    write_evidence(PROP, tier, seed, cov,
                   ["process kill, not power failure", "monotone wall clock", "file operations atomic and ordered"],
                   time.time() - t0, nviol)
    return 1 if nviol else 0
