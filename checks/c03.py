"""C03 -- query normalisation never changes what a query means.

Coq: theories/Query.v (model of internal/query/conditions.go), QueryProofs.v, props/C03.v.
Tie: generated query texts -> Go harness (harness/c03, overlay in package query) which
  * dumps the participle parse tree with value-parsed atoms (neutral surface tree),
  * runs query.Parse and evaluates the returned normal form on critical valuations,
  * evaluates the surface tree with the reference semantics `sem` (direct oracle of the property),
and the extracted Coq model, which reads the dumped tree + valuations and computes `sem` and
`eval (clean (norm tree))` itself.  Compared three ways on every valuation:
    impl (normal form of the Go code)  =  sem (Go oracle on the text as written)  =  model.
"""
import json
import os
import random
import time

from vplib import *

PROP = "C03"
HARNESS = {"internal/query/zz_verif_c03_test.go": os.path.join(ROOT, "harness/c03/zz_verif_c03_test.go")}
EXTRACT = "ExtractC03.v"
MODEL_DEPS = ["theories/Query.v"]

# ------------------------------------------------------------------ generator
NUMS = [0, 1, 2, 5, 80, 81, 100, 443, 1000, 65535]
NUMKEYS = ["id", "cport", "sport", "port", "cbytes", "sbytes", "bytes"]
NUMVARS = ["id", "cport", "sport", "cbytes", "sbytes"]
HOSTS4 = ["1.2.3.4", "1.2.3.5", "1.2.4.4", "10.0.0.1", "10.1.2.3", "192.168.0.1"]
HOSTS6 = ["::1", "fe80::1", "fe80::2", "2001:db8::1", "2001:db8:1::1"]
MASKS = ["", "", "", "/8", "/16", "/24", "/31", "/32", "/-8", "/-1", "/0", "/64", "/128", "/-64", "/16/-8",
         "/20", "/12", "/27", "/-12", "/-3", "/9", "/61", "/-61", "/100", "/-20", "/12/-4", "/1"]
# prefix / suffix lengths beyond 32 bits: the same IPv4 mask, different IPv6 masks
MASKS6 = ["/33", "/40", "/48", "/56", "/63", "/64", "/65", "/96", "/120", "/127", "/128", "/-33", "/-40", "/-64", "/-100", "/40/-8", "/64/-33", "/32", "/24"]
# values with doubled quotes outside a quoted value, the empty quoted value, quoted values made of quotes
QUOTEVALS = ['a""b', 'x""', 'y""""z', 'a""', 'q""r""s', 'x"y', 'x"', '""', '""', '"a""b"', '"x"""', '"x""""y"', '" "']
TAGKEYS = ["tag", "service", "mark", "generated"]
TAGS = ["a", "b", "c"]
PROTOS = ["tcp", "udp", "sctp", "other"]
DURS = ["5m", "1h", "30s", "1h30m", "0s", "1ms", "2h", "1.5s", "500ms", "250us", ".5h", "2m3.25s"]
ABST = ['2024-01-02 1504', '2024-01-02 150405', '2030-06-01 0000', '2024-01-02 1505']
REGEX = ["x", "y", "z", "foo", "a b", "x+", "[0-9]", 'say "hi"', "a=b:c"]
CONVS = ["", "", "", "", ".b64", ".gz"]
SUBS = ["a", "b"]


def g_numpart(rng, key, vars_ok, sub_ok):
    """one bound: sum of +- numbers / variables"""
    n = 1 if rng.random() < 0.7 else rng.randrange(2, 5)
    out = ""
    for i in range(n):
        op = ""
        if i > 0 or rng.random() < 0.15:
            op = rng.choice(["+", "-", "+", "--", "+-"]) if i > 0 else rng.choice(["-", "+", "--"])
        if vars_ok and rng.random() < 0.35:
            v = rng.choice(NUMVARS)
            s = (rng.choice(SUBS) + ":") if (sub_ok and rng.random() < 0.6) else ""
            out += op + "@" + s + v + "@"
        else:
            out += op + str(rng.choice(NUMS))
    return out


def g_numfactor(rng, sub_ok):
    """a bound whose variable factors share a divisor g after the filter's own attribute is subtracted:
    the own variable g+1 (or 1-g) times, other variables a multiple of g times, a constant that is usually no
    multiple of g, positive or negative (the simplifier divides by common factors: rounding must not change anything)"""
    key = rng.choice(["id", "cport", "sport", "cbytes", "sbytes"])
    g = rng.choice([2, 2, 3, 4])
    own_sub = ""
    parts = []
    k = rng.choice([g + 1, g + 1, 2 * g + 1, 1 - g] if g > 2 else [3, 3, 5, -1])
    parts += [("+" if k > 0 else "-") + "@" + key + "@"] * abs(k)
    others = [x for x in NUMVARS if x != key]
    for vname in rng.sample(others, rng.choice([1, 1, 2])):
        sub = (rng.choice(SUBS) + ":") if (sub_ok and rng.random() < 0.4) else ""
        m = g * rng.choice([1, 1, 2])
        parts += [rng.choice(["+", "-"]) + "@" + sub + vname + "@"] * m
    if rng.random() < 0.9:
        parts.append(rng.choice(["+", "-"]) + str(rng.choice([1, 3, 5, 7, 2, 9, 10, 0])))
    rng.shuffle(parts)
    b = "".join(parts)
    if b.startswith("+"):
        b = b[1:]
    r = rng.random()
    if r < 0.3:
        v = b + ":"
    elif r < 0.6:
        v = ":" + b
    elif r < 0.8:
        v = b
    else:
        v = b + ":" + b.replace("-1", "-2") if False else b + ":" + str(rng.choice(NUMS))
    return key + ":" + v


def g_num(rng, vars_ok, sub_ok):
    if vars_ok and rng.random() < 0.25:
        return g_numfactor(rng, sub_ok)
    key = rng.choice(NUMKEYS)
    items = []
    for _ in range(1 if rng.random() < 0.7 else rng.randrange(2, 4)):
        r = rng.random()
        v = vars_ok and rng.random() < 0.4
        if r < 0.45:
            items.append(g_numpart(rng, key, v, sub_ok))
        elif r < 0.7:
            items.append(g_numpart(rng, key, v, sub_ok) + ":" + g_numpart(rng, key, v, sub_ok))
        elif r < 0.82:
            items.append(g_numpart(rng, key, v, sub_ok) + ":")
        elif r < 0.94:
            items.append(":" + g_numpart(rng, key, v, sub_ok))
        else:
            items.append(":")
    return key + ":" + ",".join(items)


def g_timepart(rng, vars_ok, sub_ok):
    r = rng.random()
    if vars_ok and r < 0.3:
        s = (rng.choice(SUBS) + ":") if (sub_ok and rng.random() < 0.6) else ""
        return "@" + s + rng.choice(["ftime", "ltime"]) + "@" + rng.choice(["", "+", "-"]).replace("+", "+" + rng.choice(DURS)).replace("-", "-" + rng.choice(DURS))
    if r < 0.75:
        return rng.choice(["-", "+", "-", ""]) + rng.choice(DURS)
    t = rng.choice(ABST)
    if rng.random() < 0.3:
        t += rng.choice(["+", "-"]) + rng.choice(DURS)
    return t


def g_time(rng, vars_ok, sub_ok):
    key = rng.choice(["ftime", "ltime", "time"])
    items = []
    for _ in range(1 if rng.random() < 0.8 else 2):
        r = rng.random()
        if r < 0.3:
            items.append(g_timepart(rng, vars_ok, sub_ok))
        elif r < 0.6:
            items.append(g_timepart(rng, vars_ok, sub_ok) + ":" + g_timepart(rng, vars_ok, sub_ok))
        elif r < 0.8:
            items.append(g_timepart(rng, vars_ok, sub_ok) + ":")
        else:
            items.append(":" + g_timepart(rng, vars_ok, sub_ok))
    v = ",".join(items)
    if " " in v:
        return key + ':"' + v + '"'
    return key + ":" + v


def g_host(rng, vars_ok, sub_ok):
    key = rng.choice(["chost", "shost", "host"])
    items = []
    for _ in range(1 if rng.random() < 0.7 else rng.randrange(2, 4)):
        if vars_ok and rng.random() < 0.3:
            s = (rng.choice(SUBS) + ":") if (sub_ok and rng.random() < 0.6) else ""
            h = "@" + s + rng.choice(["chost", "shost"]) + "@"
        else:
            h = rng.choice(HOSTS4 if rng.random() < 0.65 else HOSTS6)
        items.append(h + rng.choice(MASKS))
    return key + ":" + ",".join(items)


def g_hostvars(rng, sub_ok):
    """two or three host filters on the SAME pair of host variables under different masks (most of them longer than
    32 bits: equal IPv4 masks, different IPv6 masks), plain or negated, in one conjunct or one disjunction"""
    key = rng.choice(["chost", "shost", "chost", "shost", "host"])
    s = (rng.choice(SUBS) + ":") if (sub_ok and rng.random() < 0.4) else ""
    var = "@" + s + ({"chost": "shost", "shost": "chost"}.get(key, rng.choice(["chost", "shost"])) if not s or rng.random() < 0.7 else rng.choice(["chost", "shost"])) + "@"
    masks = rng.sample(MASKS6, rng.choice([2, 2, 2, 3])) if rng.random() < 0.85 else [rng.choice(MASKS6), rng.choice(MASKS)]
    kids = []
    for m in masks:
        a = ("atom", key + ":" + var + m)
        kids.append(("not", a) if rng.random() < 0.5 else a)
    return (("and" if rng.random() < 0.8 else "or"), kids)


def g_proto(rng, vars_ok, sub_ok):
    items = []
    for _ in range(1 if rng.random() < 0.7 else rng.randrange(2, 4)):
        if vars_ok and rng.random() < 0.3:
            s = (rng.choice(SUBS) + ":") if (sub_ok and rng.random() < 0.6) else ""
            items.append("@" + s + "protocol@")
        else:
            items.append(rng.choice(PROTOS))
    return "protocol:" + ",".join(items)


def g_tag(rng):
    if rng.random() < 0.03:
        return rng.choice(TAGKEYS[:2]) + ":" + rng.choice(['a""b', 'a""', 'b"c', '"a""b"', '"a"""'])
    n = 1 if rng.random() < 0.75 else 2
    k = rng.choice(TAGKEYS[:2] if rng.random() < 0.8 else TAGKEYS)
    if n == 2 and rng.random() < 0.2:
        return k + ':"' + rng.choice(TAGS) + " , " + rng.choice(TAGS) + '"'
    return k + ":" + ",".join(rng.choice(TAGS) for _ in range(n))


def g_data(rng):
    key = rng.choice(["cdata", "sdata", "data", "cdata", "sdata"])
    rx = rng.choice(REGEX[:4] if rng.random() < 0.8 else REGEX)
    conv = rng.choice(CONVS)
    if rng.random() < 0.07:
        # written as is: the lexer decides what is a quoted value (only one enclosed in quotes is un-doubled)
        return key + conv + ":" + rng.choice(QUOTEVALS)
    if " " in rx or '"' in rx or rng.random() < 0.3:
        return key + conv + ':"' + rx.replace('"', '""') + '"'
    return key + conv + ":" + rx


def g_atom(rng, regime):
    vars_ok = regime in ("vars", "subq")
    sub_ok = regime == "subq"
    kinds = {"easy": ["num"] * 4 + ["proto", "tag", "tag", "host", "host", "time", "time"],
             "data": ["data"] * 6 + ["num", "tag", "proto"],
             "mixed": ["num"] * 3 + ["proto", "tag", "host", "time"] + ["data"] * 4,
             "vars": ["num"] * 4 + ["proto", "host", "time", "time", "tag", "data"],
             "subq": ["num"] * 4 + ["proto", "host", "time", "tag"]}[regime]
    k = rng.choice(kinds)
    if vars_ok and rng.random() < 0.05:
        return g_hostvars(rng, sub_ok)
    if k == "num":
        t = g_num(rng, vars_ok, sub_ok)
    elif k == "time":
        t = g_time(rng, vars_ok, sub_ok)
    elif k == "host":
        t = g_host(rng, vars_ok, sub_ok)
    elif k == "proto":
        t = g_proto(rng, vars_ok, sub_ok)
    elif k == "tag":
        t = g_tag(rng)
    else:
        t = g_data(rng)
    if sub_ok and k != "data" and rng.random() < 0.3:
        t = "@" + rng.choice(SUBS) + ":" + t
    if regime != "data" and rng.random() < 0.02:
        t = rng.choice(["sort:id", "limit:10", "sort:-ftime"])
    return ("atom", t)


def g_expr(rng, depth, regime):
    if depth <= 0 or rng.random() < 0.22:
        return g_atom(rng, regime)
    r = rng.random()
    if r < 0.25:
        return ("not", g_expr(rng, depth - 1, regime))
    n = 2 if rng.random() < 0.75 else 3
    kids = [g_expr(rng, depth - 1, regime) for _ in range(n)]
    if r < 0.5:
        return ("and", kids)
    if r < 0.72:
        return ("or", kids)
    if regime in ("data", "mixed") or r < 0.8:
        return ("then", kids)
    return ("and", kids)


PREC = {"or": 1, "and": 2, "then": 3, "not": 4, "atom": 5}


def render(e, rng=None):
    """text of a generator tree; parentheses only where the grammar needs them (plus a few redundant ones)"""
    def r(e, need):
        k = e[0]
        if k == "atom":
            s = e[1]
        elif k == "not":
            s = ("-" if rng is None or rng.random() < 0.8 else "!") + r(e[1], 4)
        else:
            sep = {"or": " or ", "and": " ", "then": " then "}[k]
            if k == "and" and rng is not None and rng.random() < 0.3:
                sep = " and "
            if rng is not None and rng.random() < 0.15:
                sep = sep.upper()
            s = sep.join(r(c, PREC[k] + 1 if k != "or" else 2) for c in e[1])
        if PREC[k] < need or (rng is not None and k != "atom" and rng.random() < 0.05):
            s = "(" + s + ")"
        return s
    return r(e, 1)


def shrinks(e):
    """one-step reductions of a generator tree"""
    k = e[0]
    if k == "atom":
        t = e[1]
        key, _, val = t.partition(":")
        if "," in val and not val.startswith('"'):
            parts = val.split(",")
            for i in range(len(parts)):
                yield ("atom", key + ":" + ",".join(parts[:i] + parts[i + 1:]))
        return
    if k == "not":
        yield e[1]
        for s in shrinks(e[1]):
            yield ("not", s)
        return
    kids = e[1]
    for c in kids:
        yield c
    if len(kids) > 2:
        for i in range(len(kids)):
            yield (k, kids[:i] + kids[i + 1:])
    for i, c in enumerate(kids):
        for s in shrinks(c):
            yield (k, kids[:i] + [s] + kids[i + 1:])


def size(e):
    if e[0] == "atom":
        return 1 + e[1].count(",")
    if e[0] == "not":
        return 1 + size(e[1])
    return 1 + sum(size(c) for c in e[1])


def dnf_form(e, worst):
    """(n, c): upper bound of the number of conjuncts / of conditions per conjunct of the (uncleaned)
    normal form the code builds for e; worst[0] collects the largest n of any sub-expression.
    Negation multiplies: NOT of n conjuncts with c conditions each has up to c^n conjuncts (exponential
    by construction of the normal form, see C14); the C03 generator stays where every intermediate
    form is of moderate size."""
    k = e[0]
    if k == "atom":
        t = e[1]
        if t.startswith("@"):
            t = t.split(":", 1)[1]
        key = t.split(":", 1)[0].split(".", 1)[0].lower()
        val = t.split(":", 1)[1] if ":" in t else ""
        items = val.count(",") + 1
        if key in ("sort", "limit", "group"):
            return 0, 0
        two = 2 if key in ("port", "bytes", "host", "data") else 1
        c = {"protocol": 3, "tag": 1, "service": 1, "mark": 1, "generated": 1, "chost": 1, "shost": 1, "host": 1,
             "cdata": 1, "sdata": 1, "data": 1}.get(key, 2)
        r = (items * two, c)
    elif k == "not":
        n, c = dnf_form(e[1], worst)
        # every condition inverts to one conjunct (a protocol condition to one with 3, a sequence of l to l)
        r = ((10 ** 9 if (n > 40 and c > 1) else min(10 ** 9, max(c, 1) ** n)) if n else 0, max(n, 3))
    else:
        fs = [f for f in (dnf_form(c, worst) for c in e[1]) if f[0]]
        if not fs:
            r = (0, 0)
        elif k == "or":
            r = (min(10 ** 9, sum(f[0] for f in fs)), max(f[1] for f in fs))
        else:
            n = 1
            for f in fs:
                n = min(10 ** 9, n * f[0])
            # THEN concatenates sequences pairwise inside a conjunct
            cc = sum(f[1] for f in fs) if k == "and" else max(1, sum(f[1] for f in fs)) * 2
            r = (n, cc)
    worst[0] = max(worst[0], r[0])
    return r


def g_simple(e):
    if e[0] in ("not", "then"):
        return False
    return e[0] == "atom" or all(g_simple(c) for c in e[1])


def g_wf(e, tail=True):
    """the fragment in which NOT inside a sequence has an unambiguous meaning (same predicate as vWf in the
    harness, which decides; this one only steers the generator)"""
    if e[0] == "atom":
        return True
    if e[0] == "not":
        return g_wf(e[1], True) and (tail or g_simple(e[1]))
    if e[0] == "then":
        multi = False
        for i, c in enumerate(e[1]):
            if not g_wf(c, tail and i == len(e[1]) - 1):
                return False
            if i > 0 and multi and not g_notsoronly(c):
                return False
            multi = multi or g_multiend(c)
        return True
    if e[0] == "and" and not tail and not all(g_nothen(c) for c in e[1]):
        return False
    return all(g_wf(c, tail) for c in e[1])


def g_dataends(e):
    if e[0] == "atom":
        t = e[1]
        if t.startswith("@"):
            t = t.split(":", 1)[1]
        return 1 if t.split(":", 1)[0].split(".", 1)[0].split("=", 1)[0].lower() in ("cdata", "sdata", "data") else 0
    if e[0] == "not":
        return 0
    if e[0] == "or":
        return max(g_dataends(c) for c in e[1])
    return sum(g_dataends(c) for c in e[1])


def g_multiend(e):
    if e[0] == "and":
        return g_dataends(e) >= 2
    if e[0] in ("or", "then"):
        return any(g_multiend(c) for c in e[1])
    return False


def g_oronly(e):
    if e[0] == "atom":
        return True
    return e[0] == "or" and all(g_oronly(c) for c in e[1])


def g_notsoronly(e):
    if e[0] == "atom":
        return True
    if e[0] == "not":
        return g_oronly(e[1])
    return all(g_notsoronly(c) for c in e[1])


def g_nothen(e):
    if e[0] == "atom":
        return True
    if e[0] == "not":
        return g_nothen(e[1])
    return e[0] != "then" and all(g_nothen(c) for c in e[1])


def g_seq(rng, depth):
    """sequences of groups of payload filters, negated ones included (regime seq)"""
    def lit():
        a = ("atom", g_data(rng)) if rng.random() < 0.85 else ("atom", g_tag(rng))
        return ("not", a) if rng.random() < 0.4 else a

    def group(d):
        r = rng.random()
        if d <= 0 or r < 0.4:
            return lit()
        if r < 0.7:
            return ("and", [group(d - 1) for _ in range(rng.choice([2, 2, 3]))])
        if r < 0.85:
            return ("or", [group(d - 1) for _ in range(2)])
        return ("then", [group(d - 1) for _ in range(rng.choice([2, 3]))])
    e = ("then", [group(depth - 1) for _ in range(rng.choice([2, 3, 3, 4]))])
    if rng.random() < 0.2:
        e = ("not", e)
    if rng.random() < 0.2:
        e = ("and", [e, lit()])
    return e


def max_cost(e):
    worst = [0]
    dnf_form(e, worst)
    return worst[0]


# ------------------------------------------------------------------ the text as written: the checker's own value parser
# The oracle never takes a parsed value from the code under test: what a filter text means (lists, ranges, +- parts,
# variables, /n host masks for both address families, durations, absolute times, both directions of data:) is computed
# here, from the text the generator wrote. The Go harness only adds what needs the run-time context (distance of an
# absolute time to the query's reference time, ids of payload elements).
import base64
import ipaddress
import re as _re

_UNIT_NS = {"ns": 1, "us": 1000, "\u00b5s": 1000, "\u03bcs": 1000, "ms": 10 ** 6, "s": 10 ** 9, "m": 60 * 10 ** 9, "h": 3600 * 10 ** 9}
_DUR = _re.compile(r"(\d+\.\d+|\.?\d+)(ns|us|\u00b5s|\u03bcs|ms|s|m|h)")
_VAR = _re.compile(r"@(?:([a-z0-9]+):)?([a-z0-9]+)@", _re.I)


def _b64(bs):
    return base64.b64encode(bytes(bs)).decode()


def spec_mask(nbits_list, width):
    """prefix lengths: /n keeps the first n bits, /-n the last n bits; several suffixes add up"""
    bits = [0] * width
    for n in nbits_list:
        if n > 0:
            for i in range(min(n, width)):
                bits[i] ^= 1
        elif n < 0:
            for i in range(width - min(-n, width), width):
                bits[i] ^= 1
    out = []
    for i in range(0, width, 8):
        b = 0
        for j in range(8):
            b = (b << 1) | bits[i + j]
        out.append(b)
    return out


def _split_top(text, sep):
    """split at sep outside of @...@ variables"""
    out, cur, invar = [], "", False
    for ch in text:
        if ch == "@":
            invar = not invar
        if ch == sep and not invar:
            out.append(cur)
            cur = ""
        else:
            cur += ch
    out.append(cur)
    return out


def _split_sub(t):
    sub = ""
    m = _re.match(r"@([a-z0-9]+):", t, _re.I)
    if m:
        sub, t = m.group(1), t[m.end():]
    return sub, t


def _value(v):
    if len(v) >= 2 and v.startswith('"') and v.endswith('"'):
        return v[1:-1].replace('""', '"')
    return v


def _parts(text, time_):
    """+- sum of numbers / durations / absolute times / variables -> list of parts"""
    parts, i = [], 0
    while i < len(text):
        j = i
        while j < len(text) and text[j] in "+-":
            j += 1
        neg = text[i:j].count("-") % 2 == 1
        rest = text[j:]
        m = _VAR.match(rest)
        if m:
            parts.append({"neg": neg, "isvar": True, "num": 0, "vsub": m.group(1) or "", "vname": m.group(2)})
            i = j + m.end()
            continue
        if time_:
            m = _re.match(r"(\d{4})-(\d\d)-(\d\d) +(\d\d)(\d\d)(\d\d)?", rest)
            if m:
                parts.append({"neg": neg, "isvar": False, "isabs": True, "num": 0, "vsub": "", "vname": "",
                              "abst": [int(m.group(1)), int(m.group(2)), int(m.group(3)), int(m.group(4)), int(m.group(5)), int(m.group(6) or 0)]})
                i = j + m.end()
                continue
            ns, k = 0, 0
            while True:
                m = _DUR.match(rest, k)
                if not m:
                    break
                num = m.group(1)
                unit = _UNIT_NS[m.group(2)]
                if "." in num:
                    a, b = num.split(".")
                    ns += int(a or "0") * unit + (int(b) * unit) // (10 ** len(b))
                else:
                    ns += int(num) * unit
                k = m.end()
            if k == 0:
                raise ValueError("time part: " + rest)
            parts.append({"neg": neg, "isvar": False, "num": ns, "vsub": "", "vname": ""})
            i = j + k
            continue
        m = _re.match(r"\d+", rest)
        if not m:
            raise ValueError("number part: " + rest)
        parts.append({"neg": neg, "isvar": False, "num": int(m.group(0)), "vsub": "", "vname": ""})
        i = j + m.end()
    return parts


def spec_atom(text):
    """-> spec of one filter text (same JSON shape as the harness' neutral tree)"""
    sub, t = _split_sub(text)
    m = _re.match(r"([a-z]+)(?:\.([^:=]+))?[:=](.*)$", t, _re.I | _re.S)
    if not m:
        raise ValueError(text)
    key, conv, val = m.group(1).lower(), m.group(2) or "", _value(m.group(3))
    if key in ("sort", "limit", "group"):
        return {"op": "skip"}
    a = {"key": key, "sub": sub}
    if key in ("tag", "service", "mark", "generated"):
        a.update(kind="tag", tags=[key + "/" + x.strip() for x in val.split(",")])
    elif key == "protocol":
        items = []
        for x in val.split(","):
            x = x.strip()
            m = _VAR.fullmatch(x)
            if m:
                items.append({"isvar": True, "tok": 0, "vsub": m.group(1) or ""})
            else:
                items.append({"isvar": False, "tok": {"other": 0, "tcp": 1, "udp": 2, "sctp": 3}[x.lower()], "vsub": ""})
        a.update(kind="proto", protos=items)
    elif key in ("chost", "shost", "host"):
        items = []
        for x in val.split(","):
            x = x.strip()
            segs = x.split("/")
            masks = [int(z) for z in segs[1:]]
            m4 = spec_mask(masks, 32) if masks else [255] * 4
            m6 = spec_mask(masks, 128) if masks else [255] * 16
            m = _VAR.fullmatch(segs[0])
            if m:
                items.append({"isvar": True, "ip": None, "vsub": m.group(1) or "", "vname": m.group(2).lower(), "m4": _b64(m4), "m6": _b64(m6)})
            else:
                items.append({"isvar": False, "ip": _b64(ipaddress.ip_address(segs[0]).packed), "vsub": "", "vname": "", "m4": _b64(m4), "m6": _b64(m6)})
        a.update(kind="host", hosts=items)
    elif key in ("id", "cport", "sport", "port", "cbytes", "sbytes", "bytes", "ftime", "ltime", "time"):
        time_ = key.endswith("time")
        ranges = []
        for item in val.split(","):
            bounds = _split_top(item, ":")
            if len(bounds) > 2:
                raise ValueError("range: " + item)
            ranges.append([{"parts": _parts(b.strip(), time_)} for b in bounds])
        a.update(kind="time" if time_ else "num", ranges=ranges)
    elif key in ("cdata", "sdata", "data"):
        a.update(kind="data", regex=val, conv=conv)
    else:
        raise ValueError("key " + key)
    return {"op": "atom", "atom": a}


def spec_tree(e):
    """spec of a generator tree"""
    if e[0] == "atom":
        return spec_atom(e[1])
    if e[0] == "not":
        return {"op": "not", "kids": [spec_tree(e[1])]}
    return {"op": e[0], "kids": [spec_tree(c) for c in e[1]]}


# ------------------------------------------------------------------ execution
def tree_spec(tr):
    try:
        return spec_tree(tr) if tr is not None else None
    except Exception:
        return None


def run_dir():
    """one directory (and overlay file) per checking process: concurrent runs never share files"""
    import atexit
    import shutil
    d = os.path.join(BUILD, "run", "c03", "p%d" % os.getpid())
    if not os.path.isdir(d):
        os.makedirs(d, exist_ok=True)
        atexit.register(shutil.rmtree, d, True)
        ovp = os.path.join(BUILD, "overlay", "c03_p%d.json" % os.getpid())
        atexit.register(lambda: os.path.exists(ovp) and os.remove(ovp))
    return d


def run_cases(texts, tag, seed, nvals, exe, keep_vals=False, hang_ms=8000, specs=None):
    """-> (results by index, model lines by index, note). specs[i]: the checker's own reading of texts[i] (or None)"""
    d = run_dir()
    cf = os.path.join(d, "cases_%s.txt" % tag)
    with open(cf, "w") as f:
        for i, t in enumerate(texts):
            sp = specs[i] if specs else None
            f.write(json.dumps(t if sp is None else {"q": t, "spec": sp}) + "\n")
    ov = go_overlay(HARNESS, "c03_p%d" % os.getpid())
    results, mlines, note = {}, {}, ""
    skip = 0
    rounds = 0
    while skip < len(texts) and rounds < 20:
        rounds += 1
        out = os.path.join(d, "impl_%s_%d.jsonl" % (tag, skip))
        min_ = os.path.join(d, "model_in_%s_%d.txt" % (tag, skip))
        for p in (out, min_):
            if os.path.exists(p):
                os.remove(p)
        env = {"VERIF_CASES": cf, "VERIF_OUT": out, "VERIF_MODEL_IN": min_, "VERIF_NVALS": str(nvals),
               "VERIF_SEED": str(seed), "VERIF_SKIP": str(skip), "VERIF_HANG_MS": str(hang_ms)}
        if not keep_vals:
            env["VERIF_NOVALS"] = "1"
        rc, o, _ = go_test("./internal/query/", ov, "^TestVerifC03$", env, timeout=900)
        last = None
        if os.path.exists(out):
            for line in open(out):
                try:
                    r = json.loads(line)
                except ValueError:
                    continue
                results[r["i"]] = r
                last = r
        if exe and os.path.exists(min_):
            mo = os.path.join(d, "model_out_%s_%d.txt" % (tag, skip))
            rc2, o2, _ = run([exe, min_, mo], timeout=900)
            if rc2 != 0:
                note += " model driver rc=%d: %s" % (rc2, o2[-400:])
            if os.path.exists(mo):
                for line in open(mo):
                    p = line.split()
                    if len(p) >= 2:
                        mlines[int(p[0])] = p[1:]
        if rc == 0:
            break
        if last is not None and last.get("hang"):
            skip = last["i"] + 1
            continue
        note += " go harness rc=%d: %s" % (rc, o[-1200:])
        break
    return results, mlines, note


def classify(r, m, have_model):
    """-> (kind or None, text). kind: impl (failing input for the property) / model (correspondence)"""
    if r is None:
        return "impl", "no result for this case (harness died)"
    if r.get("hang"):
        return "impl", "query.Parse did not return"
    if r.get("panic"):
        return "impl", "panic: " + r["panic"]
    if "impl" not in r:
        return None, "rejected" if (r.get("err") or r.get("derr")) else "unsupported"
    if r.get("specnote"):
        return "impl", "term translation: " + r["specnote"]
    if r.get("wf", True) and r["impl"] != r["sem"]:
        return "impl", "normal form and text as written disagree on %d of %d valuations" % (
            sum(a != b for a, b in zip(r["impl"], r["sem"])), len(r["sem"]))
    if r.get("impl2") and r["impl2"] != r.get("impl1c"):
        return "impl", "parsing the same text twice gives different meanings"
    if r.get("wf", True) and r["impossible"] and "1" in r["sem"]:
        return "impl", "reported impossible but satisfiable"
    if have_model:
        if m is None:
            return "model", "model produced no line"
        # m = [sem, seml, evalnorm, impossible, fuel, wf]
        if m[0] != r.get("semd", r["sem"]):
            return "model", "model sem differs from the Go oracle sem (both on the dumped tree)"
        if m[2] != r["impl"]:
            return "model", "model normal form evaluates differently from the implementation's"
        if m[1] != r.get("semld", r["seml"]):
            return "model", "model semL differs from the Go semL"
        if (m[3] == "1") != bool(r["impossible"]):
            return "model", "model and implementation disagree on 'matches nothing'"
        if len(m) > 5 and (m[5] == "1") != bool(r.get("wfd", r.get("wf", True))):
            return "model", "model and harness disagree on the unambiguous fragment (wf_seq)"
        if len(m) > 4 and m[4] != "fuel_ok":
            return "model", "model normalisation ran out of fuel / reached a panic branch: " + m[4]
    if not r.get("wf", True):
        # outside the fragment where NOT inside a sequence has a defined meaning (notes/C03.md): not judged
        return None, "gap_differs" if r["impl"] != r["sem"] else "gap_agrees"
    return None, "ok"


def minimise(tree, seed, nvals, exe, have_model, kind):
    cur = tree
    for _ in range(30):
        cands = sorted({repr(c): c for c in shrinks(cur)}.values(), key=lambda e: (size(e), repr(e)))
        if not cands:
            break
        texts = [render(c) for c in cands]
        res, ml, _ = run_cases(texts, "min", seed, nvals, exe, specs=[tree_spec(c) for c in cands])
        nxt = None
        for i, c in enumerate(cands):
            k, _ = classify(res.get(i), ml.get(i), have_model)
            if k == kind:
                nxt = c
                break
        if nxt is None:
            break
        cur = nxt
    return cur


MAXDNF = 150  # generated expressions keep every intermediate normal form below this many conjuncts

REGIMES = [("easy", 0.3), ("data", 0.14), ("seq", 0.14), ("mixed", 0.17), ("vars", 0.14), ("subq", 0.08), ("negseq", 0.03)]


def setup():
    """extraction of theories/Query.v + OCaml driver (shared by C03 and C14); cached by content hash"""
    return build_model(PROP, EXTRACT, os.path.join(ROOT, "ocaml/c03"), MODEL_DEPS)[0]


def main(tier, seed, replay=None):
    t0 = time.time()
    have_model = True
    proof = Proof(PROP, tier=tier)
    exe = setup()
    rng = random.Random(seed)
    ncases = int(os.environ.get("VERIF_NCASES", 4000 if tier == "quick" else 60000))
    nvals = 48 if tier == "quick" else 96
    trees, texts, regimes = [], [], []
    cdir = os.path.join(ROOT, "corpus", PROP)
    def untuple(t):
        """generator trees from JSON: lists -> tuples for atoms/not, lists of kids stay lists"""
        if t is None:
            return None
        if t[0] == "atom":
            return ("atom", t[1])
        if t[0] == "not":
            return ("not", untuple(t[1]))
        return (t[0], [untuple(c) for c in t[1]])
    if replay:
        obj = json.load(open(replay))
        texts = [obj["query"]]
        trees = [untuple(obj.get("tree"))]
        regimes = ["replay"]
    else:
        if os.path.isdir(cdir):
            for fn in sorted(os.listdir(cdir)):
                if fn.endswith(".json"):
                    co = json.load(open(os.path.join(cdir, fn)))
                    tr = untuple(co.get("tree"))
                    texts.append(co["query"] if "query" in co else render(tr))
                    trees.append(tr)
                    regimes.append("corpus")
        for i in range(ncases):
            x, acc = rng.random(), 0.0
            reg = REGIMES[-1][0]
            for name, p in REGIMES:
                acc += p
                if x < acc:
                    reg = name
                    break
            depth = rng.choice([1, 2, 2, 3, 3, 4])
            greg = "mixed" if reg == "negseq" else reg
            gen = (lambda: g_seq(rng, min(max(depth, 2), 3))) if reg == "seq" else (lambda: g_expr(rng, depth, greg))
            tr = gen()
            while max_cost(tr) > MAXDNF or g_wf(tr) != (reg != "negseq"):
                if reg == "negseq":
                    depth = max(depth, 3)
                tr = gen()
            trees.append(tr)
            texts.append(render(tr, rng))
            regimes.append(reg)
    specs = [tree_spec(tr) for tr in trees]
    res, ml, note = run_cases(texts, "main", seed, nvals, exe, keep_vals=bool(replay), specs=specs)
    nviol = 0
    stats = {"ok": 0, "rejected": 0, "unsupported": 0, "gap_differs": 0, "gap_agrees": 0}
    gap_examples = []
    per_regime = {}
    seml_diff = 0
    evals = 0
    nontrivial = set()
    failing = []
    for i, t in enumerate(texts):
        r = res.get(i)
        k, why = classify(r, ml.get(i), have_model)
        if k is None:
            stats[why] = stats.get(why, 0) + 1
            if why == "gap_differs" and len(gap_examples) < 5:
                gap_examples.append({"query": t, "normal_form": r["norm"][:400], "impl": r["impl"], "sem": r["sem"]})
            if why == "ok":
                evals += len(r["sem"])
                per_regime[regimes[i]] = per_regime.get(regimes[i], 0) + 1
                if r["seml"] != r["sem"]:
                    seml_diff += 1
                if "0" in r["sem"] and "1" in r["sem"]:
                    nontrivial.add(t)
        else:
            failing.append((i, k, why))
    # "matches nothing" reported by the code but not by the model, inside the judged fragment: a failing INPUT as soon as
    # some valuation satisfies the text as written (the 48 of the first pass may all miss a long sequence)
    big = {}
    cand = [(n, f[0]) for n, f in enumerate(failing) if f[1] == "model" and "matches nothing" in f[2]
            and res[f[0]].get("impossible") and res[f[0]].get("wf", True)][:30]
    if cand and not replay:
        r2, _, _ = run_cases([texts[i] for _, i in cand], "sat", seed + 1, 1500, exe, specs=[specs[i] for _, i in cand])
        for x, (n, i) in enumerate(cand):
            rr = r2.get(x) or {}
            if rr.get("impossible") and rr.get("wf", True) and "1" in (rr.get("sem") or ""):
                failing[n] = (i, "impl", "reported impossible but satisfiable (a satisfying valuation found among 1500)")
                big[i] = 1500
    # failing inputs first, correspondence failures after them
    failing.sort(key=lambda f: (f[1] != "impl", f[0]))
    if replay:
        r = res.get(0) or {}
        print("query:", texts[0])
        for key in ("err", "derr", "unsup", "panic", "hang", "norm", "elems"):
            if r.get(key):
                print(" %s: %s" % (key, r[key]))
        print(" impl (Go normal form) :", r.get("impl"))
        print(" spec (sem, Go oracle) :", r.get("sem"))
        print(" model sem / norm      :", (ml.get(0) or [None, None, None])[0], "/", (ml.get(0) or [None, None, None])[2])
        print(" semL (look-ahead NOT) :", r.get("seml"))
    for (i, k, why) in failing[:3]:
        tr = trees[i]
        text = texts[i]
        if tr is not None and i not in big:
            tr = minimise(tr, seed, nvals, exe, have_model, k)
            text = render(tr)
        r1, m1, _ = run_cases([text], "rep", seed + (1 if i in big else 0), big.get(i, nvals), exe, keep_vals=True, specs=[tree_spec(tr)])
        r = r1.get(0) or {}
        obj = {"property": PROP, "kind": k, "why": why, "query": text, "tree": tr, "original_query": texts[i],
               "normal_form": r.get("norm"), "impl": r.get("impl"), "spec_sem": r.get("sem"),
               "model": m1.get(0), "semL": r.get("seml"), "seed": seed, "nvals": nvals,
               "first_differing_valuation": None, "replay_cmd": "bin/check C03 --replay <this file>"}
        if r.get("impl") and r.get("sem") and r.get("vals"):
            for j, (a, b) in enumerate(zip(r["impl"], r["sem"])):
                if a != b:
                    obj["first_differing_valuation"] = {"index": j, "impl": a, "spec": b, "valuation": r["vals"][j]}
                    break
        if k == "impl":
            violation(PROP, obj)
        else:
            obj["broken"] = "correspondence: extracted model (theories/Query.v) disagrees with the implementation / the Go oracle while the implementation satisfies the oracle; the theorems of props/C03.v no longer speak about this code"
            violation(PROP, obj, no_input=True)
        nviol += 1
    if len(failing) > 3:
        log("... and %d more failing cases" % (len(failing) - 3))
    if not failing and note:
        violation(PROP, {"property": PROP, "broken": "correspondence harness could not run against this tree", "note": note}, no_input=True)
        nviol += 1
    total = len(texts)
    if not replay and not failing and stats.get("rejected", 0) > 0.08 * total:
        violation(PROP, {"property": PROP, "broken": "generator drift: %d of %d generated well-formed queries are rejected by query.Parse" % (stats["rejected"], total),
                         "examples": [texts[i] for i in range(total) if res.get(i) and (res[i].get("err") or res[i].get("derr"))][:5]}, no_input=True)
        nviol += 1
    if proof is not None and not proof.good() and nviol == 0:
        violation(PROP, {"property": PROP, "broken": proof.failure_text(), "searched_cases": total}, no_input=True)
        nviol += 1
    cov = proof.coverage() if proof is not None else {"obligations": 0, "discharged": 0, "note": "Coq side not built yet"}
    sample = None
    for i in range(total - 1, -1, -1):
        if res.get(i) and res[i].get("impl") and "0" in res[i]["sem"] and "1" in res[i]["sem"]:
            sample = {"query": texts[i], "normal_form": res[i]["norm"], "impl": res[i]["impl"], "sem": res[i]["sem"], "model": ml.get(i)}
            break
    cov.update({
        "trusted_base": TRUSTED_COMMON + [
            "Go harness harness/c03: neutral dump of the participle parse tree and of the value sub-parsers (library code, not modelled), direct evaluator of Conditions, reference semantics sem/semL, valuation generator",
            "strings (tag names, sub-query names, data elements = direction+regex+converter) reach the model as order-preserving ranks computed by the harness",
            "payload oracle: event sequences over the data elements of the query (nxt = next occurrence); the Coq theorem quantifies over an arbitrary nxt",
            "int/time.Duration modelled as unbounded Z (no overflow: generator constants stay below 2^40, factors below 8)",
        ],
        "evaluations": evals,
        "distinct_nontrivial": len(nontrivial),
        "rule": "seeded grammar-driven query texts (AND/OR/NOT/THEN/parentheses to depth 4 over id, ports, bytes, hosts with masks, protocol, times, tags, data incl. converters, value lists, ranges, open ranges, same-stream variables, sub-query variables under a fixed assignment); each evaluated on %d critical valuations (constants +-1, tag states, protocols, hosts in/outside masks, payload event orders); non-trivial = accepted query whose truth table contains both 0 and 1, distinct by text; compared impl normal form = sem(text as written) = extracted model" % nvals,
        "cases": total, "accepted": stats.get("ok", 0), "rejected_by_parse": stats.get("rejected", 0), "outside_fragment": stats.get("unsupported", 0),
        "per_regime_accepted": per_regime,
        "model_in_loop": bool(have_model),
        "cases_with_own_reading_of_the_text": sum(1 for sp in specs if sp is not None),
        "lookahead_reading_differs_cases": seml_diff,
        "outside_unambiguous_fragment": {"cases": stats["gap_differs"] + stats["gap_agrees"], "normal_form_differs_from_reference_reading": stats["gap_differs"],
                                         "note": "a NOT whose operand contains NOT/THEN and that is followed by THEN: meaning not defined by the documentation, not judged (notes/C03.md)",
                                         "examples": gap_examples},
        "samples": [sample],
        "disagreements": nviol,
        "failing_cases": len(failing),
    })
    known, fixed = known_findings(PROP)
    cov["fixed_findings"] = fixed
    if stats["gap_differs"] and any(k.get("id") == "negated-group-in-sequence" for k in known):
        print("KNOWN-FINDING: property=C03 id=negated-group-in-sequence %d generated queries with a negated group followed by THEN are normalised to something else than the reference reading, e.g. %s" % (
            stats["gap_differs"], json.dumps(gap_examples[0]["query"]) if gap_examples else "-"), flush=True)
    write_evidence(PROP, tier, seed, cov,
                   ["well-formed = accepted by the participle grammar and the value sub-parsers (library code)",
                    "a valuation fixes one stream per sub-query name; payload matching is an arbitrary deterministic next-match oracle",
                    "ids, ports, byte counts >= 0 and ftime <= ltime (used by the simplifier exactly there)"],
                   time.time() - t0, nviol)
    log("C03: %d cases, %s, %d evaluations, %d non-trivial, look-ahead reading differs on %d, %d failing, %.1fs" % (
        total, stats, evals, len(nontrivial), seml_diff, len(failing), time.time() - t0))
    return 1 if nviol else 0
