"""C01 -- index files return every stored stream exactly as written.

Coq: theories/IndexFormat*.v (model + proofs), props/C01.v.
Tie: generated stream sets (all representation regimes of the property quantifier) are
written by the real NewWriter/AddStream/Finalize and read back through the Reader API
(harness/c01, overlay in package index); the same case file is executed by the extracted
Coq model; both are compared with the direct round-trip oracle computed here from the input.
"""
import ipaddress
import os
import random
import time
import zlib

from vplib import *

PROP = "C01"
U32 = 1 << 32
U64 = 1 << 64
HARNESS = {"internal/index/zz_verif_c01_test.go": os.path.join(ROOT, "harness/c01/zz_verif_c01_test.go")}
MODEL_DEPS = ["theories/IndexFormat.v", "theories/IndexFormatPop.v"]


# ------------------------------------------------------------------ payload pattern / formatting
def pattern(seed, n):
    return bytes((seed + 31 * i + (i >> 8)) & 0xff for i in range(n))


_pat_cache = {}


def pattern_cached(seed, n):
    k = (seed & 0xff, n)
    if k not in _pat_cache:
        if n > 4096:
            base = bytes((31 * i + (i >> 8)) & 0xff for i in range(n)) if ("base", n) not in _pat_cache else _pat_cache[("base", n)]
            _pat_cache[("base", n)] = base
            _pat_cache[k] = bytes((b + seed) & 0xff for b in base)
        else:
            _pat_cache[k] = pattern(seed, n)
    return _pat_cache[k]


def go_ip(hx):
    """net.IP.String() of the raw address bytes."""
    b = bytes.fromhex(hx)
    if len(b) == 4:
        return ".".join(str(x) for x in b)
    if len(b) == 16:
        if b[:10] == bytes(10) and b[10:12] == b"\xff\xff":
            return ".".join(str(x) for x in b[12:])
        return str(ipaddress.IPv6Address(b))
    return "?" + hx


# ------------------------------------------------------------------ case <-> text
def case_text(c):
    out = ["CASE %s" % c["name"]]
    for s in c["streams"]:
        out.append("S %d %d %s %d %s %d" % (s["id"], s["flags"], s["ca"], s["cp"], s["sa"], s["sp"]))
        for sec, nsec, d, srcs in s["pk"]:
            out.append("P %d %d %d %s" % (sec, nsec, d, ",".join("%s:%d" % (a, b) for a, b in srcs)))
        for pi, ln, seed in s["da"]:
            out.append("D %d %d %d" % (pi, ln, seed))
        out.append("E")
    for a, b in c.get("qs", []):
        out.append("Q %s %d" % (a, b))
    for i in c.get("ids", []):
        out.append("I %d" % i)
    out.append("ENDCASE")
    return "\n".join(out) + "\n"


# ------------------------------------------------------------------ the direct oracle (round trip)
def stream_obs(s):
    """Expected T/K/C lines of one stored stream, computed from the input alone."""
    t = [sec * 10 ** 9 + nsec for sec, nsec, _, _ in s["pk"]]
    t0 = t[0]
    ts = [t0 + ((x - t0) // 1000) * 1000 for x in t]
    dirs = [p[2] for p in s["pk"]]
    nb = [0, 0]
    for pi, ln, _ in s["da"]:
        nb[dirs[pi]] += ln
    proto = "UDP" if s["flags"] & 2 else "TCP"
    T = "%d %s %d %s %d %s %d %d %d %d" % (s["id"], go_ip(s["ca"]), s["cp"], go_ip(s["sa"]), s["sp"], proto, t0, t[-1], nb[0], nb[1])
    recs = []
    for i, p in enumerate(s["pk"]):
        for cap, idx in reversed(p[3]):
            if recs and recs[-1][0] == cap and recs[-1][1] == idx:
                continue
            recs.append((cap, idx, dirs[i], ts[i]))
    K = "K %d" % s["id"] + "".join(" %s:%d:%d:%d" % r for r in recs)
    # chunks: maximal sequences of non-empty data items in the same direction run and the same time group
    chunks = []
    run, group = 0, 0
    prev_any_dir = None
    prev_ne = None  # (dir, ts) of the previous non-empty item
    cur = None
    for pi, ln, seed in s["da"]:
        d = dirs[pi]
        if prev_any_dir is not None and d != prev_any_dir:
            run += 1
        prev_any_dir = d
        if ln == 0:
            continue
        if not (prev_ne is not None and prev_ne[0] == d and ts[pi] - prev_ne[1] < 50_000_000):
            group += 1
            gts = ts[pi]
        prev_ne = (d, ts[pi])
        if cur is not None and cur["key"] == (run, group):
            cur["parts"].append(pattern_cached(seed, ln))
        else:
            cur = {"key": (run, group), "dir": d, "ts": gts, "parts": [pattern_cached(seed, ln)]}
            chunks.append(cur)
    C = "C %d" % s["id"]
    for c in chunks:
        b = b"".join(c["parts"])
        C += " %d:%d:%d:%d" % (c["dir"], len(b), zlib.adler32(b), c["ts"])
    return T, K, C


def first_source(s):
    return tuple(s["pk"][0][3][-1])


def expected_reader(streams, qs=(), ids=()):
    """Observation lines (canonical) of a file that contains exactly `streams`."""
    out = []
    allid = sorted(s["id"] for s in streams)
    out.append("N %d %d %d %d" % (len(streams), len(streams), allid[0], allid[-1]))
    firsts = [p0[0] * 10 ** 9 + p0[1] for p0 in (s["pk"][0] for s in streams)]
    lasts = [p0[0] * 10 ** 9 + p0[1] for p0 in (s["pk"][-1] for s in streams)]
    out.append("X %d %d %d %d" % (min(firsts), max(firsts), min(lasts), max(lasts)))
    out.append("IDS" + "".join(" %d" % i for i in allid))
    src = {}
    for s in streams:
        src[first_source(s)] = s["id"]
    for s in sorted(streams, key=lambda s: s["id"]):
        T, K, C = stream_obs(s)
        out += ["T " + T, "J " + T, K, C, "L %d ok" % s["id"]]
    for a, b in qs:
        out.append("Q %s %d %s" % (a, b, src.get((a, b), "none")))
    have = set(allid)
    for i in ids:
        out.append("I %d %s" % (i, i if i in have else "none"))
    return out


def expected(c):
    return ["R ok"] + expected_reader(c["streams"], c.get("qs", []), c.get("ids", []))


def canon_lines(lines, model=False):
    """Canonical form of harness / model output lines of one case."""
    out = []
    for ln in lines:
        if ln.startswith("L "):
            tok = ln.split()
            try:
                kv = dict(x.split("=") for x in tok[2:])
                sid = tok[1]
                a, b = kv["self"].split("/")
                okflag, c_ = kv["ids"].split("/")
                ok = a == sid and okflag == "true" and b == c_ and kv["byid"] == "%s/%s" % (sid, b) and kv["bysrc"] == "%s/%s" % (sid, b)
            except Exception:
                ok = False
            out.append("L %s ok" % tok[1] if ok else ln)
        elif model and ln.startswith("T "):
            tok = ln.split()
            tok[2], tok[4] = go_ip(tok[2]), go_ip(tok[4])
            tok[6] = {"1": "TCP", "2": "UDP", "0": "Other", "3": "SCTP"}.get(tok[6], tok[6])
            out.append(" ".join(tok))
        else:
            out.append(ln)
    return out


def split_cases(path):
    res = {}
    cur = None
    if not os.path.exists(path):
        return res
    with open(path, errors="replace") as f:
        for line in f:
            line = line.rstrip("\n")
            if line.startswith("CASE "):
                cur = line[5:]
                res[cur] = []
            elif line == "ENDCASE":
                cur = None
            elif cur is not None:
                res[cur].append(line)
    return res


# ------------------------------------------------------------------ generators
CAPS = ["a.pcap", "b.pcap", "dir/c.pcap", "Z.pcap", "a.pcap.1", "b", "zz-last.pcapng"]
# 64 KiB record split; bufio.Writer/Reader default 4096; AddIndex segmentation block 4096 (flush at 4086); io.CopyN 32 KiB
CHUNKS_SPECIAL = [0, 1, 2, 127, 128, 4085, 4086, 4087, 4095, 4096, 4097, 8191, 8192, 8193, 16383, 16384, 32767, 32768, 32769,
                  65534, 65535, 65536, 65537, 70000, 131070, 131071, 200000]
EMPTY_RUNS = [0, 1, 2, 253, 254, 255, 256, 257, 300, 509, 510, 511, 512, 600]
GAPS_US = [0, 0, 1, 999, 49_999, 50_000, 50_001, 1_000_000, 60_000_000]


class Src:
    """allocates distinct (capture, index) packet sources for one case"""

    def __init__(self, rng, ncaps, big_index=False):
        self.rng = rng
        self.caps = rng.sample(CAPS, ncaps)
        self.next = {}
        for c in self.caps:
            r = rng.random()
            if big_index and r < 0.5:
                self.next[c] = rng.choice([U32 - 3, U32 - 1, U32, 2 * U32 - 2, 5 * U32 + 7, U64 - 2_000_000])
            elif r < 0.2:
                self.next[c] = rng.randrange(0, 100000)
            else:
                self.next[c] = 0

    def take(self, cap=None):
        c = cap or self.rng.choice(self.caps)
        i = self.next[c]
        assert i < U64 - 8, "packet index generator overflow"
        self.next[c] = i + 1 + (self.rng.randrange(0, 3) if self.rng.random() < 0.3 else 0)
        return [c, i]


def rand_host(rng, v6):
    if v6:
        r = rng.random()
        if r < 0.15:
            return (bytes(10) + b"\xff\xff" + bytes(rng.randrange(256) for _ in range(4))).hex()
        if r < 0.4:
            b = bytearray(16)
            for _ in range(rng.randrange(1, 4)):
                b[rng.randrange(16)] = rng.randrange(256)
            return bytes(b).hex()
        return bytes(rng.randrange(256) for _ in range(16)).hex()
    return bytes(rng.randrange(256) for _ in range(4)).hex()


def gen_stream(rng, sid, hosts, src, t0_ns, opts):
    """One well-formed stream. opts: dict of regime knobs."""
    ca, sa = rng.choice(hosts), rng.choice(hosts)
    if len(ca) != len(sa):
        same = [h for h in hosts if len(h) == len(ca)]
        sa = rng.choice(same)
    flags = rng.choice([0, 1, 2, 3])
    npk = rng.randrange(1, opts.get("maxpk", 8) + 1)
    # plan: list of ("d", len) data packets and ("e", n) runs of payload-less packets
    plan = []
    for _ in range(npk):
        r = rng.random()
        if r < opts.get("p_empty_run", 0.1):
            plan.append(("e", rng.choice(opts.get("empty_runs", [1, 2, 3]))))
        elif r < 0.45:
            plan.append(("e", 1))
        else:
            if rng.random() < opts.get("p_special_chunk", 0.05):
                ln = rng.choice(opts.get("chunks", CHUNKS_SPECIAL))
            else:
                ln = rng.choice([0, 1, 1, 2, 3, 5, 17, 100, 1460])
            plan.append(("d", ln))
    if not any(k == "e" and n > 0 or k == "d" for k, n in plan):
        plan.append(("e", 1))
    pk, da = [], []
    rel_us, frac = 0, 0          # t = t0_ns + rel_us*1000 + frac ; rel_us is what the file stores (mod 2^32)
    cur_dir = rng.randrange(2)
    first = True
    gaps = opts.get("gaps", GAPS_US)
    cap_pref = rng.choice(src.caps)

    def add_packet(has_data, ln):
        nonlocal rel_us, frac, cur_dir, first
        if first:
            first = False
        else:
            g = rng.choice(gaps) if rng.random() < opts.get("p_gap_special", 0.7) else rng.randrange(0, opts.get("gap_max", 200000))
            frac = rng.randrange(frac, 1000) if g == 0 else rng.choice([0, 999, rng.randrange(1000)])
            rel_us += g
        t = t0_ns + rel_us * 1000 + frac
        if rng.random() < opts.get("p_flip", 0.4):
            cur_dir ^= 1
        nsrc = 1
        if not has_data and rng.random() < opts.get("p_multi_src", 0.0):
            nsrc = rng.randrange(2, 4)
        if has_data and rng.random() < opts.get("p_multi_src_data", 0.0):
            nsrc = 2
        srcs = [src.take(cap_pref if rng.random() < 0.7 else None) for _ in range(nsrc)]
        pk.append([t // 10 ** 9, t % 10 ** 9, cur_dir, srcs])
        if has_data:
            da.append([len(pk) - 1, ln, rng.randrange(256)])

    for k, n in plan:
        if k == "e":
            for _ in range(n):
                add_packet(False, 0)
        else:
            add_packet(True, n)
    return {"id": sid, "flags": flags, "ca": ca, "cp": rng.choice([0, 1, 80, 443, 1234, 65535, rng.randrange(65536)]),
            "sa": sa, "sp": rng.choice([0, 22, 80, 8080, 65535, rng.randrange(65536)]), "pk": pk, "da": da}


def gen_ids(rng, n, sparse):
    ids = set()
    while len(ids) < n:
        if sparse:
            base = rng.choice([0, 1, (1 << 31), (1 << 32) - 1, 1 << 32, (1 << 63) - 2, 1 << 63, U64 - 1, rng.randrange(U64)])
            v = (base + rng.randrange(-3, 4)) % U64
        else:
            v = rng.randrange(0, 4 * n + 2)
        ids.add(v)
    ids = list(ids)
    rng.shuffle(ids)
    return ids


def add_probes(rng, c):
    qs, ids = [], []
    ss = c["streams"]
    have = {s["id"] for s in ss}
    for s in rng.sample(ss, min(len(ss), 4)):
        cap, idx = first_source(s)
        qs += [[cap, idx], [cap, (idx + 1) % U64], [cap, (idx - 1) % U64], [cap + "x", idx], [cap[:-1] or "0", idx]]
        if len(s["pk"]) > 1:
            qs.append(list(s["pk"][-1][3][-1]))
        if len(s["pk"][0][3]) > 1:
            qs.append(list(s["pk"][0][3][0]))
        ids += [s["id"], (s["id"] + 1) % U64, (s["id"] - 1) % U64]
    qs += [["-", 0], ["~~~", 5], ["a.pcap", U64 - 1]]
    ids += [0, U64 - 1, 1 << 63]
    c["qs"], c["ids"] = qs, ids


def time_base(rng):
    sec = rng.choice([1, 1000, 1_577_880_000, 1_700_000_000, 4_000_000_000]) + rng.randrange(0, 100000)
    return sec * 10 ** 9 + rng.choice([0, 1, 999, 1000, 500_000_000, 999_999_999, rng.randrange(10 ** 9)])


def gen_case(rng, regime, name):
    opts = {}
    nstreams = rng.randrange(1, 9)
    v6mode = "v4"
    sparse = False
    big_index = False
    ncaps = 1
    rebase = rng.random() < 0.3
    nhosts = rng.randrange(1, 4)
    if regime == "few_hosts":
        pass
    elif regime == "mixed_hosts":
        v6mode = "mixed"
        nhosts = rng.randrange(2, 9)
        nstreams = rng.randrange(2, 14)
    elif regime == "sparse_ids":
        sparse = True
        nstreams = rng.randrange(1, 12)
    elif regime == "chunks":
        opts.update(p_special_chunk=0.5, maxpk=6)
        nstreams = rng.randrange(1, 4)
    elif regime == "empty_runs":
        opts.update(p_empty_run=0.45, empty_runs=EMPTY_RUNS, maxpk=6, p_special_chunk=0.1)
        nstreams = rng.randrange(1, 4)
    elif regime == "timing":
        opts.update(p_gap_special=0.9, maxpk=14, p_flip=0.25)
    elif regime == "long":
        opts.update(gaps=[0, 1, 50_000, U32 - 1, U32 - 2, U32 // 2, U32 // 2 + 1, U32 // 3, 1_000_000], p_gap_special=1.0,
                    maxpk=9, p_empty_run=0.2, empty_runs=[1, 2, 254, 255, 256, 300], p_flip=0.3)
        nstreams = rng.randrange(1, 4)
    elif regime == "captures":
        ncaps = rng.randrange(2, 6)
        big_index = True
        opts.update(p_multi_src=0.3, maxpk=8)
        v6mode = rng.choice(["v4", "mixed"])
    elif regime == "rebase":
        rebase = True
        nstreams = rng.randrange(2, 10)
    elif regime == "multi_src_data":
        ncaps = rng.randrange(1, 4)
        opts.update(p_multi_src=0.3, p_multi_src_data=0.6, maxpk=8, p_flip=0.3)
    elif regime == "everything":
        v6mode = "mixed"
        sparse = True
        big_index = True
        ncaps = rng.randrange(1, 5)
        nhosts = rng.randrange(2, 7)
        nstreams = rng.randrange(2, 10)
        opts.update(p_special_chunk=0.12, p_empty_run=0.2, empty_runs=EMPTY_RUNS, maxpk=7, p_multi_src=0.2,
                    gaps=GAPS_US + [U32 - 1, U32 // 2], p_gap_special=0.8)
    else:
        raise ValueError(regime)
    hosts = []
    for i in range(nhosts):
        v6 = {"v4": False, "v6": True, "mixed": i % 2 == 1 if i < 2 else rng.random() < 0.5}[v6mode]
        hosts.append(rand_host(rng, v6))
    src = Src(rng, ncaps, big_index)
    ids = gen_ids(rng, nstreams, sparse)
    tb = time_base(rng)
    ss = []
    for k, sid in enumerate(ids):
        if rebase:
            t0 = tb + rng.randrange(-3, 4) * 10 ** 9 * rng.choice([1, 3600, 86400]) + rng.randrange(10 ** 9)
            t0 = max(t0, 1)
        else:
            t0 = tb + k * rng.choice([0, 1, 10 ** 9, 3600 * 10 ** 9]) + rng.randrange(0, 2000)
        ss.append(gen_stream(rng, sid, hosts, src, t0, opts))
    c = {"name": name, "regime": regime, "streams": ss}
    add_probes(rng, c)
    return c


def gen_big_hosts(rng, name, v6, extra=6, hit="client_then_server"):
    """More hosts than one group holds (16384 IPv4 / 4096 IPv6): two distinct new hosts per stream,
    so the group fills after cap/2 streams; `hit` decides what the stream at the boundary looks like."""
    cap = 4096 if v6 else 16384
    size = 16 if v6 else 4

    def host(i):
        return (i + 1).to_bytes(size, "big").hex() if not v6 else (b"\x20\x01" + (i + 1).to_bytes(14, "big")).hex()

    ss = []
    src = Src(rng, 2)
    tb = 1_600_000_000 * 10 ** 9
    nxt = 0
    sid = 0

    def mk(ca, sa):
        nonlocal sid
        t0 = tb + sid * 1000_000
        s = {"id": sid * 3 + 1, "flags": sid & 2, "ca": ca, "cp": 1000 + sid % 60000, "sa": sa, "sp": 80,
             "pk": [[t0 // 10 ** 9, t0 % 10 ** 9, 0, [src.take()]], [(t0 + 5000) // 10 ** 9, (t0 + 5000) % 10 ** 9, 1, [src.take()]]],
             "da": [[0, 3, sid & 0xff], [1, 2, (sid >> 8) & 0xff]]}
        sid += 1
        ss.append(s)

    if hit == "client_then_server":
        # cap-1 hosts first (odd count), then a stream with two new hosts: the client fits, the server does not
        mk(host(0), host(0))
        nxt = 1
        while nxt + 2 <= cap - 1:
            mk(host(nxt), host(nxt + 1))
            nxt += 2
        assert nxt == cap - 1
        mk(host(nxt), host(nxt + 1))
        nxt += 2
    else:
        while nxt + 2 <= cap:
            mk(host(nxt), host(nxt + 1))
            nxt += 2
    for _ in range(extra):
        mk(host(nxt), host(nxt + 1))
        nxt += 2
    # old hosts again after the overflow (found in group 0), and pairs straddling groups
    mk(host(0), host(1))
    mk(host(1), host(nxt - 1))
    mk(host(nxt - 1), host(2))
    mk(host(nxt - 2), host(nxt - 1))
    if not v6:
        pass
    c = {"name": name, "regime": "big_hosts_v6" if v6 else "big_hosts_v4", "streams": ss}
    add_probes(rng, c)
    return c


def gen_full_group(rng, name, v6):
    """A host group filled EXACTLY to its limit (16384 IPv4 / 4096 IPv6 hosts) by tiny streams, then streams in every
    relation to the full group, in random order: known client + new server (the server does not fit: the undo must not
    touch the group), new client + known server, both new, both known, known pairs straddling the two groups. New hosts are
    never repeated, so a host wrongly dropped from the full group is not brought back by a later stream."""
    cap = 4096 if v6 else 16384
    size = 16 if v6 else 4
    pref = bytes([rng.randrange(1, 200)])

    def host(i):
        return (pref + (i + 1).to_bytes(size - 1, "big")).hex()

    ss = []
    src = Src(rng, 2)
    tb = 1_600_000_000 * 10 ** 9 + rng.randrange(10 ** 9)
    sid = [0]

    def mk(ca, sa):
        t0 = tb + sid[0] * 1000_000
        ss.append({"id": sid[0] * 2 + 5, "flags": sid[0] & 2, "ca": ca, "cp": 1000 + sid[0] % 60000, "sa": sa, "sp": 80,
                   "pk": [[t0 // 10 ** 9, t0 % 10 ** 9, sid[0] & 1, [src.take()]]], "da": [[0, 1 + sid[0] % 3, sid[0] & 0xff]]})
        sid[0] += 1

    order = list(range(cap))
    rng.shuffle(order)
    for i in range(0, cap, 2):
        mk(host(order[i]), host(order[i + 1]))
    nxt = [cap]

    def new():
        nxt[0] += 1
        return host(nxt[0] + 7)

    def known():
        return host(rng.randrange(cap))
    later = []          # hosts that went to group 1
    shapes = ["kc_ns", "kc_ns", "nc_ks", "nn", "kk", "kc_ns", "g1_g0", "g0_g1", "g1_g1", "kc_ns", "nc_ks", "kk"]
    rng.shuffle(shapes)
    for sh in shapes:
        if sh == "kc_ns":
            b = new(); mk(known(), b); later.append(b)
        elif sh == "nc_ks":
            a = new(); mk(a, known()); later.append(a)
        elif sh == "nn":
            a, b = new(), new(); mk(a, b); later += [a, b]
        elif sh == "kk":
            mk(known(), known())
        elif sh == "g1_g0" and later:
            mk(rng.choice(later), known())
        elif sh == "g0_g1" and later:
            mk(known(), rng.choice(later))
        elif sh == "g1_g1" and later:
            mk(rng.choice(later), rng.choice(later))
        else:
            mk(known(), known())
    # streams of the full group again, in particular its last hosts
    mk(host(order[-1]), host(order[-2]))
    mk(host(order[-3]), host(order[0]))
    c = {"name": name, "regime": "full_group_v6" if v6 else "full_group_v4", "streams": ss}
    add_probes(rng, c)
    return c


def gen_turns_stream(rng, sid, hosts, src, t0_ns, nturns, big_every=0):
    """a chatty stream: nturns data packets with alternating direction -> nturns segmentation varints
    (1 byte each for sizes < 128, 2 bytes with big_every: sizes >= 128). Internal buffers of the code under test:
    bufio 4096, AddIndex segmentation block 4096 flushed at 4086."""
    ca, sa = hosts[0], hosts[-1]
    if len(ca) != len(sa):
        sa = ca
    pk, da = [], []
    cap = src.caps[0]
    d = rng.randrange(2)
    for i in range(nturns):
        t = t0_ns + i * 1000 * rng.choice([1, 1, 2, 60000])
        if pk:
            t = max(t, pk[-1][0] * 10 ** 9 + pk[-1][1])
        pk.append([t // 10 ** 9, t % 10 ** 9, d, [src.take(cap)]])
        ln = 1 + (i % 3)
        if big_every and i % big_every == 0:
            ln = 128 + (i % 200)
        da.append([i, ln, i & 255])
        d ^= 1
    return {"id": sid, "flags": 0, "ca": ca, "cp": 4444, "sa": sa, "sp": 80, "pk": pk, "da": da}


# segmentation sizes around the internal buffers: 4086/4096 (one block), 8172/8192 (two blocks), three blocks
TURNS = [4080, 4086, 4087, 4096, 4100, 4400, 8170, 8173, 8192, 8200, 9000, 12300]


def gen_many_turns(rng, name, nturns=None, big_every=0):
    nturns = nturns or rng.choice(TURNS)
    hosts = [rand_host(rng, False) for _ in range(3)]
    src = Src(rng, 2)
    tb = time_base(rng)
    ids = gen_ids(rng, 5, False)
    pos = rng.randrange(0, 3)
    ss = []
    for k, sid in enumerate(ids):
        if k == pos:
            ss.append(gen_turns_stream(rng, sid, hosts, src, tb + k * 10 ** 9, nturns, big_every))
        else:
            ss.append(gen_stream(rng, sid, hosts, src, tb + k * 10 ** 9 + rng.randrange(1000), {"maxpk": 6, "p_flip": 0.5}))
    c = {"name": name, "regime": "many_turns", "streams": ss}
    add_probes(rng, c)
    return c


REGIMES = ["few_hosts", "mixed_hosts", "sparse_ids", "chunks", "empty_runs", "timing", "long", "captures", "rebase", "multi_src_data", "everything"]


def wf_case(c):
    """The hypothesis of the property theorems (wf_input), checked on every generated case."""
    ids = [s["id"] for s in c["streams"]]
    if not ids or len(set(ids)) != len(ids):
        return "ids"
    fs = [first_source(s) for s in c["streams"]]
    if len(set(fs)) != len(fs):
        return "first sources"
    for s in c["streams"]:
        if len(s["ca"]) != len(s["sa"]) or len(s["ca"]) not in (8, 32):
            return "addr"
        if not s["pk"]:
            return "no packets"
        t = [a * 10 ** 9 + b for a, b, _, _ in s["pk"]]
        if any(a < 0 or not (0 <= b < 10 ** 9) for a, b, _, _ in s["pk"]) or t[-1] >= 1 << 63:
            return "time outside 1970..2262"
        rel = [(x - t[0]) // 1000 for x in t]
        for i in range(1, len(t)):
            if t[i] < t[i - 1] or rel[i] - rel[i - 1] >= U32:
                return "time"
        if any(not p[3] for p in s["pk"]):
            return "packet without source"
        last = -1
        for pi, ln, _ in s["da"]:
            if pi <= last or pi >= len(s["pk"]):
                return "data order"
            last = pi
        recs = [tuple(x) for p in s["pk"] for x in reversed(p[3])]
        for i in range(1, len(recs)):
            if recs[i] == recs[i - 1]:
                return "repeated source"
    return None


# ------------------------------------------------------------------ execution
def have_model():
    return os.path.exists(os.path.join(COQ, "extract", "ExtractC01.v")) and os.path.exists(os.path.join(ROOT, "ocaml/c01/driver.ml"))


def setup():
    """build the extracted model driver (bin/check --setup calls this; main builds lazily through the same function)"""
    if not have_model():
        return None
    exe, _ = build_model(PROP, "ExtractC01.v", os.path.join(ROOT, "ocaml/c01"), MODEL_DEPS)
    return exe


def model_exe():
    return setup()


def run_dir():
    """private per process: two checks running at the same time must not share case/output files"""
    d = os.path.join(BUILD, "run", "c01", "p%d" % os.getpid())
    os.makedirs(d, exist_ok=True)
    return d


def cleanup_run_dir(keep=False):
    import shutil
    base = os.path.join(BUILD, "run", "c01")
    if not keep:
        shutil.rmtree(os.path.join(base, "p%d" % os.getpid()), ignore_errors=True)
    # directories of processes that no longer exist
    if os.path.isdir(base):
        for n in os.listdir(base):
            if n.startswith("p") and n[1:].isdigit() and not os.path.exists("/proc/" + n[1:]):
                shutil.rmtree(os.path.join(base, n), ignore_errors=True)


def execute(cases, tag, exe=None, timeout=900, model_cases=None):
    d = run_dir()
    cf = os.path.join(d, "cases_%s.txt" % tag)
    with open(cf, "w") as f:
        for c in cases:
            f.write(case_text(c))
    iout, mout = os.path.join(d, "impl_%s.out" % tag), os.path.join(d, "model_%s.out" % tag)
    for p in (iout, mout):
        if os.path.exists(p):
            os.remove(p)
    ov = go_overlay(HARNESS, "c01_p%d" % os.getpid())
    t0 = time.time()
    rc, out, _ = go_test("./internal/index/", ov, "^TestVerifC01$", {"VERIF_CASES": cf, "VERIF_OUT": iout}, timeout=timeout)
    tgo = time.time() - t0
    note = "" if rc == 0 else "go harness rc=%d: %s" % (rc, out[-1500:])
    model = None
    tm = 0
    if exe:
        mcf = cf
        if model_cases is not None:
            mcf = os.path.join(d, "mcases_%s.txt" % tag)
            with open(mcf, "w") as f:
                for c in model_cases:
                    f.write(case_text(c))
        t0 = time.time()
        rc2, out2, _ = run(["bash", "-c", "ulimit -s unlimited 2>/dev/null || ulimit -s 1000000; export OCAMLRUNPARAM=s=64M,o=400; exec \"$0\" \"$1\" \"$2\"", exe, mcf, mout], timeout=timeout)
        tm = time.time() - t0
        if rc2 != 0:
            note += " model driver rc=%d: %s" % (rc2, out2[-500:])
        model = split_cases(mout)
    return split_cases(iout), model, note, (tgo, tm)


def diff_lines(a, b):
    for i, (x, y) in enumerate(zip(a, b)):
        if x != y:
            return i, x[:300], y[:300]
    if len(a) != len(b):
        i = min(len(a), len(b))
        return i, (a[i][:300] if i < len(a) else None), (b[i][:300] if i < len(b) else None)
    return None


def judge(c, impl, model):
    """-> (kind, detail) ; kind None when everything agrees."""
    exp = expected(c)
    im = canon_lines(impl.get(c["name"], ["<no output>"]))
    d = diff_lines(im, exp)
    if d:
        return "impl!=spec", {"line": d[0], "impl": d[1], "spec": d[2]}
    if model is not None:
        mo = canon_lines(model.get(c["name"], ["<no output>"]), model=True)
        ex2 = [x for x in exp if not x.startswith("J ")]
        d = diff_lines(mo, ex2)
        if d:
            return "model!=spec", {"line": d[0], "model": d[1], "spec": d[2]}
    return None, None


def minimise(c, kind, exe, budget=40):
    """ddmin over the stream list, then over packets-free simplifications; same failure kind."""
    def fails(ss):
        c2 = dict(c, streams=ss, name="min")
        c2["qs"] = [q for q in c.get("qs", [])][:0]
        c2["ids"] = []
        if wf_case(c2):
            return False
        im, mo, _, _ = execute([c2], "min", exe if kind == "model!=spec" else None, timeout=300)
        k, _ = judge(c2, im, mo)
        return k == kind
    ss = list(c["streams"])
    if len(ss) > 1 and fails(ss):
        ss = ddmin(ss, fails, max_tests=budget)
        c = dict(c, streams=ss, qs=[], ids=[])
    return c


def main(tier, seed, replay=None):
    t0 = time.time()
    proof = Proof(PROP, tier=tier)
    exe = setup()
    rng = random.Random(seed)
    cases = []
    if replay:
        obj = json.load(open(replay))
        c = obj["case"] if "case" in obj else obj
        c.setdefault("name", "replay")
        cases = [c]
    else:
        cdir = os.path.join(ROOT, "corpus", PROP)
        if os.path.isdir(cdir):
            for fn in sorted(os.listdir(cdir)):
                if fn.endswith(".json"):
                    obj = json.load(open(os.path.join(cdir, fn)))
                    c = obj["case"] if "case" in obj else obj
                    c["name"] = "corpus_" + fn[:-5]
                    c.setdefault("regime", "corpus")
                    cases.append(c)
        n = 330 if tier == "quick" else 6000
        for i in range(n):
            reg = REGIMES[i % len(REGIMES)]
            cases.append(gen_case(rng, reg, "g%d_%s" % (i, reg)))
        # chatty streams: segmentation longer than one / two / three internal 4096-byte blocks, followed by other streams
        turns = [4400, 8200, 4087] if tier == "quick" else TURNS + TURNS
        for j, nt in enumerate(turns):
            cases.append(gen_many_turns(rng, "turns%d_%d" % (j, nt), nt, big_every=(7 if j % 3 == 1 else 0)))
        # host-group overflow: the cheap IPv6 one always, IPv4 in both boundary shapes
        cases.append(gen_big_hosts(rng, "big_v6_cs", True, hit="client_then_server"))
        cases.append(gen_big_hosts(rng, "big_v4_cs", False, hit="client_then_server"))
        # a group filled exactly, then known/new clients and servers in every combination
        cases.append(gen_full_group(rng, "full_v6", True))
        cases.append(gen_full_group(rng, "full_v4", False))
        if tier != "quick":
            cases.append(gen_big_hosts(rng, "big_v6_even", True, hit="even"))
            cases.append(gen_big_hosts(rng, "big_v4_even", False, hit="even", extra=40))
            for j in range(3):
                cases.append(gen_full_group(rng, "full_v6_%d" % j, True))
            cases.append(gen_full_group(rng, "full_v4_1", False))
    bad = [(c["name"], wf_case(c)) for c in cases if wf_case(c)]
    if bad and not replay:
        raise RuntimeError("generator produced inputs outside wf_input: %r" % bad[:3])
    # the model runs the big IPv4 case only in the thorough tier (O(n^2) table search on Coq numbers)
    mcases = [c for c in cases if not (tier == "quick" and (c["name"].startswith("big_v4") or c["name"].startswith("full_v4")))]
    impl, model, note, times = execute(cases, "main", exe, model_cases=mcases)
    nviol = 0
    kinds = {}
    first_bad = {}
    harness_dead = bool(note) and not impl
    for c in ([] if harness_dead else cases):
        mdl = model if (model is not None and c in mcases) else None
        k, det = judge(c, impl, mdl)
        if k:
            kinds[k] = kinds.get(k, 0) + 1
            first_bad.setdefault(k, (c, det))
    if replay:
        c = cases[0]
        exp = expected(c)
        print("spec :", *exp, sep="\n  ")
        print("impl :", *canon_lines(impl.get(c["name"], [])), sep="\n  ")
        if model is not None:
            print("model:", *canon_lines(model.get(c["name"], []), model=True), sep="\n  ")
    for k, (c, det) in first_bad.items():
        cm = minimise(c, k, exe) if not replay else c
        im, mo, _, _ = execute([cm], "rep", exe, timeout=300)
        k2, det2 = judge(cm, im, mo)
        obj = {"property": PROP, "kind": k, "case": cm, "detail": det2 or det, "count_in_run": kinds[k], "seed": seed,
               "regime": c.get("regime"), "note": note, "replay_cmd": "bin/check C01 --replay <this file>"}
        if k == "impl!=spec":
            violation(PROP, obj)
        else:
            obj["broken"] = "correspondence: the extracted model (theories/IndexFormat.v) disagrees with the round-trip oracle although the implementation agrees; the theorems of props/C01.v no longer speak about this code"
            violation(PROP, obj, no_input=True)
        nviol += 1
    if not first_bad and note:
        violation(PROP, {"property": PROP, "broken": "correspondence harness could not run against this tree", "note": note}, no_input=True)
        nviol += 1
    if proof is not None and not proof.good() and nviol == 0:
        violation(PROP, {"property": PROP, "broken": proof.failure_text(), "searched_cases": len(cases)}, no_input=True)
        nviol += 1
    cov = proof.coverage() if proof is not None else {"obligations": 0, "discharged": 0, "checker_cmd": "(props/C01.v not present yet)"}
    dist = {}
    for c in cases:
        dist[c.get("regime", "?")] = dist.get(c.get("regime", "?"), 0) + 1
    nstreams = sum(len(c["streams"]) for c in cases)
    distinct = {json.dumps(c["streams"], sort_keys=True) for c in cases if sum(len(s["pk"]) for s in c["streams"]) >= 3}
    cov.update({
        "trusted_base": TRUSTED_COMMON + [
            "Python round-trip oracle in checks/c01.py (expected observables computed from the input alone, incl. Go's net.IP.String formatting)",
            "payload bytes are generated from (seed,len) by the same 1-line pattern in Go, OCaml and Python; chunks compared by length + adler32",
            "modelled rather than verified: os.File/bufio/encoding/binary (file = byte list), sort.Slice/sort.Search, Go map iteration in Finalize (model uses insertion order; only import-name layout depends on it)",
        ],
        "evaluations": nstreams,
        "cases": len(cases),
        "distinct_nontrivial": len(distinct),
        "rule": "seeded stream sets per regime; non-trivial = >=3 packets in the file, distinct by content; every stream observed through AllStreams/StreamByID/StreamByFirstPacketSource/StreamIDs/Min/Max, metadata getters + MarshalJSON, Packets(), Data(); hit and miss probes for both lookups; impl = extracted model = round-trip oracle",
        "regime_distribution": dist,
        "model_in_loop": exe is not None,
        "model_cases": len(mcases) if exe else 0,
        "go_seconds": round(times[0], 1), "model_seconds": round(times[1], 1),
        "failure_kinds": kinds,
        "samples": [cases[len(cases) // 2]["name"], case_text(cases[len(cases) // 2])[:1500]],
        "disagreements": nviol,
    })
    known, fixed = known_findings(PROP)
    cov["fixed_findings"] = fixed
    write_evidence(PROP, tier, seed, cov,
                   ["wf_input: distinct ids, distinct first-packet sources, both addresses 4 or 16 bytes, >=1 packet, every packet has >=1 source, timestamps non-decreasing with gaps < 2^32 us, one data item per packet in packet order, no two consecutive identical sources",
                    "timestamps between 1970 and 2262 (time.Duration range)"],
                   time.time() - t0, nviol)
    cleanup_run_dir(keep=bool(nviol) or bool(replay))
    return 1 if nviol else 0
