"""C07 -- merging index files is invisible.

Coq: theories/Merge*.v on top of IndexFormat.v, props/C07.v.
Tie: generated stacks of 2-6 index files (overlapping ids in different versions, reference
seconds in both orders, shared/disjoint host sets, several captures) are written by the real
writer; index.Merge runs on every suffix and again on the resulting stack (harness/c07).
Compared: visible(pre ++ merge suf) = visible(pre ++ suf) on the implementation itself (that
is the property), both against the input oracle (newest file wins), against the extracted
model of the merge, a query battery through index.SearchStreams before/after, and the
source readers before/after the merges.
"""
import copy
import os
import random
import re
import time

from vplib import *
import c01

PROP = "C07"
HARNESS = {"internal/index/zz_verif_c01_test.go": os.path.join(ROOT, "harness/c01/zz_verif_c01_test.go"),
           "internal/index/zz_verif_c07_test.go": os.path.join(ROOT, "harness/c07/zz_verif_c07_test.go")}
MODEL_DEPS = ["theories/IndexFormat.v", "theories/IndexFormatPop.v", "theories/Merge.v"]

QUERIES = ["sort:id", "sort:-id limit:3", "sort:ftime", "sort:-ltime", "sort:cbytes", "sort:-sbytes", "sort:cport", "sort:shost",
           "sport:80 sort:id", "cport:1234 sort:id", "cbytes:1: sort:id", "sbytes:0 sort:-id", "protocol:udp sort:id",
           "cdata:\".\" sort:id", "sdata:\"[a-z][a-z]\" sort:-id", "sort:id limit:2", "sort:chost"]


# ------------------------------------------------------------------ case text
def case_text(c):
    out = ["CASE %s" % c["name"]]
    for f in c["files"]:
        out.append("FILE")
        for s in f:
            out.append("S %d %d %s %d %s %d" % (s["id"], s["flags"], s["ca"], s["cp"], s["sa"], s["sp"]))
            for sec, nsec, d, srcs in s["pk"]:
                out.append("P %d %d %d %s" % (sec, nsec, d, ",".join("%s:%d" % (a, b) for a, b in srcs)))
            for pi, ln, seed in s["da"]:
                out.append("D %d %d %d" % (pi, ln, seed))
            out.append("E")
    for q in c.get("queries", []):
        out.append("QUERY " + q)
    out.append("ENDCASE")
    return "\n".join(out) + "\n"


# ------------------------------------------------------------------ parsing harness / model output
def parse_case(lines):
    """-> {"readers": {key: [lines]}, "search": {(stack, qi): line}, "merge": {("M",k): n}, "other": [...]}"""
    res = {"readers": {}, "search": {}, "merge": {}, "other": []}
    cur = None
    for ln in lines:
        tok = ln.split()
        if not tok:
            continue
        h = tok[0]
        if h == "F":
            cur = res["readers"].setdefault(("F", int(tok[1])), [])
            if tok[2] != "ok":
                res["other"].append(ln)
        elif h == "A":
            cur = res["readers"].setdefault(("A", int(tok[1])), [])
        elif h in ("O", "OO"):
            cur = res["readers"].setdefault((h, int(tok[1]), int(tok[2])), [])
        elif h in ("M", "MM"):
            cur = None
            res["merge"][(h, int(tok[1]))] = tok[2]
        elif h == "S" and len(tok) >= 3 and (tok[1] == "orig" or re.match(r"mm?\d+$", tok[1])):
            res["search"][(tok[1], int(tok[2]))] = tok[3:]
        elif h in ("N", "X", "IDS", "T", "J", "K", "C", "L", "ALL") and cur is not None:
            cur.append(ln)
        else:
            res["other"].append(ln)
    return res


def reader_streams(lines, model=False):
    """dump lines of one reader -> ({id: [T,(J),K,C,L lines]}, header lines)"""
    lines = c01.canon_lines(lines, model=model)
    per, head = {}, []
    for ln in lines:
        tok = ln.split()
        if tok[0] in ("N", "X", "IDS", "ALL"):
            head.append(ln)
        else:
            per.setdefault(int(tok[1]), []).append(ln)
    return per, head


def visible(readers):
    """newest (last) reader that contains an id wins"""
    v = {}
    for per in readers:
        v.update(per)
    return v


def oracle_visible(files, upto=None):
    v = {}
    for f in files:
        for s in f:
            T, K, C = c01.stream_obs(s)
            v[s["id"]] = ["T " + T, "J " + T, K, C, "L %d ok" % s["id"]]
    return v


def strip_j(v):
    return {i: [x for x in ls if not x.startswith("J ")] for i, ls in v.items()}


def vis_diff(a, b):
    if a == b:
        return None
    for i in sorted(set(a) | set(b)):
        if a.get(i) != b.get(i):
            la, lb = a.get(i) or ["<absent>"], b.get(i) or ["<absent>"]
            for x, y in zip(la, lb):
                if x != y:
                    return {"id": i, "got": x[:400], "want": y[:400]}
            return {"id": i, "got": str(la)[:300], "want": str(lb)[:300]}
    return {"id": None}


def header_ok(per, head):
    ids = sorted(per)
    if not ids:
        return False
    firsts = [int(per[i][0].split()[7]) for i in ids]
    lasts = [int(per[i][0].split()[8]) for i in ids]
    want = ["N %d %d %d %d" % (len(ids), len(ids), ids[0], ids[-1]),
            "X %d %d %d %d" % (min(firsts), max(firsts), min(lasts), max(lasts)),
            "IDS" + "".join(" %d" % i for i in ids)]
    return head == want


SORT_FIELD = {"id": 1, "chost": 2, "cport": 3, "shost": 4, "sport": 5, "ftime": 7, "ltime": 8, "cbytes": 9, "sbytes": 10}


def search_equiv(qtext, before, after, vis):
    """results before/after merge: same more-flag, same sort-key sequence, same id set (ties may permute;
    with a limit only the key sequence is comparable)."""
    if before == after:
        return True
    if not before or not after or before[0] != after[0]:
        return False
    if any(not x.isdigit() for x in before[1:] + after[1:]):
        return False
    m = re.search(r"sort:(-?)(\w+)", qtext)
    fld = SORT_FIELD.get(m.group(2), 1) if m else 7

    def key(i):
        ls = vis.get(int(i))
        return ls[0].split()[fld] if ls else "?"
    kb, ka = [key(i) for i in before[1:]], [key(i) for i in after[1:]]
    if kb != ka:
        return False
    if "limit:" in qtext and before[0] == "more=true":
        return True
    return sorted(before[1:]) == sorted(after[1:])


# ------------------------------------------------------------------ judging one case
def judge(c, impl_lines, model_lines=None):
    """-> list of (kind, detail). kinds: impl!=spec (property violated by the implementation),
    model!=spec (model output differs from the oracle)."""
    out = []
    files = c["files"]
    n = len(files)
    want_all = oracle_visible(files)
    P = parse_case(impl_lines)
    if any(x.startswith("PANIC") for x in P["other"]):
        return [("impl!=spec", {"what": "panic", "line": [x for x in P["other"] if x.startswith("PANIC")][0][:300]})]
    F = []
    for i in range(n):
        lines = P["readers"].get(("F", i))
        if lines is None:
            return [("impl!=spec", {"what": "file %d not written" % i, "other": P["other"][:3]})]
        exp = c01.expected_reader(files[i])
        d = c01.diff_lines(c01.canon_lines(lines), exp)
        if d:
            out.append(("impl!=spec", {"what": "C01 round trip of input file %d" % i, "impl": d[1], "spec": d[2]}))
            return out
        F.append(reader_streams(lines)[0])
        la = P["readers"].get(("A", i))
        if la is not None and c01.canon_lines(la) != c01.canon_lines(lines):
            d = c01.diff_lines(c01.canon_lines(la), c01.canon_lines(lines))
            out.append(("impl!=spec", {"what": "source reader %d shows different streams after the merges" % i, "after": d[1], "before": d[2]}))
    vis0 = visible(F)
    d = vis_diff(vis0, want_all)
    if d:
        out.append(("impl!=spec", {"what": "visible(original stack) differs from the input oracle", **d}))
    for k in range(n):
        for lvl, okey, pre in (("M", "O", F[:k]), ("MM", "OO", [])):
            nout = P["merge"].get((lvl, k))
            if nout is None or not nout.isdigit():
                out.append(("impl!=spec", {"what": "%s %d failed: %s" % (lvl, k, nout)}))
                continue
            outs = []
            bad_head = False
            for j in range(int(nout)):
                per, head = reader_streams(P["readers"].get((okey, k, j), []))
                outs.append(per)
                if not header_ok(per, head):
                    bad_head = True
            if bad_head:
                out.append(("impl!=spec", {"what": "%s %d: StreamIDs/Min/Max/AllStreams of the merged file are inconsistent" % (lvl, k)}))
            cnt = {}
            for per in outs:
                for i in per:
                    cnt[i] = cnt.get(i, 0) + 1
            want_ids = set(want_all) if lvl == "MM" else {s["id"] for f in files[k:] for s in f}
            if set(cnt) != want_ids or any(v != 1 for v in cnt.values()):
                out.append(("impl!=spec", {"what": "%s %d: merged output does not contain every id exactly once" % (lvl, k),
                                           "missing": sorted(want_ids - set(cnt))[:5], "extra": sorted(set(cnt) - want_ids)[:5]}))
            d = vis_diff(visible(pre + outs), vis0)
            if d:
                out.append(("impl!=spec", {"what": "visible(pre ++ merge suf) != visible(pre ++ suf), %s k=%d" % (lvl, k), **d}))
            d = vis_diff(visible(pre + outs), want_all)
            if d and not out:
                out.append(("impl!=spec", {"what": "visible after %s k=%d differs from the input oracle" % (lvl, k), **d}))
            stack = ("m%d" if lvl == "M" else "mm%d") % k
            for qi, q in enumerate(c.get("queries", [])):
                b, a = P["search"].get(("orig", qi)), P["search"].get((stack, qi))
                if b is None or a is None or not search_equiv(q, b, a, want_all):
                    out.append(("impl!=spec", {"what": "SearchStreams differs after merge (%s)" % stack, "query": q, "before": b, "after": a}))
    if model_lines is not None:
        M = parse_case(model_lines)
        for k in range(n):
            for lvl, okey, pre in (("M", "O", files[:k]), ("MM", "OO", [])):
                per, head = reader_streams(M["readers"].get((okey, k, 0), []), model=True)
                want = strip_j(oracle_visible(files[k:] if lvl == "M" else files))
                d = vis_diff(per, want)
                if d or not header_ok(per, head):
                    out.append(("model!=spec", {"what": "model %s k=%d" % (lvl, k), **(d or {"header": head})}))
    return out


# ------------------------------------------------------------------ generator
def extend_stream(rng, s, src, opts):
    """a later version of the same stream: same endpoints and first packets, more packets/data"""
    s2 = copy.deepcopy(s)
    t_last = s2["pk"][-1][0] * 10 ** 9 + s2["pk"][-1][1]
    d = s2["pk"][-1][2]
    for _ in range(rng.randrange(1, 5)):
        t_last += rng.choice([0, 1000, 49_999_000, 50_000_000, 10 ** 9, 3 * 10 ** 9])
        if rng.random() < 0.4:
            d ^= 1
        s2["pk"].append([t_last // 10 ** 9, t_last % 10 ** 9, d, [src.take()]])
        if rng.random() < 0.7:
            s2["da"].append([len(s2["pk"]) - 1, rng.choice([0, 1, 3, 10, 100, 1460, 70000 if rng.random() < 0.05 else 7]), rng.randrange(256)])
    return s2


def gen_case(rng, name, regime):
    nfiles = rng.randrange(2, 7)
    npool = rng.randrange(2, 12)
    sparse = regime == "sparse"
    ids = c01.gen_ids(rng, npool, sparse)
    shared_hosts = regime != "disjoint_hosts"
    v6 = {"v4": "v4", "mixed": "mixed"}.get(regime, rng.choice(["v4", "mixed"]))
    nh = rng.randrange(2, 7)
    pool_hosts = [c01.rand_host(rng, (i % 2 == 1) if v6 == "mixed" else False) for i in range(nh)]
    ncaps = rng.randrange(1, 5)
    src = c01.Src(rng, ncaps, big_index=(regime == "captures"))
    tb = c01.time_base(rng)
    opts = {"maxpk": 6, "p_special_chunk": 0.03, "p_empty_run": 0.05, "empty_runs": [1, 2, 255, 256], "p_multi_src": 0.1 if regime == "captures" else 0.0}
    if regime == "long":
        opts.update(gaps=[0, 1, 50_000, c01.U32 - 1, c01.U32 // 2], p_gap_special=0.9)
    files = []
    latest = {}
    for fi in range(nfiles):
        # reference seconds of the files in both orders: later files may start earlier
        tb_file = tb + rng.choice([-1, 1]) * rng.choice([0, 1, 59, 3600, 86400, 40 * 86400]) * 10 ** 9 * rng.randrange(0, 3)
        tb_file = max(tb_file, 10 ** 9)
        hosts = pool_hosts if shared_hosts else [c01.rand_host(rng, (i % 2 == 1) if v6 == "mixed" else False) for i in range(nh)]
        k = rng.randrange(1, npool + 1)
        chosen = rng.sample(ids, k)
        f = []
        used_first = set()
        for sid in chosen:
            if sid in latest and rng.random() < 0.6:
                s = extend_stream(rng, latest[sid], src, opts)
            else:
                t0 = max(1, tb_file + rng.randrange(-3, 4) * rng.choice([1, 60, 3600]) * 10 ** 9 + rng.randrange(10 ** 9))
                s = c01.gen_stream(rng, sid, hosts, src, t0, opts)
            if c01.first_source(s) in used_first:
                continue
            used_first.add(c01.first_source(s))
            latest[sid] = s
            f.append(s)
        if f:
            files.append(f)
    if len(files) < 2:
        return gen_case(rng, name, regime)
    qs = list(QUERIES)
    some = rng.choice(files)[0]
    qs += ["id:%d sort:id" % some["id"], "cport:%d sort:id" % some["cp"], "chost:%s sort:id" % c01.go_ip(some["ca"]),
           "shost:%s sort:-id" % c01.go_ip(some["sa"])]
    qs += time_queries(rng, files)
    return {"name": name, "regime": regime, "files": files, "queries": qs}


def stream_times(s):
    return s["pk"][0][0] * 10 ** 9 + s["pk"][0][1], s["pk"][-1][0] * 10 ** 9 + s["pk"][-1][1]


def time_queries(rng, files, limit=14):
    """ftime / ltime / time bounds placed relative to the data: at the first/last packet time of generated streams, +-1 us,
    and between the extreme last (first) packet times of different files - the values the search compares with the per-file
    min/max summaries to skip whole files. @T<ns>@ is formatted by the harness in the process' local time zone."""
    pts = set()
    ext = []
    for f in files:
        ts = [stream_times(s) for s in f]
        ext.append((min(a for a, _ in ts), max(a for a, _ in ts), min(b for _, b in ts), max(b for _, b in ts)))
        for a, b in rng.sample(ts, min(2, len(ts))):
            pts |= {a, b, a + 1000, b + 1000, max(1, a - 1000), max(1, b - 1000)}
    for i in range(len(ext)):
        for j in range(i + 1, len(ext)):
            for k in range(4):
                lo, hi = sorted((ext[i][k], ext[j][k]))
                pts.add((lo + hi) // 2)
    allext = [x for e in ext for x in e]
    pts |= {max(1, min(allext) - 10 ** 9), max(allext) + 10 ** 9}
    pts = sorted(p for p in pts if p >= 10 ** 9)       # the date syntax needs a positive year
    qs = []
    for t in rng.sample(pts, min(limit, len(pts))):
        key = rng.choice(["ltime", "ltime", "ftime", "time"])
        form = rng.choice(['%s:"@T%d@:"', '%s:":@T%d@"'])
        qs.append((form % (key, t)) + " sort:id")
    if len(pts) >= 2:
        a, b = sorted(rng.sample(pts, 2))
        qs.append('ltime:"@T%d@:@T%d@" sort:id' % (a, b))
        qs.append('time:"@T%d@:@T%d@" sort:-id' % (a, b))
    return qs


def gen_nested_lifetimes(rng, name):
    """lifetimes that nest across files: a long-lived stream that starts first and ends last in one file, streams that start
    later and end earlier in the other files (both orders), so that after a merge the file's min/max first/last packet
    times come from different streams."""
    hosts = [c01.rand_host(rng, False) for _ in range(3)]
    src = c01.Src(rng, 2)
    tb = c01.time_base(rng) + 86400 * 10 ** 9
    sid = iter(range(1, 100))

    def span(t_first, t_last, n=3):
        s = c01.gen_stream(rng, next(sid), hosts, src, t_first, {"maxpk": 1})
        pk = [[t_first // 10 ** 9, t_first % 10 ** 9, 0, [src.take()]]]
        da = [[0, 3, 1]]
        for i in range(1, n):
            t = t_first + (t_last - t_first) * i // (n - 1)
            pk.append([t // 10 ** 9, t % 10 ** 9, i & 1, [src.take()]])
            da.append([i, 2 + i, i])
        s["pk"], s["da"] = pk, da
        return s
    S = 10 ** 9
    long_ = span(tb, tb + 2000 * S)
    inner = [span(tb + (100 + 50 * i) * S, tb + (300 + 70 * i) * S) for i in range(3)]
    late = [span(tb + 1500 * S, tb + 1600 * S), span(tb + 1900 * S, tb + 1950 * S)]
    order = rng.randrange(3)
    files = [[long_] + inner[:1], inner[1:], late] if order == 0 else ([inner, [long_], late] if order == 1 else [late, inner[:2], [inner[2], long_]])
    c = {"name": name, "regime": "nested_lifetimes", "files": files, "queries": ["sort:id", "sort:-ltime", "sort:ftime"]}
    c["queries"] += time_queries(rng, files, limit=20)
    return c


def gen_big_merge(rng, name):
    """Host-table regimes of the merge: a file whose first IPv6 group is not full (4095 hosts, then a stream
    with two new hosts opens group 1), merged with files that add hosts to the same groups."""
    big = c01.gen_big_hosts(rng, "x", True, extra=3, hit="client_then_server")["streams"]
    src = c01.Src(rng, 2)
    # captures of their own: streams of different ids never share a first packet source
    src.next = {"m_" + c: v for c, v in src.next.items()}
    src.caps = ["m_" + c for c in src.caps]
    tb = 1_600_000_100 * 10 ** 9

    def small(sid, ca, sa, t):
        return {"id": sid, "flags": 0, "ca": ca, "cp": 5, "sa": sa, "sp": 80,
                "pk": [[t // 10 ** 9, t % 10 ** 9, 0, [src.take()]]], "da": [[0, 4, sid & 255]]}
    h = lambda i: (b"\xfe\x80" + i.to_bytes(14, "big")).hex()
    newer = [small(10 ** 6 + i, h(2 * i), h(2 * i + 1), tb + i * 10 ** 9) for i in range(4)] + [copy.deepcopy(big[5])]
    newer[-1]["sp"] = 81
    older = [small(2 * 10 ** 6 + i, h(100 + i), big[-1]["ca"], tb - 86400 * 10 ** 9 + i) for i in range(3)]
    return {"name": name, "regime": "big_hosts", "files": [older, big, newer], "queries": ["sort:id limit:5", "sport:81 sort:id"]}


def gen_turns_merge(rng, name, nturns, big_every=0):
    """A chatty stream (segmentation longer than the 4096-byte blocks AddIndex copies it in, flush threshold 4086) that is
    copied by a merge and FOLLOWED by other copied streams: later in the same file and in older files."""
    hosts = [c01.rand_host(rng, False) for _ in range(3)]
    src = c01.Src(rng, 2)
    # the format (and the model: time = ns since the epoch in N) has no times before 1970: keep a day of room for the older file
    tb = c01.time_base(rng) + 2 * 86400 * 10 ** 9
    opts = {"maxpk": 6, "p_flip": 0.5}
    sid = iter(range(1, 100))

    def small(t):
        return c01.gen_stream(rng, next(sid), hosts, src, t, opts)
    chatty = c01.gen_turns_stream(rng, next(sid), hosts, src, tb, nturns, big_every)
    older = [small(tb - 86400 * 10 ** 9 + i * 10 ** 9) for i in range(3)]
    mid = [small(tb + 5 * 10 ** 9), chatty, small(tb + 7 * 10 ** 9), small(tb + 8 * 10 ** 9)]
    newer = [small(tb + 3600 * 10 ** 9), c01.gen_turns_stream(rng, next(sid), hosts, src, tb + 3601 * 10 ** 9, max(10, nturns // 2), 0),
             small(tb + 3700 * 10 ** 9)]
    files = [older, mid, newer]
    for f in files:
        seen = set()
        f[:] = [s for s in f if not (c01.first_source(s) in seen or seen.add(c01.first_source(s)))]
    return {"name": name, "regime": "many_turns", "files": files, "queries": ["sort:id", "cdata:\".\" sort:id", "sbytes:1: sort:-id"]}


REGIMES = ["v4", "mixed", "sparse", "disjoint_hosts", "captures", "long"]


def wf_case(c):
    for f in c["files"]:
        r = c01.wf_case({"streams": f})
        if r:
            return r
    return None


# ------------------------------------------------------------------ execution
def setup():
    """build the extracted model driver (bin/check --setup calls this; main builds lazily through the same function)"""
    if not have_model():
        return None
    exe, _ = build_model(PROP, "ExtractC07.v", os.path.join(ROOT, "ocaml/c07"), MODEL_DEPS)
    return exe


def run_dir():
    """private per process: two checks running at the same time must not share case/output files"""
    d = os.path.join(BUILD, "run", "c07", "p%d" % os.getpid())
    os.makedirs(d, exist_ok=True)
    return d


def cleanup_run_dir(keep=False):
    import shutil
    base = os.path.join(BUILD, "run", "c07")
    if not keep:
        shutil.rmtree(os.path.join(base, "p%d" % os.getpid()), ignore_errors=True)
    if os.path.isdir(base):
        for n in os.listdir(base):
            if n.startswith("p") and n[1:].isdigit() and not os.path.exists("/proc/" + n[1:]):
                shutil.rmtree(os.path.join(base, n), ignore_errors=True)


def have_model():
    return os.path.exists(os.path.join(COQ, "extract", "ExtractC07.v")) and os.path.exists(os.path.join(ROOT, "ocaml/c07/driver.ml")) \
        and os.path.exists(os.path.join(COQ, "theories", "Merge.v"))


def execute(cases, tag, exe=None, timeout=900, model_cases=None):
    d = run_dir()
    cf = os.path.join(d, "cases_%s.txt" % tag)
    with open(cf, "w") as f:
        for c in cases:
            f.write(case_text(c))
    iout, mout = os.path.join(d, "impl_%s.out" % tag), os.path.join(d, "model_%s.out" % tag)
    for p in (iout, mout):
        if os.path.exists(p):
            os.remove(p)
    ov = go_overlay(HARNESS, "c07_p%d" % os.getpid())
    t0 = time.time()
    rc, out, _ = go_test("./internal/index/", ov, "^TestVerifC07$", {"VERIF_CASES": cf, "VERIF_OUT": iout}, timeout=timeout)
    tgo = time.time() - t0
    note = "" if rc == 0 else "go harness rc=%d: %s" % (rc, out[-1500:])
    model, tm = None, 0
    if exe:
        mcf = cf
        if model_cases is not None:
            mcf = os.path.join(d, "mcases_%s.txt" % tag)
            with open(mcf, "w") as f:
                for c in model_cases:
                    f.write(case_text(c))
        t0 = time.time()
        rc2, out2, _ = run(["bash", "-c", "ulimit -s unlimited 2>/dev/null || ulimit -s 1000000; export OCAMLRUNPARAM=s=64M,o=400; exec \"$0\" \"$1\" \"$2\"", exe, mcf, mout], timeout=timeout)
        tm = time.time() - t0
        if rc2 != 0:
            note += " model driver rc=%d: %s" % (rc2, out2[-500:])
        model = c01.split_cases(mout)
    return c01.split_cases(iout), model, note, (tgo, tm)


def minimise(c, kind, what, exe):
    """drop files, then streams, while the same kind of failure remains"""
    def fails_case(c2):
        if len(c2["files"]) < 1 or any(not f for f in c2["files"]) or wf_case(c2):
            return False
        im, mo, _, _ = execute([c2], "min", exe if kind == "model!=spec" else None, timeout=300)
        js = judge(c2, im.get(c2["name"], []), mo.get(c2["name"]) if mo else None)
        return any(k == kind for k, _ in js)
    cur = dict(c, name="min")
    if not fails_case(cur):
        return c
    budget = 30
    # files
    i = 0
    while i < len(cur["files"]) and len(cur["files"]) > 1 and budget > 0:
        c2 = dict(cur, files=cur["files"][:i] + cur["files"][i + 1:])
        budget -= 1
        if fails_case(c2):
            cur = c2
        else:
            i += 1
    # streams (only for small files)
    for fi in range(len(cur["files"])):
        si = 0
        while si < len(cur["files"][fi]) and len(cur["files"][fi]) > 1 and len(cur["files"][fi]) <= 12 and budget > 0:
            nf = cur["files"][fi][:si] + cur["files"][fi][si + 1:]
            c2 = dict(cur, files=cur["files"][:fi] + [nf] + cur["files"][fi + 1:])
            budget -= 1
            if fails_case(c2):
                cur = c2
            else:
                si += 1
    return cur


def main(tier, seed, replay=None):
    t0 = time.time()
    proof = Proof(PROP, tier=tier)
    exe = setup()
    rng = random.Random(seed)
    cases = []
    if replay:
        obj = json.load(open(replay))
        c = obj["case"] if "case" in obj else obj
        c.setdefault("name", "replay")
        cases = [c]
    else:
        cdir = os.path.join(ROOT, "corpus", PROP)
        if os.path.isdir(cdir):
            for fn in sorted(os.listdir(cdir)):
                if fn.endswith(".json"):
                    obj = json.load(open(os.path.join(cdir, fn)))
                    c = obj["case"] if "case" in obj else obj
                    c["name"] = "corpus_" + fn[:-5]
                    c.setdefault("regime", "corpus")
                    cases.append(c)
        n = 150 if tier == "quick" else 4000
        for i in range(n):
            reg = REGIMES[i % len(REGIMES)]
            cases.append(gen_case(rng, "g%d_%s" % (i, reg), reg))
        cases.append(gen_big_merge(rng, "big_merge_v6"))
        for j in range(6 if tier == "quick" else 120):
            cases.append(gen_nested_lifetimes(rng, "nested%d" % j))
        turns = [4400, 8200] if tier == "quick" else c01.TURNS
        for j, nt in enumerate(turns):
            cases.append(gen_turns_merge(rng, "turns%d_%d" % (j, nt), nt, big_every=(7 if j % 2 else 0)))
    bad = [(c["name"], wf_case(c)) for c in cases if wf_case(c)]
    if bad and not replay:
        raise RuntimeError("generator produced inputs outside wf_input: %r" % bad[:3])
    mcases = [c for c in cases if not (tier == "quick" and c.get("regime") == "big_hosts")]
    impl, model, note, times = execute(cases, "main", exe, model_cases=mcases)
    nviol = 0
    kinds, first_bad = {}, {}
    harness_dead = bool(note) and not impl
    nmerge = 0
    for c in ([] if harness_dead else cases):
        nmerge += 2 * len(c["files"])
        ml = model.get(c["name"], ["<no output>"]) if (model is not None and c in mcases) else None
        for k, det in judge(c, impl.get(c["name"], ["<no output>"]), ml):
            kinds[k] = kinds.get(k, 0) + 1
            first_bad.setdefault(k, (c, det))
    if replay:
        c = cases[0]
        print("input files:", [[s["id"] for s in f] for f in c["files"]])
        print("judgement:", judge(c, impl.get(c["name"], []), model.get(c["name"]) if model else None))
        print("impl output:", os.path.join(run_dir(), "impl_main.out"))
    for k, (c, det) in first_bad.items():
        cm = minimise(c, k, det.get("what"), exe) if not replay else c
        im, mo, _, _ = execute([cm], "rep", exe, timeout=300)
        js = judge(cm, im.get(cm["name"], []), mo.get(cm["name"]) if mo else None)
        obj = {"property": PROP, "kind": k, "case": cm, "detail": [d for kk, d in js if kk == k][:3] or det, "count_in_run": kinds[k],
               "seed": seed, "regime": c.get("regime"), "note": note, "replay_cmd": "bin/check C07 --replay <this file>"}
        if k == "impl!=spec":
            violation(PROP, obj)
        else:
            obj["broken"] = "correspondence: the extracted merge model (theories/Merge.v) disagrees with the oracle although the implementation agrees; the theorems of props/C07.v no longer speak about this code"
            violation(PROP, obj, no_input=True)
        nviol += 1
    if not first_bad and note:
        violation(PROP, {"property": PROP, "broken": "correspondence harness could not run against this tree", "note": note}, no_input=True)
        nviol += 1
    if proof is not None and not proof.good() and nviol == 0:
        violation(PROP, {"property": PROP, "broken": proof.failure_text(), "searched_cases": len(cases)}, no_input=True)
        nviol += 1
    cov = proof.coverage() if proof is not None else {"obligations": 0, "discharged": 0, "checker_cmd": "(props/C07.v not present yet)"}
    dist = {}
    for c in cases:
        dist[c.get("regime", "?")] = dist.get(c.get("regime", "?"), 0) + 1
    overlap = sum(1 for c in cases if len({s["id"] for f in c["files"] for s in f}) < sum(len(f) for f in c["files"]))
    cov.update({
        "trusted_base": TRUSTED_COMMON + [
            "Python oracle in checks/c07.py: visible = newest file wins, per-stream observables from checks/c01.py (round trip)",
            "search battery compares SearchStreams results before/after a merge up to permutation of equal sort keys; the search itself is C02's subject",
            "modelled rather than verified: os.File/bufio/io.CopyN/seekbufio (file = byte list), Go map iteration order",
        ],
        "evaluations": nmerge,
        "cases": len(cases),
        "distinct_nontrivial": len({json.dumps(c["files"], sort_keys=True) for c in cases if overlap}),
        "cases_with_overlapping_ids": overlap,
        "rule": "each case = 2-6 generated index files; Merge on every suffix and again on the resulting stack (2 merges per suffix); non-trivial = stacks with at least one id in several files; compared: visible before/after on the implementation, input oracle, extracted model, %d searches per stack, source readers before/after" % len(QUERIES),
        "regime_distribution": dist,
        "model_in_loop": exe is not None,
        "go_seconds": round(times[0], 1), "model_seconds": round(times[1], 1),
        "failure_kinds": kinds,
        "samples": [cases[len(cases) // 2]["name"], case_text(cases[len(cases) // 2])[:1500]],
        "disagreements": nviol,
    })
    known, fixed = known_findings(PROP)
    cov["fixed_findings"] = fixed
    write_evidence(PROP, tier, seed, cov,
                   ["every input file satisfies wf_input of C01", "absolute times between 1970 and 2262"],
                   time.time() - t0, nviol)
    cleanup_run_dir(keep=bool(nviol) or bool(replay))
    return 1 if nviol else 0
