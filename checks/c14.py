"""C14 -- the query parser is total.

Coq: theories/Query.v, QueryTotal.v (fuel bounds, no panic branch, determinism), props/C14.v.
Tie: grammar-driven token sequences, well-formed queries with variable arithmetic / long lists / deep nesting /
negated disjunctions, byte-level mutations and malformed values. Every input is parsed by a WORKER SUBPROCESS
(harness/c14 + harness/c03, overlay in package query) under a watchdog of this process: a Parse that does not
come back is killed with its process group and attributed to the input (BEGIN without END). Each accepted text
is parsed twice and both normal forms are evaluated on the same valuations. Parse time is recorded per size of
the normal form (a measurement written to the evidence, not a theorem).
"""
import atexit
import json
import os
import random
import shutil
import signal
import subprocess
import time

from vplib import *
import c03

PROP = "C14"
HARNESS = {"internal/query/zz_verif_c03_test.go": os.path.join(ROOT, "harness/c03/zz_verif_c03_test.go"),
           "internal/query/zz_verif_c14_test.go": os.path.join(ROOT, "harness/c14/zz_verif_c14_test.go")}
EXTRACT = "ExtractC03.v"
MODEL_DEPS = ["theories/Query.v"]
BOUND = 256        # promptness / termination is judged for inputs whose intermediate normal forms stay below this many conjuncts
MAX_RESTARTS = 12   # after that many killed workers the tree is broken anyway; the rest is not run
WATCHDOG_S = 2.0   # BEGIN without END for this long (wall) AND ...
WATCHDOG_CPU_S = 1.5   # ... this much CPU time burnt by the worker since BEGIN = hang (machine load alone never is)
WATCHDOG_WALL_S = 20.0   # BEGIN without END for this long whatever the CPU time = hang (blocked)

# ------------------------------------------------------------------ generators
VOCAB = ["id", "tag", "service", "mark", "protocol", "generated", "ftime", "ltime", "time", "cdata", "sdata", "data",
         "cport", "sport", "port", "chost", "shost", "host", "cbytes", "sbytes", "bytes", "sort", "limit", "group",
         "or", "and", "then", "OR", "AND", "THEN", "(", ")", "-", "!", "@a:", "@b:", ".conv", ".b64",
         ":1", ":80", ":1:2", "::", ":", ":a,b", ":tcp", ":udp,tcp", ":1.2.3.4/24", ":::1", ":-5m", ":-1h:-5m", ':"x y"', ':"', '="a""b"',
         ":@id@", ":@a:cport@+1", ":@sport@+@sport@", ":x", ":id,", ":,id", ":id,,ftime", ':""', ':" "', ":,", ":-", ":-id", ':"id, ,-ftime"', "=", ":[0-9]+", ":(", ":\\)", " ", "  ", "\t", "\n", ",", "@", '"']


def g_tokens(rng):
    n = rng.randrange(1, 14)
    out = []
    for _ in range(n):
        t = rng.choice(VOCAB)
        out.append(t)
        if rng.random() < 0.5 and t not in (" ", "\t"):
            # keys are usually followed by a value, words by a blank
            out.append(rng.choice([" ", " ", ":1", ":a", ":x", ":tcp", ":1.2.3.4", ":-5m", ":@id@"]))
    return "".join(out).encode()


def g_arith(rng):
    """number / time filters whose bounds repeat variables (factors != +-1)"""
    def summands(vars_, consts):
        out = []
        for v in rng.sample(vars_, rng.randrange(1, min(4, len(vars_)) + 1)):
            k = rng.choice([1, 2, 2, 3, 4, 6])
            sub = rng.choice(["", "", "a:", "b:"])
            sign = rng.choice(["+", "+", "-"])
            out += [sign + "@" + sub + v + "@"] * k
        if rng.random() < 0.7:
            out.append(rng.choice(["+", "-"]) + str(rng.choice(consts)))
        rng.shuffle(out)
        s = "".join(out)
        return s[1:] if s.startswith("+") else s
    if rng.random() < 0.7:
        key = rng.choice(c03.NUMKEYS)
        b = lambda: summands(c03.NUMVARS, [0, 1, 2, 3, 4, 6, 9, 12, 100])
    else:
        key = rng.choice(["ftime", "ltime", "time"])
        b = lambda: summands(["ftime", "ltime"], ["5m", "1h", "3s", "0s"])
    r = rng.random()
    if r < 0.4:
        v = b()
    elif r < 0.7:
        v = b() + ":" + b()
    elif r < 0.85:
        v = b() + ":"
    else:
        v = ":" + b()
    t = key + ":" + v
    if rng.random() < 0.3:
        t = "@" + rng.choice(["a", "b"]) + ":" + t
    r = rng.random()
    if r < 0.3:
        t = "-" + t
    elif r < 0.5:
        t = t + " " + rng.choice(["cport:80", "-" + key + ":" + b(), "tag:a"])
    elif r < 0.6:
        t = "-(" + t + " or " + key + ":" + b() + ")"
    return t.encode()


# arithmetic on variables whose repeated occurrences cancel (factor 0 summands are removed while the bound is built):
# the 2nd / 3rd variable cancels, the filtered attribute itself among the summands, sub-query variables, both bounds
ARITH_FIXED = ["cport:@cport@+@sport@", "cport:@sport@-@sport@", "cport:@cport@+@sport@-@sport@", "cport:@sport@-@sport@+@cport@",
               "sbytes:@sbytes@+@cbytes@-@cbytes@:", "id::@id@-@a:id@+@a:id@ @a:id:1", "port:@cport@+@sport@-@sport@,80",
               "cport:@sport@-@sport@+5", "cport:@sport@+@sport@-@sport@-@sport@", "cport:@sport@-@sport@+@cbytes@-@cbytes@",
               "cport:@cport@-@cport@", "cport:@cport@-@cport@+@sport@", "cport:@cport@+@cport@-@cport@", "cport:@cport@+@sport@-@sport@+@cbytes@-@cbytes@",
               "cport:@sport@+@cbytes@-@sport@-@cbytes@+@cport@", "cport:@sport@+@cbytes@-@cbytes@-@sport@", "cport:@id@+@sport@-@sport@:@cbytes@-@cbytes@+@cport@",
               "id:@a:id@+@a:id@-@a:id@-@a:id@ @a:id:1", "id:@a:id@+@a:id@-@a:id@-@a:id@+@id@ @a:id:1", "id:@id@+@a:id@-@a:id@+@b:id@-@b:id@ @a:id:1 @b:id:2",
               "id:@a:id@-@a:id@+@b:id@ @a:id:1 @b:id:2", "@a:cport:@cport@-@cport@+@a:cport@", "@a:cport:@a:cport@+@sport@-@sport@", "@a:id:@id@-@id@+@a:id@",
               "bytes:@cbytes@+@sbytes@-@sbytes@", "bytes:@sbytes@-@sbytes@+@cbytes@,5", "port:@sport@-@sport@", "port:@sport@-@sport@+@cport@:",
               "sport:@cport@+@cport@-@cport@-@cport@+@sport@+@sport@", "cbytes:@sbytes@-@sbytes@+@cbytes@+@cbytes@+3", "-cport:@cport@+@sport@-@sport@", "-(cport:@sport@-@sport@ or id:@id@-@id@)",
               "ftime:@ftime@+@ltime@-@ltime@", "ftime:@ltime@-@ltime@", "ftime:@ltime@-@ltime@+@ftime@:", "ltime::@ltime@+@ftime@-@ftime@", "time:@ftime@-@ftime@+@ltime@-@ltime@:",
               "ftime:@a:ftime@-@a:ftime@+@ftime@ @a:id:1", "ftime:@ftime@-@ftime@+5m", "ltime:@ftime@+@ftime@-@ftime@-@ftime@+@ltime@"]


def g_cancel(rng):
    """number / time bounds in which the occurrences of one or two variables cancel, in random order, next to survivors"""
    timek = rng.random() < 0.25
    key = rng.choice(["ftime", "ltime", "time"]) if timek else rng.choice(c03.NUMKEYS)
    vars_ = ["ftime", "ltime"] if timek else c03.NUMVARS
    own = key if key in vars_ else rng.choice(vars_)
    def bound():
        parts = []
        for v in rng.sample(vars_, rng.randrange(1, min(3, len(vars_)) + 1)):
            sub = rng.choice(["", "", "", "a:", "b:"])
            k = rng.choice([1, 1, 2, 3])
            parts += ["+@" + sub + v + "@"] * k + ["-@" + sub + v + "@"] * k
        r = rng.random()
        if r < 0.6:
            parts += ["+@" + own + "@"] * rng.choice([1, 1, 2])
        elif r < 0.75:
            parts += [rng.choice(["+", "-"]) + "@" + rng.choice(["", "a:"]) + rng.choice(vars_) + "@"]
        if rng.random() < 0.4:
            parts.append(rng.choice(["+", "-"]) + (rng.choice(["5m", "1h", "0s"]) if timek else str(rng.choice([0, 1, 5, 80]))))
        rng.shuffle(parts)
        s = "".join(parts)
        return s[1:] if s.startswith("+") else s
    r = rng.random()
    v = bound() if r < 0.45 else (bound() + ":" + bound() if r < 0.7 else (bound() + ":" if r < 0.85 else ":" + bound()))
    if rng.random() < 0.2:
        v += "," + rng.choice(["5m:" if timek else "80", bound()])
    t = key + ":" + v
    r = rng.random()
    if r < 0.2:
        t = "@" + rng.choice("ab") + ":" + t
    if rng.random() < 0.2:
        t = "-" + t
    if "@a:" in t:
        t += " @a:id:1"
    if "@b:" in t:
        t += " @b:id:2"
    return t.encode()


def g_longlist(rng, tier):
    n = rng.choice([10, 50, 200, 500, 1000, 2000] if tier == "thorough" else [10, 50, 200, 500, 2000])
    kind = rng.choice(["id", "id", "idrange", "cport", "tag", "host", "proto"])
    if kind == "id":
        return ("id:" + ",".join(str(rng.randrange(0, 5000)) for _ in range(n))).encode()
    if kind == "idrange":
        return ("id:" + ",".join("%d:%d" % (a, a + rng.randrange(0, 5)) for a in (rng.randrange(0, 5000) for _ in range(n)))).encode()
    if kind == "cport":
        n = min(n, 500)
        return ("cport:" + ",".join(str(rng.randrange(0, 65536)) for _ in range(n))).encode()
    if kind == "tag":
        n = min(n, 500)
        return ("tag:" + ",".join("t%d" % rng.randrange(0, 300) for _ in range(n))).encode()
    if kind == "host":
        n = min(n, 200)
        return ("chost:" + ",".join("10.%d.%d.%d" % (rng.randrange(256), rng.randrange(256), rng.randrange(256)) for _ in range(n))).encode()
    return ("protocol:" + ",".join(rng.choice(["tcp", "udp", "sctp", "other"]) for _ in range(min(n, 200)))).encode()


# numerals whose MAGNITUDE must not matter: a range costs two conditions however wide it is
WIDE_NUMS = [65535, 65536, 1 << 20, (1 << 20) + 1, 30000000, 50000000, (1 << 31) - 1, 1 << 31, (1 << 32) - 1, 1 << 32, (1 << 32) + 1,
             4000000000, 10 ** 10, 10 ** 12, 1 << 53, (1 << 62), (1 << 63) - 2, (1 << 63) - 1]
WIDE_FIXED = ["id:1:30000000", "id::50000000", "id:0:4000000000", "id:0:4294967296", "id:5,7:4294967296,9", "id:1,2,3,10:9223372036854775806",
              "id:0:9223372036854775807", "id::9223372036854775806", "id:3:4,100:100000000,7", "id:1:2 or id:3:3000000000", "-id:2:4000000000",
              "id:1,2 or id:9:90000000 or id:4", "cport:0:4000000000", "port:1:4294967295", "bytes:0:9223372036854775806", "cbytes::1000000000000",
              "sbytes:5,6:99999999999,8", "id:1000000:2000000,3000000:900000000", "id:4294967295:8589934592", "(id:1:70000000)", "id:1:70000000 sort:id",
              "id:" + ",".join("%d:%d" % (k * 10 ** 9, k * 10 ** 9 + 5 * 10 ** 8) for k in range(1, 9))]


def g_wide(rng):
    """lists mixing single values, narrow and very wide ranges, numerals near 2^16 / 2^32 / 2^63"""
    key = rng.choice(["id", "id", "id", "id", "cport", "sport", "port", "cbytes", "sbytes", "bytes"])
    def num():
        r = rng.random()
        if r < 0.35:
            return rng.randrange(0, 5000)
        n = rng.choice(WIDE_NUMS)
        return max(0, n + rng.choice([0, 0, -1, 1, -rng.randrange(1000), rng.randrange(1000)]))
    def item():
        r = rng.random()
        if r < 0.35:
            return str(num())
        if r < 0.85:
            a, b = num(), num()
            if rng.random() < 0.85:
                a, b = min(a, b), max(a, b)
            return "%d:%d" % (a, b)
        if r < 0.93:
            return ":%d" % num()
        return "%d:" % num()
    def flt():
        t = key + ":" + ",".join(item() for _ in range(rng.choice([1, 1, 1, 2, 3, 5, 10])))
        if rng.random() < 0.15:
            t = "@" + rng.choice("ab") + ":" + t
        return t
    t = flt()
    r = rng.random()
    if r < 0.2:
        t = t + " or " + flt()
    elif r < 0.3:
        t = "-" + t
    elif r < 0.4:
        t = "(" + t + ") " + rng.choice(["sort:id", "limit:5", "tag:a", "cdata:x"])
    elif r < 0.45:
        t = "-(" + t + " or " + flt() + ")"
    return t.encode()


# lists with empty / blank / duplicated / negated / quoted-empty elements, for directive terms and for every filter key
SORTKEYS = ["id", "ftime", "ltime", "cbytes", "sbytes", "chost", "shost", "cport", "sport", "nope", "ID", "tag"]
EMPTY_FIXED = ["sort:id,", "sort:,id", "sort:id,,ftime", 'sort:""', 'sort:" "', 'sort:"id, ,ftime"', "sort:,", "sort:,,", "sort:-", 'sort:"-"', 'sort:" - "', "sort:-,id",
               "sort:id,-", 'sort:"-id, -"', "sort:--id", "sort:-id,-id", "sort:id,id,id", 'sort:"  id  ,  -ftime  "', "sort=id,", 'SORT:""', "cport:80 sort:id,", "(sort:,id)",
               "-sort:id,", "sort:id, or cport:1", "@a:sort:id,", 'limit:""', 'limit:" "', "limit:,", "limit:1,", "limit:-", "limit:+1", 'limit:" 5 "', "limit:5,5", "limit:0", "limit:1e3",
               'group:""', 'group:" "', "group:,", 'group:","', 'group:"@"', 'group:"@@"', 'group:"@,@"', 'group:"@a@,,@b@"', "group:-", 'group:"-"',
               "id:,", "id:1,", "id:,1", "id:1,,2", 'id:""', 'id:" "', 'id:"1, ,2"', "cport:,", "cport:1,", 'cport:""', 'cport:" "', "bytes:,", 'bytes:""',
               "tag:a,", "tag:,a", 'tag:" "', 'tag:"a, ,b"', 'service:""', "protocol:,tcp", "protocol:tcp,,udp", 'protocol:""', 'protocol:" "',
               "chost:,1.2.3.4", "chost:1.2.3.4,", "chost:1.2.3.4,,::1", 'chost:""', 'chost:" "', 'host:"1.2.3.4, "', "chost:/", "chost:/24", "chost:1.2.3.4/,", "chost:@chost@/,",
               "ftime:,", "ftime:-5m,", "ftime:,-5m", 'ftime:""', 'ftime:" "', 'time:"-5m:, "', "ltime::,", "id::,", "cport:1:,2", "cport:-", "cport:+", 'cport:"-"', "id:@id@,", "id:@@", "id:@,@",
               'cdata:""', 'cdata:" "', 'cdata.b64:""', "cdata.:", 'cdata.:""', 'data:"" then cdata:""', '-cdata:""', 'cdata:"" or sort:""']


def g_emptylist(rng):
    """a directive (sort / limit / group) or filter term whose value list has empty, blank, duplicated, negated elements"""
    r = rng.random()
    if r < 0.5:
        key = rng.choice(["sort", "sort", "sort", "limit", "group", "Sort", "LIMIT"])
        pool = SORTKEYS if key.lower() == "sort" else (["1", "5", "0", "10", "x"] if key.lower() == "limit" else ["a", "@x@", "@a:y@", "x@y@z"])
    else:
        key = rng.choice(["id", "cport", "port", "bytes", "tag", "service", "protocol", "chost", "host", "ftime", "time", "cdata", "data"])
        pool = {"tag": ["a", "b"], "service": ["a"], "protocol": ["tcp", "udp", "@a:protocol@"], "chost": ["1.2.3.4", "::1/64", "@shost@"],
                "host": ["10.0.0.1/8", "@a:chost@"], "ftime": ["-5m", "1h:", ":-3s", "@ltime@"], "time": ["-5m:", "-1h:-5m"],
                "cdata": ["x", "y"], "data": ["x"]}.get(key, ["1", "80", "1:5", "@id@", "@a:cport@+1"])
    n = rng.choice([1, 2, 2, 3, 4])
    els = []
    for _ in range(n):
        x = rng.random()
        if x < 0.3:
            e = rng.choice(["", "", " ", "  ", "-", " - ", "\t"])
        else:
            e = rng.choice(pool)
            if x < 0.5:
                e = "-" + e
            elif x < 0.6:
                e = " " + e + " "
            elif x < 0.65 and els:
                e = els[-1]
        els.append(e)
    v = ",".join(els)
    if rng.random() < 0.12:
        v = ""
    quoted = (" " in v or "\t" in v or v == "" or rng.random() < 0.3)
    v = v.replace("\t", "\t" if not quoted else " ")
    sep = rng.choice([":", ":", ":", "="])
    t = key + sep + ('"' + v.replace('"', '""') + '"' if quoted else v)
    if rng.random() < 0.15:
        t = "@" + rng.choice("ab") + ":" + t
    r = rng.random()
    if r < 0.25:
        t = rng.choice(["cport:80 ", "tag:a ", "cdata:x then ", "-", "(", "id:1 or "]) + t + (")" if r < 0.04 else "")
    elif r < 0.4:
        t = t + rng.choice([" cport:80", " or tag:a", " sort:id", " limit:1", " then cdata:x", ")"])
    return t.encode()


# products of value lists: n x m (x k) conjuncts, each pair combined by ConditionsSet.And; below the judged bound
def _vals(key, n, rng=None, start=1):
    if key in ("cport", "sport", "port", "id", "cbytes", "sbytes", "bytes"):
        xs = list(range(start, start + n)) if rng is None else rng.sample(range(0, 60000), n)
        return ",".join(str(x) for x in xs)
    if key == "tag":
        return ",".join("t%d" % (start + i) for i in range(n))
    if key == "chost":
        return ",".join("10.%d.%d.%d" % ((start + i) // 250, (start + i) % 250, 1 + i % 200) for i in range(n))
    if key == "ftime":
        return ",".join("-%dm:" % (start + i) for i in range(n))
    return ",".join(["tcp", "udp", "sctp", "other"][:n])


PRODUCT_FIXED = ["cport:" + _vals("cport", 80) + " sbytes:1,2,3",
                 "cport:" + _vals("cport", 60) + " sbytes:1,2,3,4",
                 "sport:" + _vals("sport", 100) + " tag:a,b",
                 "id:" + _vals("id", 50) + " cport:80,443,8080,22,25",
                 "tag:" + _vals("tag", 64) + " cbytes:1,2,3,4",
                 "chost:" + _vals("chost", 40) + " sport:1,2,3,4,5,6",
                 "cport:" + _vals("cport", 12) + " sbytes:" + _vals("sbytes", 7) + " tag:a,b,c",
                 "cport:" + _vals("cport", 10) + " sport:" + _vals("sport", 5) + " cbytes:1,2,3,4,5",
                 "cport:" + _vals("cport", 40) + " (sbytes:1,2,3 or tag:a,b,c)",
                 "(cport:" + _vals("cport", 85) + ") (sbytes:1 or sbytes:2 or sbytes:3)",
                 "cport:" + _vals("cport", 30) + " protocol:tcp,udp ftime:-5m:,-1h:,-2h:,-3h:"]


def g_product(rng):
    """AND of two or three value lists on different keys whose product stays below the judged bound"""
    keys = rng.sample(["cport", "sport", "id", "cbytes", "sbytes", "tag", "chost", "ftime", "protocol"], 3)
    if rng.random() < 0.65:
        m = rng.choice([2, 3, 3, 4, 5])
        n = rng.randrange(40, 101)
        while n * m > BOUND - 6:
            n -= 1
        dims = [(keys[0] if keys[0] != "protocol" else "cport", n), (keys[1], m)]
    else:
        a, b, c = rng.randrange(5, 13), rng.randrange(3, 8), rng.randrange(2, 5)
        while a * b * c > BOUND - 6:
            a -= 1
        dims = [(keys[0] if keys[0] != "protocol" else "sport", a), (keys[1], b), (keys[2], c)]
    parts = []
    for key, n in dims:
        if key == "protocol":
            n = min(n, 4)
        if key in ("cport", "sport", "id", "cbytes", "sbytes") and rng.random() < 0.7:
            parts.append(key + ":" + _vals(key, n, rng))
        else:
            parts.append(key + ":" + _vals(key, n, None, rng.randrange(1, 50)))
    rng.shuffle(parts)
    sep = rng.choice([" ", " ", " and ", " AND "])
    t = sep.join(parts)
    if rng.random() < 0.15:
        t = "(" + t + ") sort:id"
    return t.encode()


def g_deep(rng):
    depth = rng.choice([5, 6, 7, 8])
    def rec(d):
        if d == 0:
            return ("atom", rng.choice(["cport:80", "tag:a", "cdata:x", "sport:1:5", "-5m:", "protocol:tcp", "chost:1.2.3.4"]).replace("-5m:", "ftime:-5m:"))
        r = rng.random()
        if r < 0.35:
            return ("not", rec(d - 1))
        k = rng.choice(["and", "and", "or", "then"])
        other = ("atom", rng.choice(["cport:80", "tag:b", "sdata:y", "id:3"]))
        kids = [rec(d - 1), other]
        rng.shuffle(kids)
        return (k, kids)
    tr = rec(depth)
    while c03.max_cost(tr) > BOUND:
        tr = rec(depth)
    return c03.render(tr, rng).encode()


def g_negdisj(rng):
    """negated disjunctions up to the stated bound (and a few beyond it: those are not judged)"""
    n = rng.choice([2, 3, 4, 5, 6, 8])
    alts = []
    for _ in range(n):
        alts.append(rng.choice(["cport:%d" % rng.randrange(100), "tag:%s" % rng.choice("abc"), "cdata:%s" % rng.choice("xyz"),
                                "sport:%d:%d" % (rng.randrange(50), rng.randrange(50, 100)), "protocol:tcp", "chost:10.0.0.%d" % rng.randrange(9)]))
    t = "-(" + " or ".join(alts) + ")"
    if rng.random() < 0.4:
        t += " " + rng.choice(["tag:a", "cport:80", "-(id:1 or id:3)"])
    return t.encode()


BADVALUES = ["cport:99999999999999999999", "cport:-99999999999999999999:", "id:9223372036854775807", "id:9223372036854775808", "cport:1:2:3", "cport:1,,2",
             "cport:,", "cport:+", "cport:--", "cport:@nope@", "cport:@ftime@", "cport:@a:@", "cport:@:id@", "sport:1+@id", "bytes:1e5", "id:0x10",
             "chost:999.1.1.1", "chost:1.2.3", "chost:1.2.3.4/999", "chost:1.2.3.4/-999", "chost:1.2.3.4/129", "chost:1.2.3.4/-129", "chost:::/200", "chost:1.2.3.4/",
             "chost:gggg::1", "chost::::::::::", "chost:@cport@", "chost:@chost@/24/24/-3", "host:1.2.3.4/32768", "host:1.2.3.4/-32769",
             "protocol:icmp", "protocol:TCP", "protocol:", "protocol:tcp,", "protocol:@cport@", "protocol:@a:protocol@,@b:protocol@",
             'ftime:"2024-13-45 9999"', 'ftime:"2024-01-02 2561"', "ftime:1200", "ftime:5", "ftime:5x", "ftime:1.5.5h", "ftime:-", "ftime:99999999999h", "ftime:-99999999999h:",
             'time:"0000-00-00 0000"', 'ltime:"9999-12-31 2359"', "ftime:@cport@", "ftime:@ftime@+@ftime@", "ftime:1h1h1h1h", "ftime:.5s", "ftime:5.s",
             'cdata:"("', 'cdata:"[z-a]"', 'cdata:"a{99999}"', 'cdata:"(?P<x>a)(?P<x>b)"', 'cdata:"\\\\"', 'cdata:"@x@"', 'cdata:"@a:x@@b:y@"', 'cdata:"@@"', 'cdata:"@"',
             'cdata:"a{1000}{1000}"', "cdata.:x", "cdata.a.b:x", "cport.conv:1", "cdata.conv", 'sdata:"' + "a" * 5000 + '"', 'cdata:"' + "(a|" * 200 + "b" + ")" * 200 + '"',
             "tag:", 'tag:""', "tag:a/b", "tag:,", "tag:a,,b", 'tag:"a b"', "mark:\xff", "tag:\x00", "service:" + "x" * 10000,
             "sort:", "sort:nope", "sort:id sort:id", "limit:-1", "limit:99999999999999999999", "limit:1 limit:2", "limit:x", "group:", 'group:"@x@"', "group:a group:b", 'group:"@"',
             "@:cport:1", "@a:@b:cport:1", "@a:", "@a:sort:id", "(", ")", "()", "(()", "-", "--", "- -", "-()", "or", "and", "then", "a or", "cport:1 or", "cport:1 then", "then cport:1",
             "cport:1 or or cport:2", "cport:1 and and cport:2", "-sort:id", "-limit:3", "(sort:id)", "-(sort:id limit:3)", "sort:id or limit:1", "cport=80", 'cport="80"', "CPORT:80", "cPort:80 Or sPort:90 tHen -DATA:x",
             "", " ", "\t\n", "cport:80\x00", "\x00", "\xff\xfe", "cport:\xf0\x9f\x98\x80", "tag:\xf0\x9f\x98\x80", 'cdata:"\xf0\x9f\x98\x80+"', "cport:٣", "id:1" + " " * 5000 + "id:2"]


def mutate(rng, b):
    b = bytearray(b)
    for _ in range(rng.choice([1, 1, 2, 3])):
        r = rng.random()
        if not b or r < 0.3:
            b.insert(rng.randrange(len(b) + 1), rng.choice(b'()-!:="@,.+ \t\\/') if rng.random() < 0.7 else rng.randrange(256))
        elif r < 0.55:
            del b[rng.randrange(len(b))]
        elif r < 0.8:
            b[rng.randrange(len(b))] = rng.choice(b'()-!:="@,.+ \\/0') if rng.random() < 0.6 else rng.randrange(256)
        elif r < 0.9:
            i, j = sorted((rng.randrange(len(b) + 1), rng.randrange(len(b) + 1)))
            b[i:i] = b[i:j]
        else:
            i = rng.randrange(len(b))
            b[i] ^= 1 << rng.randrange(8)
    return bytes(b)


def g_wellformed(rng):
    reg = rng.choice(["easy", "data", "mixed", "vars", "subq", "seq"])
    depth = rng.choice([1, 2, 3, 4])
    gen = (lambda: c03.g_seq(rng, min(max(depth, 2), 3))) if reg == "seq" else (lambda: c03.g_expr(rng, depth, reg))
    tr = gen()
    # one inserted negation in front of the whole text must still be of moderate size
    while c03.max_cost(("not", tr)) > BOUND:
        tr = gen()
    return c03.render(tr, rng).encode()


REGIMES = [("wellformed", 0.21), ("arith", 0.13), ("longlist", 0.03), ("wide", 0.03), ("emptylist", 0.05), ("product", 0.012), ("cancel", 0.03), ("deep", 0.06), ("negdisj", 0.08),
           ("tokens", 0.14), ("mutate", 0.16), ("badvalues", 0.068)]


def gen_inputs(rng, n, tier):
    inputs, regs = [], []
    for i, v in enumerate(BADVALUES):
        inputs.append(v.encode("latin-1") if any(ord(c) > 127 and ord(c) < 256 for c in v) and all(ord(c) < 256 for c in v) else v.encode("utf-8"))
        regs.append("badvalues")
    for v in WIDE_FIXED:
        inputs.append(v.encode())
        regs.append("wide")
    for v in EMPTY_FIXED:
        inputs.append(v.encode())
        regs.append("emptylist")
    for v in PRODUCT_FIXED:
        inputs.append(v.encode())
        regs.append("product")
    for v in ARITH_FIXED:
        inputs.append(v.encode())
        regs.append("cancel")
    while len(inputs) < n:
        x, acc = rng.random(), 0.0
        reg = REGIMES[-1][0]
        for name, p in REGIMES:
            acc += p
            if x < acc:
                reg = name
                break
        if reg == "wellformed":
            b = g_wellformed(rng)
        elif reg == "arith":
            b = g_arith(rng)
        elif reg == "longlist":
            b = g_longlist(rng, tier)
        elif reg == "wide":
            b = g_wide(rng)
        elif reg == "emptylist":
            b = g_emptylist(rng)
        elif reg == "product":
            b = g_product(rng)
        elif reg == "cancel":
            b = g_cancel(rng)
        elif reg == "deep":
            b = g_deep(rng)
        elif reg == "negdisj":
            b = g_negdisj(rng)
        elif reg == "tokens":
            b = g_tokens(rng)
        elif reg == "mutate":
            b = mutate(rng, rng.choice([g_wellformed, g_wellformed, g_wellformed, g_arith, g_arith, g_cancel, g_negdisj, g_negdisj, g_wide, g_emptylist])(rng))
        else:
            b = mutate(rng, rng.choice(BADVALUES + EMPTY_FIXED).encode("utf-8", "replace"))
        inputs.append(b)
        regs.append(reg)
    return inputs, regs


# ------------------------------------------------------------------ watched worker
_CLK = os.sysconf("SC_CLK_TCK") if hasattr(os, "sysconf") else 100


def run_dir():
    """one directory (and overlay file) per checking process: concurrent runs never share files"""
    d = os.path.join(BUILD, "run", "c14", "p%d" % os.getpid())
    if not os.path.isdir(d):
        os.makedirs(d, exist_ok=True)
        atexit.register(shutil.rmtree, d, True)
        atexit.register(lambda: os.path.exists(os.path.join(BUILD, "overlay", "c14_p%d.json" % os.getpid())) and os.remove(os.path.join(BUILD, "overlay", "c14_p%d.json" % os.getpid())))
    return d


def worker_cpu(pgid, cache):
    """CPU seconds (user+system) used so far by the test binaries of the worker's process group; None if unknown"""
    def stat(pid):
        try:
            with open("/proc/%d/stat" % pid, "rb") as f:
                raw = f.read().decode("latin-1")
        except OSError:
            return None
        r = raw.rfind(")")
        comm = raw[raw.find("(") + 1:r]
        f = raw[r + 2:].split()
        return comm, int(f[2]), (int(f[11]) + int(f[12])) / float(_CLK)   # pgrp, utime+stime
    if not cache.get("pids"):
        pids = []
        try:
            names = os.listdir("/proc")
        except OSError:
            return None
        for n in names:
            if n.isdigit():
                st = stat(int(n))
                if st and st[1] == pgid and st[0].endswith(".test"):
                    pids.append(int(n))
        cache["pids"] = pids
    tot, seen = 0.0, False
    for pid in cache.get("pids", []):
        st = stat(pid)
        if st:
            tot += st[2]
            seen = True
    return tot if seen else None


def run_worker(inputs, tag, seed, nvals, with_model):
    """Parses every input in worker subprocesses under the watchdog.
    -> ({i: record}, model_in path, restarts, note); record = {"status": ok|hang|mem|died, "est": .., "res": {...}}"""
    d = run_dir()
    cf = os.path.join(d, "cases_%s.txt" % tag)
    with open(cf, "w") as f:
        for b in inputs:
            f.write(b.hex() + "\n")
    out = os.path.join(d, "out_%s.txt" % tag)
    min_ = os.path.join(d, "model_in_%s.txt" % tag)
    for p in (out, min_):
        if os.path.exists(p):
            os.remove(p)
    ov = go_overlay(HARNESS, "c14_p%d" % os.getpid())
    recs, note, restarts, free_restarts = {}, "", 0, 0
    skip = 0
    pos = 0
    while skip < len(inputs) and restarts < MAX_RESTARTS:
        env = go_env()
        env.update({"VERIF_CASES": cf, "VERIF_OUT": out, "VERIF_SKIP": str(skip), "VERIF_NVALS": str(nvals),
                    "VERIF_SEED": str(seed), "VERIF_TWICE_MAX_S": "0.25", "VERIF_NOVALS": "1"})
        if with_model:
            env["VERIF_MODEL_IN"] = min_
        cmd = ["go", "test", "-count=1", "-vet=off", "-tags", "verif", "-overlay", ov, "-run", "^TestVerifC14Worker$",
               "-timeout", "3000s", "./internal/query/"]
        proc = subprocess.Popen(cmd, cwd=REPO, env=env, stdout=subprocess.PIPE, stderr=subprocess.STDOUT,
                                start_new_session=True)
        cur, cur_t0, cur_est, done, killed = None, None, None, False, None
        cur_cpu0, pidcache = None, {}
        start = time.time()
        while True:
            progressed = False
            if os.path.exists(out):
                with open(out, "rb") as f:
                    f.seek(pos)
                    chunk = f.read()
                # only complete lines
                nl = chunk.rfind(b"\n")
                if nl >= 0:
                    lines = chunk[:nl].decode("utf8", "replace").split("\n")
                    pos += nl + 1
                    for line in lines:
                        progressed = True
                        p = line.split(" ", 2)
                        if p[0] == "BEGIN":
                            cur, cur_t0, cur_est, cur_cpu0 = int(p[1]), time.time(), None, None
                        elif p[0] == "EST":
                            q = line.split(" ", 3)
                            cur_est = float(q[2])
                            recs.setdefault(int(p[1]), {})["est"] = cur_est
                        elif p[0] == "END":
                            i = int(p[1])
                            try:
                                res = json.loads(p[2])
                            except ValueError:
                                res = {"panic": "harness: bad json"}
                            recs.setdefault(i, {}).update({"status": "ok", "res": res, "wall": time.time() - cur_t0 if cur_t0 else None})
                            cur = None
                        elif p[0] == "MEM":
                            i = int(p[1])
                            recs.setdefault(i, {}).update({"status": "mem", "heap_mb": int(p[2])})
                            killed = i
                        elif p[0] == "DONE":
                            done = True
            if done or killed is not None:
                break
            if cur is not None and cur_cpu0 is None and time.time() - cur_t0 > 0.05:
                # an input that is still open after a poll: remember the CPU time of the worker (slightly late = lenient)
                cur_cpu0 = worker_cpu(proc.pid, pidcache)
            if cur is not None and time.time() - cur_t0 > WATCHDOG_S:
                # wall time alone may be machine load: the verdict needs CPU time burnt by the worker on this input
                wall = time.time() - cur_t0
                cpu = worker_cpu(proc.pid, pidcache)
                used = cpu - cur_cpu0 if cpu is not None and cur_cpu0 is not None else None
                if (used is not None and used > WATCHDOG_CPU_S) or wall > WATCHDOG_WALL_S:
                    # a hang cannot be interrupted in-process: kill the worker and attribute it to this input
                    recs.setdefault(cur, {}).update({"status": "hang", "waited": wall, "cpu_s": used})
                    killed = cur
                    break
            if proc.poll() is not None and not progressed:
                # worker ended; read what is left once more, then stop
                time.sleep(0.05)
                if os.path.exists(out) and os.path.getsize(out) > pos:
                    continue
                break
            if cur is None and time.time() - start > 300 and not progressed:
                break
            time.sleep(0.01)
        if proc.poll() is None:
            try:
                os.killpg(proc.pid, signal.SIGKILL)
            except ProcessLookupError:
                pass
        try:
            tail = proc.communicate(timeout=30)[0].decode("utf8", "replace")
        except Exception:
            tail = ""
        if done:
            break
        if killed is not None:
            # only kills of judged inputs count against the restart budget: beyond the bound a kill is expected
            est = recs.get(killed, {}).get("est")
            if est is None or est <= BOUND:
                restarts += 1
            else:
                free_restarts += 1
            skip = killed + 1
            continue
        restarts += 1
        # died without telling: attribute to the input in flight, or give up
        if cur is not None:
            recs.setdefault(cur, {}).update({"status": "died", "tail": tail[-600:]})
            skip = cur + 1
            continue
        note = "worker could not be run: " + tail[-1500:]
        break
    RESTART_INFO["judged"], RESTART_INFO["not_judged"] = restarts, free_restarts
    return recs, min_, restarts, note


RESTART_INFO = {"judged": 0, "not_judged": 0}


def pct(xs, p):
    if not xs:
        return None
    xs = sorted(xs)
    return round(xs[min(len(xs) - 1, int(p * len(xs)))], 4)


def setup():
    """the C03 model binary (extraction of theories/Query.v + OCaml driver) is shared"""
    return c03.setup()


def main(tier, seed, replay=None):
    t0 = time.time()
    have_model = True
    proof = Proof(PROP, tier=tier)
    exe = setup()
    rng = random.Random(seed)
    n = int(os.environ.get("VERIF_NCASES", 2500 if tier == "quick" else 60000))
    cdir = os.path.join(ROOT, "corpus", PROP)
    if replay:
        obj = json.load(open(replay))
        inputs, regs = [bytes.fromhex(obj["input_hex"])], ["replay"]
    else:
        inputs, regs = [], []
        if os.path.isdir(cdir):
            for fn in sorted(os.listdir(cdir)):
                if fn.endswith(".json"):
                    inputs.append(bytes.fromhex(json.load(open(os.path.join(cdir, fn)))["input_hex"]))
                    regs.append("corpus")
        gi, gr = gen_inputs(rng, n, tier)
        inputs += gi
        regs += gr
    recs, model_in, restarts, note = run_worker(inputs, "main", seed, 12, have_model)
    rinfo = dict(RESTART_INFO)
    # model on the accepted inputs: must not run out of fuel / reach a panic branch
    model = {}
    if exe and os.path.exists(model_in):
        mo = model_in.replace("model_in", "model_out")
        rc2, o2, _ = run([exe, model_in, mo], timeout=1200)
        if rc2 != 0:
            note += " model driver rc=%d: %s" % (rc2, o2[-400:])
        if os.path.exists(mo):
            for line in open(mo):
                p = line.split()
                if len(p) >= 2:
                    model[int(p[0])] = p[1:]
    viol = []   # (i, kind, text)
    counts = {"accepted": 0, "rejected": 0, "hang_judged": 0, "hang_not_judged": 0, "mem_not_judged": 0, "panic": 0, "twice_differs": 0, "missing": 0}
    per_regime = {}
    times = {}    # bucket -> list of parse seconds
    by_nconj = {}
    twice = 0
    model_fuel_bad = 0
    for i, b in enumerate(inputs):
        r = recs.get(i)
        reg = regs[i]
        pr = per_regime.setdefault(reg, {"n": 0, "accepted": 0, "rejected": 0})
        pr["n"] += 1
        if r is None or "status" not in r:
            counts["missing"] += 1
            if restarts < MAX_RESTARTS:
                viol.append((i, "impl", "no verdict for this input (worker lost)"))
            continue
        est = r.get("est")
        judged = est is not None and est <= BOUND
        if r["status"] in ("hang", "died"):
            if judged:
                counts["hang_judged"] += 1
                viol.append((i, "impl", "query.Parse did not return within %.1fs wall / %.1fs CPU (estimated normal form size %s <= %d)%s" % (WATCHDOG_S, WATCHDOG_CPU_S, est, BOUND, " worker died: " + r.get("tail", "") if r["status"] == "died" else "")))
            else:
                counts["hang_not_judged"] += 1
            continue
        if r["status"] == "mem":
            if judged:
                viol.append((i, "impl", "query.Parse allocated more than the heap limit (estimated normal form size %s)" % est))
            else:
                counts["mem_not_judged"] += 1
            continue
        res = r["res"]
        if res.get("panic"):
            counts["panic"] += 1
            viol.append((i, "impl", "panic: " + res["panic"]))
            continue
        if res.get("err") or res.get("derr"):
            counts["rejected"] += 1
            pr["rejected"] += 1
            if res.get("derr") and not res.get("err"):
                # the grammar/value parsers reject on their own but Parse accepted: the dump is not the same text
                viol.append((i, "model", "Parse accepts what the value parsers reject: " + res["derr"]))
            continue
        counts["accepted"] += 1
        pr["accepted"] += 1
        if res.get("impl2"):
            twice += 1
            if res["impl2"] != res.get("impl1c"):
                counts["twice_differs"] += 1
                viol.append((i, "impl", "parsing the same text twice gives normal forms with different meanings"))
                continue
        bucket = "<=4" if est <= 4 else "<=16" if est <= 16 else "<=64" if est <= 64 else "<=256" if est <= 256 else ">256"
        times.setdefault(bucket, []).append(res["parse_s"])
        nb = res.get("nconj", 0)
        nbucket = "<=4" if nb <= 4 else "<=16" if nb <= 16 else "<=64" if nb <= 64 else "<=256" if nb <= 256 else ">256"
        by_nconj.setdefault(nbucket, []).append(res["parse_s"])
        m = model.get(i)
        if m is not None and len(m) >= 5 and m[4] != "fuel_ok":
            model_fuel_bad += 1
            viol.append((i, "model", "model normalisation ran out of fuel / reached a panic branch: " + m[4]))
    nviol = 0
    if replay:
        r = recs.get(0, {})
        print("input:", inputs[0][:300])
        print(" verdict:", r.get("status"), "est:", r.get("est"), json.dumps(r.get("res"))[:600])
    for (i, kind, text) in viol[:3]:
        b = inputs[i]
        # minimise: delete chunks of bytes while the same kind of failure remains
        if kind == "impl" and not replay and len(b) <= 4000:
            def fails(bs):
                rr, _, _, _ = run_worker([bytes(bs)], "min", seed, 8, False)
                x = rr.get(0, {})
                if text.startswith("query.Parse did not return"):
                    return x.get("status") in ("hang", "died") and x.get("est") is not None and x["est"] <= BOUND
                if text.startswith("panic"):
                    return bool(x.get("res", {}).get("panic"))
                return False
            import re
            toks = [t for t in re.split(rb"(@[^@]*@|[+\-:,() ])", b) if t]
            ftok = lambda ts: fails(b"".join(ts))
            if ftok(toks):
                b = b"".join(ddmin(toks, ftok, max_tests=12))
        obj = {"property": PROP, "kind": kind, "why": text, "input_hex": b.hex(), "input_text": b.decode("utf8", "replace"),
               "original_input_hex": inputs[i].hex(), "regime": regs[i], "verdict": recs.get(i), "seed": seed,
               "replay_cmd": "bin/check C14 --replay <this file>"}
        if kind == "impl":
            violation(PROP, obj)
        else:
            obj["broken"] = "correspondence: " + text
            violation(PROP, obj, no_input=True)
        nviol += 1
    if len(viol) > 3:
        log("... and %d more failing inputs" % (len(viol) - 3))
    if not viol and note:
        violation(PROP, {"property": PROP, "broken": "worker could not be run against this tree", "note": note}, no_input=True)
        nviol += 1
    if proof is not None and not proof.good() and nviol == 0:
        violation(PROP, {"property": PROP, "broken": proof.failure_text(), "searched_inputs": len(inputs)}, no_input=True)
        nviol += 1
    cov = proof.coverage() if proof is not None else {"obligations": 0, "discharged": 0, "note": "Coq side not built yet"}
    prompt = {b: {"n": len(v), "p50_s": pct(v, 0.5), "p99_s": pct(v, 0.99), "max_s": round(max(v), 4)} for b, v in times.items()}
    prompt_n = {b: {"n": len(v), "p50_s": pct(v, 0.5), "p99_s": pct(v, 0.99), "max_s": round(max(v), 4)} for b, v in by_nconj.items()}
    distinct = {inputs[i] for i in range(len(inputs)) if recs.get(i, {}).get("status") == "ok" and not (recs[i]["res"].get("err") or recs[i]["res"].get("derr")) and recs[i]["res"].get("nconj", 0) >= 2}
    cov.update({
        "trusted_base": TRUSTED_COMMON + [
            "participle lexer/parser, the value sub-parsers and binaryregexp.Compile are library code: not modelled, covered only by the watched input stream of this check",
            "watchdog: a BEGIN line without its END line after %.1fs wall time during which the worker burnt more than %.1fs CPU time (or after %.0fs wall time whatever it burnt) kills the worker's process group; the estimate of the normal-form size (harness vCost: a function of the token structure, never of numeral magnitudes) decides whether the input is judged" % (WATCHDOG_S, WATCHDOG_CPU_S, WATCHDOG_WALL_S),
            "promptness figures are measurements on this machine, not theorems",
        ],
        "evaluations": len(inputs),
        "distinct_nontrivial": len(distinct),
        "rule": "seeded inputs: well-formed queries (all filter kinds, depth<=4), arithmetic with repeated variables (factors != +-1), bounds in which the occurrences of variables cancel next to the filtered attribute (%d fixed ones), value lists up to 2000 entries, number lists mixing single values with narrow and very wide ranges (numerals near 2^16, 2^32, 2^63; %d fixed ones), directive and filter terms whose value lists have empty / blank / duplicated / negated / quoted-empty elements (%d fixed ones), products of two or three value lists on different keys with 150-256 conjuncts (%d fixed ones), nesting depth 5-8, negated disjunctions, random token sequences of the lexer vocabulary, byte-level mutations (insert/delete/replace/duplicate/bit flip, non-UTF-8 included), %d hand-written malformed values and their mutations; each parsed in a subprocess under a %.1fs watchdog, accepted ones parsed twice and compared on 12 valuations; non-trivial = accepted input with >= 2 conjuncts, distinct by bytes" % (len(ARITH_FIXED), len(WIDE_FIXED), len(EMPTY_FIXED), len(PRODUCT_FIXED), len(BADVALUES), WATCHDOG_S),
        "inputs": len(inputs), "verdicts": counts, "per_regime": per_regime, "worker_restarts": rinfo,
        "parsed_twice_and_compared": twice,
        "judged_bound_conjuncts": BOUND,
        "promptness_by_estimated_intermediate_size": prompt,
        "promptness_by_final_normal_form_size": prompt_n,
        "model_in_loop": bool(have_model), "model_fuel_or_panic": model_fuel_bad,
        "samples": [inputs[-1].decode("utf8", "replace")[:200]],
        "disagreements": nviol,
    })
    known, fixed = known_findings(PROP)
    cov["fixed_findings"] = fixed
    write_evidence(PROP, tier, seed, cov,
                   ["termination/promptness judged only where every intermediate normal form has at most %d conjuncts (negating a large disjunction is exponential by construction)" % BOUND,
                    "lexer, grammar, value parsers and regexp compile: library code, watched not modelled"],
                   time.time() - t0, nviol)
    restarts = rinfo["judged"] + rinfo["not_judged"]
    log("C14: %d inputs, %s, restarts %d, twice %d, promptness %s, %.1fs" % (len(inputs), counts, restarts, twice, prompt, time.time() - t0))
    return 1 if nviol else 0
