"""C11 -- tag management calls are total, atomic and keep the tag graph well-formed.

Coq: theories/TagApi.v (model), TagApiProofs.v, props/C11.v.
Tie: seeded sequences of AddTag / UpdateTag / DelTag calls with arbitrary names,
definitions, stream ids and converter names run on a real Manager (harness/c11,
overlay in package manager; every call under a watchdog; tag table dumped from
inside the service loop after every call).  Three-way comparison:
  implementation  vs  direct oracle of the property (this file, `oracle`)  vs  extracted model.
"""
import json
import os
import random
import re
import shutil
import time

from vplib import *

PROP = "C11"
CONVS = ["ca", "cb", "cc"]
NEXT = 13

VALID_NAMES = ["tag/a", "tag/b", "tag/c", "tag/d", "service/s", "service/a", "mark/m", "mark/n", "generated/g", "tag/a/b"]
BAD_NAMES = ["foo", "tag/", "mark/", "/x", "tagg/a", "", "tag", "Tag/a", "generated/", "service", "tag\\a"]
PLAIN_DEFS = ["sport:80", "cport:1", "cport:2,3", "cdata:foo", "sdata:bar", "protocol:udp", "chost:1.2.3.4", "sport:4321 cport:1",
              "ftime:1200:1300", "cbytes:3", "-cport:1"]
ID_DEFS = ["id:1,2", "id:0", "id:-1", "id:1:3", "id:2 or id:3", "id:9", "id:3", "id:0,1,2,3", "id:1 id:2", "id:2:9",
           "id:10", "id:10,1", "id:12,1,2", "id:11,1", "id:20", "id:1,10,11,12"]
REF_DEFS = ["tag:a", "tag:b sport:80", "-tag:c", "service:s", "mark:m", "generated:g", "tag:a tag:b", "tag:a or service:a",
            "@s:tag:a cport:@s:cport@", "tag:a/b", "tag:d", "tag:b", "tag:c", "mark:n", "tag:a,b", "@s:mark:m cport:@s:cport@ tag:b",
            "tag:b cdata:foo", "service:a tag:d"]
MISSING_DEFS = ["tag:zz", "mark:zz sport:1", "@s:service:zz cport:@s:cport@", "tag:a tag:zz"]
BAD_DEFS = ["foo", "tag:", "((", "id:", "sport:x", "ltime:-1h:", "group:cport sport:1", "sort:id", ""]
COLORS = ["red", "blue", "#00ff00", "", "x"]


def pick_def(rng, kind=None):
    r = rng.random()
    if kind == "mark":
        if r < 0.75:
            return rng.choice(ID_DEFS)
        return rng.choice(PLAIN_DEFS + REF_DEFS + BAD_DEFS)
    if r < 0.25:
        return rng.choice(PLAIN_DEFS)
    if r < 0.35:
        return rng.choice(ID_DEFS)
    if r < 0.80:
        return rng.choice(REF_DEFS)
    if r < 0.90:
        return rng.choice(MISSING_DEFS)
    return rng.choice(BAD_DEFS)


def pick_name(rng, live, p_live=0.7):
    r = rng.random()
    if live and r < p_live:
        return rng.choice(sorted(live))
    if r < 0.93:
        return rng.choice(VALID_NAMES)
    return rng.choice(BAD_NAMES)


def pick_ids(rng):
    n = rng.choice([0, 1, 1, 1, 2, 3])
    # ids that share leading digits (1 / 10 / 11 / 12, 2 / 12) and ids beyond the 13 existing streams
    return [rng.choice([0, 1, 1, 2, 2, 3, 10, 10, 11, 12, 12, 7, 13, 100]) for _ in range(n)]


def pick_convs(rng):
    r = rng.random()
    if r < 0.15:
        return []
    if r < 0.3:
        return list(CONVS)
    l = [c for c in CONVS if rng.random() < 0.5]
    if rng.random() < 0.12:
        l.insert(rng.randrange(len(l) + 1), rng.choice(["nope", "none", "ca"]))
    rng.shuffle(l)
    return l


def refs_of_def(d):
    out = []
    for typ, vals in re.findall(r"(?:^|[\s\-(]|@\w+:)(tag|service|mark|generated):(\S+)", d):
        for v in vals.split(","):
            out.append(typ + "/" + v)
    return out


def ref_def(rng, targets):
    """A definition referencing the given tags (main or sub-query references, negated, with extra filters)."""
    parts = []
    for k, t in enumerate(targets):
        typ, sub = t.split("/", 1)
        r = rng.random()
        if r < 0.2:
            parts.append("@s%d:%s:%s cport:@s%d:cport@" % (k, typ, sub, k))
        elif r < 0.35:
            parts.append("-%s:%s" % (typ, sub))
        else:
            parts.append("%s:%s" % (typ, sub))
    if rng.random() < 0.3:
        parts.append(rng.choice(PLAIN_DEFS))
    rng.shuffle(parts)
    return (" or " if rng.random() < 0.15 else " ").join(parts)


def reaches(sim, a, b):
    """a references b transitively (or a == b) in the simulated table"""
    seen, todo = set(), [a]
    while todo:
        x = todo.pop()
        if x == b:
            return True
        if x in seen:
            continue
        seen.add(x)
        todo += sim.get(x, [])
    return False


def gen_def(rng, sim, nm):
    """Definition for tag nm given the simulated table: steers towards the interesting cases."""
    ismark = nm.startswith(("mark/", "generated/"))
    live = sorted(k for k in sim if k != nm and "," not in k and " " not in k)
    r = rng.random()
    if ismark:
        return pick_def(rng, "mark")
    if live and r < 0.45:
        # reference existing tags that do not lead back to nm
        ok = [k for k in live if not reaches(sim, k, nm)]
        if ok:
            return ref_def(rng, rng.sample(ok, min(len(ok), rng.choice([1, 1, 2, 3]))))
    if live and 0.45 <= r < 0.62:
        # try to close a cycle
        back = [k for k in live if reaches(sim, k, nm)]
        if back:
            return ref_def(rng, [rng.choice(back)] + ([rng.choice(live)] if rng.random() < 0.3 else []))
    if 0.62 <= r < 0.66:
        typ, sub = (nm.split("/", 1) + [""])[:2] if "/" in nm else ("tag", "a")
        return ref_def(rng, [typ + "/" + (sub or "a")])      # self reference
    return pick_def(rng)


def gen_seq(rng, n, combos):
    """Call list. `sim` approximates the tag table (name -> referenced names) so that most calls
    hit existing tags and the rare guards (cycle, referenced, unknown reference) are exercised."""
    calls, sim, withconv = [], {}, set()

    def referenced(nm):
        return any(nm in v for k, v in sim.items() if k != nm)
    for _ in range(n):
        r = rng.random()
        live = set(sim)
        if live and not combos and rng.random() < 0.05:
            # (not in sequences with multi-operation requests: UpdateTag(query + mark add) in ONE request leaves
            #  matches that differ from the saved definition; such requests cannot be built outside the package)
            calls.append({"op": "restart", "name": ""})
        if r < 0.30 or not live:
            nm = pick_name(rng, live, 0.1)
            d = gen_def(rng, sim, nm)
            c = {"op": "add", "name": nm, "color": rng.choice(COLORS), "def": d}
            rf = refs_of_def(d)
            if nm in VALID_NAMES and nm not in sim and d not in BAD_DEFS and all(x in sim for x in rf) and nm not in rf:
                sim[nm] = rf
        elif r < 0.40:
            cand = sorted(live)
            if rng.random() < 0.35:
                cand = [k for k in cand if referenced(k)] or cand
            nm = rng.choice(cand) if rng.random() < 0.85 else pick_name(rng, live, 0)
            c = {"op": "del", "name": nm}
            if nm in sim and not referenced(nm):
                del sim[nm]
        else:
            nm = pick_name(rng, live, 0.92)
            if withconv & live and rng.random() < 0.25:
                nm = rng.choice(sorted(withconv & live))
            c = {"op": "upd", "name": nm}
            kinds = ["color", "query", "query", "query", "name", "conv", "conv", "markadd", "markdel"]
            ks = [rng.choice(kinds)]
            if nm in withconv and rng.random() < 0.6:
                ks = ["query"]
            if nm.startswith(("mark/", "generated/")) and rng.random() < 0.6:
                ks = [rng.choice(["markadd", "markadd", "markdel", "query", "name", "color"])]
            if combos and rng.random() < 0.5:
                ks += [rng.choice(kinds) for _ in range(rng.choice([1, 1, 2]))]
            for k in ks:
                if k == "color":
                    c["color"] = rng.choice(COLORS)
                elif k == "query":
                    c["query"] = gen_def(rng, sim, nm)
                    if nm in withconv and rng.random() < 0.5:
                        # a query that a tag with converters must not get: data filter or tag reference
                        others = sorted(x for x in sim if x != nm and x.startswith("tag/") and "/" not in x[4:])
                        c["query"] = rng.choice(["cdata:bar", "sdata:foo", "sport:80 cdata:x", "cbytes:3"] +
                                                (["tag:" + others[0][4:]] if others else []))
                elif k == "name":
                    typ = nm.split("/")[0] if "/" in nm else "tag"
                    c["newname"] = rng.choice([typ + "/" + rng.choice("abcdxy"), typ + "/" + rng.choice("abcdxy"), pick_name(rng, live, 0.3)])
                elif k == "conv":
                    c["conv"] = pick_convs(rng)
                elif k == "markadd":
                    c["markadd"] = pick_ids(rng)
                elif k == "markdel":
                    c["markdel"] = pick_ids(rng)
            if len(ks) == 1 and nm in sim and "conv" in c:
                if nm.startswith(("tag/", "service/")) and c["conv"] and all(x in CONVS for x in c["conv"]) and not sim[nm]:
                    withconv.add(nm)
                elif not c["conv"]:
                    withconv.discard(nm)
            if len(ks) == 1 and nm in sim:
                if "query" in c:
                    rf = refs_of_def(c["query"])
                    if c["query"] not in BAD_DEFS and all(x in sim for x in rf) and not any(reaches(sim, x, nm) for x in rf):
                        sim[nm] = rf
                elif "newname" in c:
                    nn = c["newname"]
                    if nn not in sim and "/" in nn and nn.split("/")[0] == nm.split("/")[0] and nn.split("/", 1)[1] and not referenced(nm):
                        sim[nn] = sim.pop(nm)
        calls.append(c)
    return calls


def gen_held_seq(rng, nblocks):
    """API histories interleaved with a tagging job in flight: the table is settled, the next tagging job is
    parked at tag.start / tag.done, the call that starts it runs, then calls on that tag and on tags around it
    (delete + re-create with the same definition, referrers added / removed, rename, colour, converters, query),
    then the job is released."""
    calls, sim = [], {}          # sim: name -> definition
    plain = ["sport:80", "cport:1", "cport:2,3", "protocol:udp", "sport:4321 cport:1"]

    def refdef(x):
        typ, sub = x.split("/", 1)
        return rng.choice(["%s:%s" % (typ, sub), "%s:%s sport:80" % (typ, sub), "@s:%s:%s cport:@s:cport@" % (typ, sub), "-%s:%s" % (typ, sub)])
    names = ["tag/a", "tag/b", "tag/c", "tag/d", "service/s"]
    for _ in range(rng.choice([0, 1, 2])):
        nm = rng.choice(names)
        if nm not in sim:
            sim[nm] = rng.choice(plain)
            calls.append({"op": "add", "name": nm, "color": "red", "def": sim[nm]})
    for _ in range(nblocks):
        calls.append({"op": "settle", "name": ""})
        calls.append({"op": "hold", "name": "", "point": rng.choice(["tag.done", "tag.done", "tag.start"])})
        free = [n for n in names if n not in sim]
        if free and (not sim or rng.random() < 0.6):
            x = rng.choice(free)
            sim[x] = rng.choice(plain) if rng.random() < 0.7 or not sim else refdef(rng.choice(sorted(sim)))
            calls.append({"op": "add", "name": x, "color": "red", "def": sim[x]})
        else:
            x = rng.choice(sorted(sim))
            sim[x] = rng.choice(plain)
            calls.append({"op": "upd", "name": x, "query": sim[x]})
        calls.append({"op": "jobmark", "name": x})
        xdef = sim[x]
        attrs_only = rng.random() < 0.3
        for _ in range(rng.choice([2, 3, 4, 6])):
            r = rng.random()
            if attrs_only:
                r = rng.choice([0.9, 0.9, 0.95, 0.6])     # colour, converters, a referrer
            others = [n for n in names if n != x]
            if r < 0.25:
                calls.append({"op": "del", "name": x})
                if not any(x in refs_of_def(d) for k, d in sim.items() if k != x):
                    sim.pop(x, None)
            elif r < 0.50:
                d = xdef if rng.random() < 0.8 else rng.choice(plain)
                calls.append({"op": "add", "name": x, "color": rng.choice(["red", "blue"]), "def": d})
                sim.setdefault(x, d)
            elif r < 0.72:
                y = rng.choice(others)
                d = refdef(x)
                calls.append({"op": "add", "name": y, "color": "red", "def": d})
                if y not in sim and x in sim:
                    sim[y] = d
            elif r < 0.80:
                y = rng.choice(others)
                calls.append({"op": "del", "name": y})
                if not any(y in refs_of_def(d) for k, d in sim.items() if k != y):
                    sim.pop(y, None)
            elif r < 0.84:
                calls.append({"op": "upd", "name": x, "newname": x.split("/")[0] + "/" + rng.choice("xyz")})
            elif r < 0.93:
                # changed while the job runs: must survive the completion
                calls.append({"op": "upd", "name": x, "color": rng.choice(["green", "black", "#123456"])})
            elif r < 0.96:
                calls.append({"op": "upd", "name": x, "conv": rng.choice([["ca"], [], ["ca", "cb"]])})
            else:
                calls.append({"op": "upd", "name": x, "query": rng.choice(plain + [xdef])})
        calls.append({"op": "release", "name": ""})
        if rng.random() < 0.5:
            # the protected tag must still be protected
            calls.append({"op": "del", "name": x})
            if not any(x in refs_of_def(d) for k, d in sim.items() if k != x):
                sim.pop(x, None)
    calls.append({"op": "settle", "name": ""})
    return calls


def is_combo(c):
    if c["op"] in ("breakstate", "fixstate"):
        return True        # fault injection: replay only, not modelled
    if c["op"] != "upd":
        return False
    n = sum(1 for k in ("color", "newname") if c.get(k)) + sum(1 for k in ("query", "conv") if c.get(k) is not None) + \
        sum(1 for k in ("markadd", "markdel") if c.get(k))
    return n > 1


def norm_call(c):
    d = {"op": c["op"], "name": c.get("name", ""), "color": c.get("color", ""), "def": c.get("def", ""), "newname": c.get("newname", ""),
         "query": c.get("query"), "conv": c.get("conv"), "markadd": c.get("markadd") or [], "markdel": c.get("markdel") or [],
         "point": c.get("point", "")}
    return d


# ---------------------------------------------------------------- running the implementation
def run_dir():
    """per-process scratch directory (several checks may run at the same time)"""
    d = os.path.join(BUILD, "run", "c11", "p%d" % os.getpid())
    os.makedirs(d, exist_ok=True)
    return d


def run_impl(seqs, tag, timeout=600):
    """Runs the Go harness; restarts after a sequence that killed or hung the process.
    Returns {seq id: {"lines": [...], "fatal": None | text}}."""
    d = run_dir()
    ov = go_overlay({"internal/index/manager/zz_verif_c11_test.go": os.path.join(ROOT, "harness/c11/zz_verif_c11_test.go")}, "c11_%d" % os.getpid())
    res, note = {}, ""
    # a Manager keeps a few descriptors open after Close (index readers): at most 400 sequences per process
    if len(seqs) > 400:
        for k in range(0, len(seqs), 400):
            r, n = run_impl(seqs[k:k + 400], tag, timeout)
            res.update(r)
            note = (note + " " + n).strip()
            if any(v.get("fatal") for v in r.values()):
                break
        return res, note
    todo = list(seqs)
    rounds = 0
    while todo and rounds < 12:
        rounds += 1
        cf, of = os.path.join(d, "cases_%s.json" % tag), os.path.join(d, "impl_%s.out" % tag)
        json.dump({"seqs": [{"id": s["id"], "settle": s["settle"], "calls": [norm_call(c) for c in s["calls"]]} for s in todo]}, open(cf, "w"))
        if os.path.exists(of):
            os.remove(of)
        rc, out, _ = go_test("./internal/index/manager/", ov, "^TestVerifC11$", {"VERIF_CASES": cf, "VERIF_OUT": of}, timeout=timeout)
        lines = []
        if os.path.exists(of):
            for ln in open(of):
                try:
                    lines.append(json.loads(ln))
                except ValueError:
                    pass
        for ln in lines:
            res.setdefault(ln["seq"], {"lines": [], "fatal": None})["lines"].append(ln)
        done = {ln["seq"] for ln in lines if ln["phase"] == "seq-end" and ln.get("status") == "ok"}
        if rc == 0:
            missing = [s for s in todo if s["id"] not in done]
            if missing:
                note += " harness ended without finishing %d sequences" % len(missing)
            break
        if not lines:
            note += " go harness rc=%d: %s" % (rc, out[-2000:])
            break
        # the sequence that was running when the process died
        last = lines[-1]["seq"]
        if last in done:
            idx = [s["id"] for s in todo].index(last) + 1
            if idx < len(todo):
                res.setdefault(todo[idx]["id"], {"lines": [], "fatal": None})["fatal"] = "process died while starting the sequence: " + out[-1500:]
                todo = todo[idx + 1:]
            else:
                note += " go harness rc=%d after the last sequence: %s" % (rc, out[-1500:])
                break
            continue
        m = re.search(r"(panic: .*?)(?:\n\n|\Z)", out, re.S)
        res[last]["fatal"] = (m.group(1)[:600] if m else "exit code %d: %s" % (rc, out[-600:]))
        # the first sequence that kills the service is the failing input; the rest is not needed
        break
    return res, note.strip()


# ---------------------------------------------------------------- the direct oracle
def proj(tags, settle):
    """Projected observables of a dump: what the property talks about."""
    out = {}
    for t in tags:
        ismark = t["name"].startswith(("mark/", "generated/"))
        e = {"def": None if ismark else t["def"], "color": t["color"], "convs": sorted(t["convs"]), "refby": sorted(t["refby"])}
        if settle and (ismark or t["defidok"]):
            e["matches"] = sorted(t["matches"])
        out[t["name"]] = e
    return out


def graph_cycle(refs):
    """refs: name -> list of names; returns a cycle (list) or None."""
    state = {}

    def visit(n, path):
        state[n] = 1
        for r in refs.get(n, []):
            if r not in refs:
                continue
            if state.get(r) == 1:
                return path + [n, r]
            if r not in state:
                c = visit(r, path + [n])
                if c:
                    return c
        state[n] = 2
        return None
    for n in sorted(refs):
        if n not in state:
            c = visit(n, [])
            if c:
                return c
    return None


def oracle(seq, impl):
    """Checks the property on the implementation's observations of one sequence.
    Returns (index of the first offending call or None, reason)."""
    if impl is None or not impl["lines"]:
        return 0, "no output for the sequence" + ((": " + impl["fatal"]) if impl and impl["fatal"] else "")
    ends = {ln["i"]: ln for ln in impl["lines"] if ln["phase"] == "end"}
    begins = {ln["i"] for ln in impl["lines"] if ln["phase"] == "begin"}
    prev, prevtags = {}, []
    settle = seq["settle"]
    single_ops = not any(is_combo(norm_call(c)) and c["op"] == "upd" for c in seq["calls"])
    for i, c in enumerate(seq["calls"]):
        c = norm_call(c)
        ln = ends.get(i)
        if ln is None:
            if i in begins:
                return i, "service loop died during the call (no result): " + str(impl["fatal"])
            return i, "call never started: " + str(impl["fatal"])
        if ln["res"] == "hang":
            return i, "call did not return within the watchdog time (service loop hangs)"
        if ln.get("status") == "stuck":
            return i, "service loop unresponsive after the call (Status() / settling timed out)"
        tags = ln.get("tags") or []
        cur = proj(tags, settle)
        names = {t["name"] for t in tags}
        byname = {t["name"]: t for t in tags}
        # well-formedness of the graph, from the definition texts alone
        for t in tags:
            if t["deferr"]:
                return i, "stored definition of %s does not parse any more: %r" % (t["name"], t["def"])
            for r in t["defrefs"]:
                if r not in names:
                    return i, "tag %s references missing tag %s" % (t["name"], r)
            if sorted(t["refs"]) != sorted(t["defrefs"]):
                return i, "stored features of %s name other references (%s) than its definition (%s)" % (t["name"], t["refs"], t["defrefs"])
        cyc = graph_cycle({t["name"]: t["defrefs"] for t in tags})
        if cyc:
            return i, "reference cycle " + " -> ".join(cyc)
        for t in tags:
            want = sorted(o["name"] for o in tags if t["name"] in o["defrefs"])
            if sorted(t["refby"]) != want:
                return i, "referencedBy of %s is %s, definitions say %s" % (t["name"], sorted(t["refby"]), want)
        lst = {e["name"]: e for e in (ln.get("list") or [])}
        if set(lst) != names:
            return i, "ListTags names differ from the tag table"
        for t in tags:
            e = lst[t["name"]]
            want = sorted(o["name"] for o in tags if t["name"] in o["defrefs"])
            if e["referenced"] != bool(want):
                return i, "ListTags.Referenced of %s is %s, definitions say referenced by %s" % (t["name"], e["referenced"], want)
            ismark = t["name"].startswith(("mark/", "generated/"))
            if e["color"] != t["color"] or sorted(e["convs"]) != sorted(t["convs"]) or e["def"] != ("..." if ismark else t["def"]):
                return i, "ListTags entry of %s differs from the tag table" % t["name"]
            if ismark and not t["defidok"]:
                return i, "mark tag %s has a definition that is not id-only: %r" % (t["name"], t["def"])
            if t["convs"] and ((t["mf"] | t["sf"]) & 0x80 or t["defrefs"]):
                return i, "tag %s has converters %s attached but its definition %r matches on data / references tags (a restart refuses to attach them)" % (
                    t["name"], t["convs"], t["def"])
            # the definition text of a mark tag (all that a restart rebuilds the matches from) denotes exactly its matches
            # (not in sequences with multi-operation requests: query + mark add in ONE in-package request is known to
            #  leave them different, see notes/C11.md)
            if ismark and settle and single_ops and t["defidok"] and sorted(t["matches"]) != sorted(t["defids"]):
                return i, "mark tag %s: matches %s but its definition %r denotes %s (a restart would change the tag)" % (
                    t["name"], t["matches"], t["def"], t["defids"])
        # atomicity / effect
        if ln["res"] == "err":
            if cur != prev:
                return i, "call failed (%s) but the tags changed: %s" % (ln.get("msg"), diff_text(prev, cur))
        else:
            why = effect_ok(c, prev, cur, settle)
            if why:
                return i, "call returned nil but " + why
        prev, prevtags = cur, tags
    end = [ln for ln in impl["lines"] if ln["phase"] == "seq-end"]
    if not end or end[-1].get("status") != "ok":
        return len(seq["calls"]), "manager did not settle / close after the sequence: %s" % (end[-1].get("status") if end else impl["fatal"])
    return None, ""


def diff_text(a, b):
    out = []
    for k in sorted(set(a) | set(b)):
        if a.get(k) != b.get(k):
            out.append("%s: %s -> %s" % (k, a.get(k), b.get(k)))
    return "; ".join(out)[:600]


def strip_refby(e):
    return {k: v for k, v in e.items() if k != "refby"}


def effect_ok(c, prev, cur, settle):
    """The change a successful call must have made (None = fine, else text)."""
    nm = c["name"]
    want = {k: dict(v) for k, v in prev.items()}
    if c["op"] in ("breakstate", "fixstate", "restart", "settle", "hold", "jobmark", "release"):
        pass        # (restart: Close + New on the same directories must bring back the same table; a tagging job
        #  that starts, is held or completes changes nothing of what is compared in a racing sequence)
    elif c["op"] == "add":
        if nm in prev:
            return "the tag existed before"
        if nm not in cur:
            return "the new tag is missing"
        ismark = nm.startswith(("mark/", "generated/"))
        if cur[nm]["color"] != c["color"] or cur[nm]["convs"] != [] or (not ismark and cur[nm]["def"] != c["def"]):
            return "the new tag is %s" % cur[nm]
        want[nm] = cur[nm]
    elif c["op"] == "del":
        if nm not in prev:
            return "the deleted tag did not exist"
        if prev[nm]["refby"]:
            return "the deleted tag was referenced by %s" % prev[nm]["refby"]
        del want[nm]
    else:
        if nm not in prev:
            return "the updated tag did not exist"
        e = want[nm]
        ismark = nm.startswith(("mark/", "generated/"))
        if c["color"]:
            e["color"] = c["color"]
        if c["query"] is not None:
            if not ismark:
                e["def"] = c["query"]
            e.pop("matches", None)     # value after re-tagging: not part of this oracle
        if c["conv"] is not None:
            e["convs"] = sorted(set(c["conv"]))
        if c["markadd"] or c["markdel"]:
            if "matches" in e:
                m = set(e["matches"]) | set(c["markadd"])
                m -= set(c["markdel"])
                e["matches"] = sorted(m)
        if c["newname"]:
            if prev[nm]["refby"]:
                return "the renamed tag was referenced by %s" % prev[nm]["refby"]
            if c["newname"] in prev:
                return "the new name existed before"
            del want[nm]
            want[c["newname"]] = e
    a = {k: strip_refby(v) for k, v in want.items()}
    b = {k: strip_refby(v) for k, v in cur.items()}
    if c["op"] == "upd" and c["query"] is not None:
        for x in (a, b):
            x.get(c["newname"] or nm, {}).pop("matches", None)
    if a != b:
        return "the tags are not the requested ones: " + diff_text(a, b)
    return None


# ---------------------------------------------------------------- the model
def hx(s):
    return "x" + s.encode("utf8", "surrogateescape").hex()


def unhx(s):
    return bytes.fromhex(s[1:]).decode("utf8", "replace")


def lst(l, f=str):
    return ",".join(f(x) for x in l) if l else "-"


def model_text(seq, impl, orig=False):
    """Case text for the model driver; the parse table comes from the harness (real query.Parse)."""
    out = ["S %d %d %s %s" % (seq["id"], NEXT, lst(CONVS, hx), "orig" if orig else "fixed")]
    parses = {ln["i"]: ln.get("parse") for ln in impl["lines"] if ln["phase"] == "begin"}
    ends = {ln["i"]: ln for ln in impl["lines"] if ln["phase"] == "end"}
    held_now = False
    n = 0
    for i, c in enumerate(seq["calls"]):
        c = norm_call(c)
        if i not in parses:
            break
        p = parses[i]
        d = c["def"] if c["op"] == "add" else c["query"]
        if p is not None:
            out.append("P %s %d %d %d %d %d %s %s %s" % (hx(d), p["err"], (p["mf"] | p["sf"]) & 0x80 != 0, (p["mf"] | p["sf"]) & 0x20 != 0,
                                                       p["grouping"], p["idsok"], lst(p["main"], hx), lst(p["sub"], hx), lst(p["ids"])))
        if c["op"] == "jobmark":
            # the job started inside the previous call, if the harness saw it parked
            prev_end = ends.get(i - 1) or {}
            held_now = bool(prev_end.get("held"))
            out.append("JS %s" % hx(c["name"]) if held_now else "N")
        elif c["op"] == "release":
            out.append("JD" if held_now else "N")
            held_now = False
        elif c["op"] in ("restart", "settle", "hold"):
            out.append("N")
        elif c["op"] == "add":
            out.append("A %s %s %s" % (hx(c["name"]), hx(c["color"]), hx(c["def"])))
        elif c["op"] == "del":
            out.append("D %s" % hx(c["name"]))
        elif c["query"] is not None:
            out.append("UQ %s %s" % (hx(c["name"]), hx(c["query"])))
        elif c["conv"] is not None:
            out.append("UV %s %s" % (hx(c["name"]), lst(c["conv"], hx)))
        elif c["markadd"]:
            out.append("UA %s %s" % (hx(c["name"]), lst(c["markadd"])))
        elif c["markdel"]:
            out.append("UD %s %s" % (hx(c["name"]), lst(c["markdel"])))
        elif c["newname"]:
            out.append("UN %s %s" % (hx(c["name"]), hx(c["newname"])))
        else:
            out.append("UC %s %s" % (hx(c["name"]), hx(c["color"])))
        n += 1
    return "\n".join(out) + "\n", n


def run_model(exe, seqs, impls, tag, orig=False):
    d = run_dir()
    cf, mf = os.path.join(d, "model_%s.txt" % tag), os.path.join(d, "model_%s.out" % tag)
    with open(cf, "w") as f:
        for s in seqs:
            f.write(model_text(s, impls[s["id"]], orig)[0])
    if os.path.exists(mf):
        os.remove(mf)
    rc, out, _ = run([exe, cf, mf], timeout=600)
    res, cur = {}, None
    if os.path.exists(mf):
        for ln in open(mf):
            ln = ln.rstrip("\n")
            if ln.startswith("S "):
                cur = int(ln[2:])
                res[cur] = []
            elif ln.startswith("R ") and cur is not None:
                head, _, body = ln[2:].partition(" | ")
                table = {}
                for row in [r for r in body.split(" | ") if r.strip()]:
                    k, de, co, cv, rb, ma = row.strip().split(";")
                    table[unhx(k)] = {"def": unhx(de), "color": unhx(co), "convs": sorted(unhx(x) for x in cv.split(",")) if cv != "-" else [],
                                      "refby": sorted(unhx(x) for x in rb.split(",")) if rb != "-" else [],
                                      "matches": sorted(int(x) for x in ma.split(",")) if ma != "-" else []}
                res[cur].append((head, table))
    return res, ("" if rc == 0 else "model driver rc=%d: %s" % (rc, out[-600:]))


def model_diff(seq, impl, mres):
    """First call where implementation and model disagree on the projected observables."""
    ends = {ln["i"]: ln for ln in impl["lines"] if ln["phase"] == "end"}
    for i, c in enumerate(seq["calls"]):
        if i not in ends or i >= len(mres):
            return (i, "model or implementation has no observation") if (i in ends) != (i < len(mres)) else None
        ln, (head, table) = ends[i], mres[i]
        mr = "ok" if head == "ok" else ("err" if head.startswith("err") else head)
        if ln["res"] != mr:
            return i, "implementation %s (%s), model %s" % (ln["res"], ln.get("msg", ""), head)
        cur = proj(ln.get("tags") or [], seq["settle"])
        mp = {}
        for k, e in table.items():
            ismark = k.startswith(("mark/", "generated/"))
            me = {"def": None if ismark else e["def"], "color": e["color"], "convs": e["convs"], "refby": e["refby"]}
            if k in cur and "matches" in cur[k]:
                me["matches"] = e["matches"]
            mp[k] = me
        if mp != cur:
            return i, "tables differ: " + diff_text(mp, cur)
    return None


# ---------------------------------------------------------------- main
def load_corpus():
    cdir = os.path.join(ROOT, "corpus", PROP)
    out = []
    if os.path.isdir(cdir):
        for fn in sorted(os.listdir(cdir)):
            if fn.endswith(".json"):
                j = json.load(open(os.path.join(cdir, fn)))
                out.append({"settle": j.get("settle", True), "calls": j["calls"], "corpus": fn})
    return out


def main(tier, seed, replay=None):
    t0 = time.time()
    proof = Proof(PROP, tier=tier)
    exe, _ = build_model(PROP, "ExtractC11.v", os.path.join(ROOT, "ocaml/c11"), ["theories/TagApi.v"])
    rng = random.Random(seed)
    seqs = []
    if replay:
        j = json.load(open(replay))
        seqs = [{"settle": j.get("settle", True), "calls": j["calls"]}]
    else:
        seqs = load_corpus()
        nseq = 500 if tier == "quick" else 8000
        for k in range(nseq):
            combos = k % 5 == 4
            n = rng.choice([6, 12, 20, 30]) if k % 7 else 60
            if k % 6 == 5:
                seqs.append({"settle": False, "calls": gen_held_seq(rng, rng.choice([1, 2, 3]))})
            else:
                seqs.append({"settle": k % 3 != 2, "calls": gen_seq(rng, n, combos)})
    for k, s in enumerate(seqs):
        s["id"] = k
    impls, note = run_impl(seqs, "main", timeout=900 if tier == "quick" else 7200)
    nviol, known_printed, examined = 0, [], 0
    modelable = [s for s in seqs if s["id"] in impls and impls[s["id"]]["lines"] and not any(is_combo(c) for c in s["calls"])]
    mres, mnote = run_model(exe, modelable, impls, "main")
    first_bad = None
    for s in seqs:
        idx, why = oracle(s, impls.get(s["id"]))
        if idx is not None:
            first_bad = (s, idx, why, "impl!=spec")
            break
    if first_bad is None:
        for s in modelable:
            dff = model_diff(s, impls[s["id"]], mres.get(s["id"], []))
            if dff:
                first_bad = (s, dff[0], dff[1], "impl!=model")
                break
    if replay:
        s = seqs[0]
        im = impls.get(0, {"lines": []})
        print("oracle:", oracle(s, im))
        ends = {ln["i"]: ln for ln in im["lines"] if ln["phase"] == "end"}
        for i, c in enumerate(s["calls"]):
            print(i, json.dumps(c))
            if i in ends:
                print("   impl :", ends[i]["res"], ends[i].get("msg", ""), json.dumps(proj(ends[i].get("tags") or [], s["settle"]), sort_keys=True))
            if 0 in mres and i < len(mres[0]):
                print("   model:", mres[0][i][0], json.dumps(mres[0][i][1], sort_keys=True))
        if im.get("fatal"):
            print("fatal:", im["fatal"])
    if first_bad is not None:
        s, idx, why, kind = first_bad
        examined += 1

        def fails(calls):
            t = {"id": 0, "settle": s["settle"], "calls": calls}
            im, _ = run_impl([t], "min", timeout=300)
            if kind == "impl!=spec":
                return oracle(t, im.get(0))[0] is not None
            if any(is_combo(c) for c in calls) or 0 not in im:
                return False
            mr, _ = run_model(exe, [t], im, "min")
            return oracle(t, im.get(0))[0] is None and model_diff(t, im[0], mr.get(0, [])) is not None
        calls = ddmin(list(s["calls"][:idx + 1]), fails, max_tests=40 if tier == "quick" else 200)
        t = {"id": 0, "settle": s["settle"], "calls": calls}
        im, _ = run_impl([t], "min", timeout=300)
        oi, owhy = oracle(t, im.get(0))
        obj = {"property": PROP, "kind": kind, "settle": s["settle"], "calls": calls, "reason": owhy or why, "seed": seed,
               "impl": [(ln["res"], ln.get("msg", "")) for ln in im.get(0, {"lines": []})["lines"] if ln["phase"] == "end"],
               "fatal": im.get(0, {}).get("fatal"), "replay_cmd": "bin/check C11 --replay <this file>"}
        if not any(is_combo(c) for c in calls) and 0 in im and im[0]["lines"]:
            mr, _ = run_model(exe, [t], im, "min")
            obj["model"] = [h for h, _ in mr.get(0, [])]
        if kind == "impl!=spec":
            violation(PROP, obj)
        else:
            obj["broken"] = "correspondence: the implementation satisfies the direct oracle on this input but differs from the extracted model (theories/TagApi.v); the theorems of props/C11.v no longer speak about this code"
            violation(PROP, obj, no_input=True)
        nviol += 1
    elif note or mnote:
        violation(PROP, {"property": PROP, "broken": "correspondence harness could not run against this tree", "note": note + " " + mnote}, no_input=True)
        nviol += 1
    if not proof.good() and nviol == 0:
        violation(PROP, {"property": PROP, "broken": proof.failure_text(), "searched_sequences": len(seqs)}, no_input=True)
        nviol += 1
    # statistics
    ncalls = sum(len(s["calls"]) for s in seqs)
    res_count, kinds, ops = {}, {}, {}
    for s in seqs:
        for ln in impls.get(s["id"], {"lines": []})["lines"]:
            if ln["phase"] == "end":
                res_count[ln["res"]] = res_count.get(ln["res"], 0) + 1
                if ln["res"] == "err":
                    kinds[ln.get("kind", "?")] = kinds.get(ln.get("kind", "?"), 0) + 1
        for c in s["calls"]:
            k = c["op"] if c["op"] != "upd" else "upd:" + "+".join(x for x in ("color", "query", "newname", "conv", "markadd", "markdel") if c.get(x) not in (None, "", []))
            ops[k] = ops.get(k, 0) + 1
    held = [ln.get("held") for s in seqs for ln in impls.get(s["id"], {"lines": []})["lines"] if ln["phase"] == "end" and "held" in ln]
    distinct = {json.dumps(s["calls"], sort_keys=True) for s in seqs if len(s["calls"]) >= 3}
    maxtags = max([len(ln.get("tags") or []) for s in seqs for ln in impls.get(s["id"], {"lines": []})["lines"]] or [0])
    cov = proof.coverage()
    cov.update({
        "trusted_base": TRUSTED_COMMON + [
            "query.Parse is an environment function of the model: its results (referenced tags, data / relative-time / grouping flags, id set) are taken from the real parser by the harness",
            "UpdateTag is modelled for the six exported operation constructors (one operation per call, the only requests the HTTP API can make); calls combining several operations are checked by the direct oracle only",
            "converter processes and cache files are not modelled: detach/attach never fail for I/O reasons; saveState never fails",
            "map iteration order of Go is fixed to table order in the model (inheritTagUncertainty, referencedTags)"],
        "evaluations": ncalls,
        "distinct_nontrivial": len(distinct),
        "rule": "seeded call sequences (6-60 calls) on a fresh Manager with 13 streams and 3 converters; mark ids that share leading digits (1/10/11/12); names from valid/invalid pools, definitions: plain, id-only, referencing existing/missing/own tags, sub-query references, unparsable, relative time, grouping; stream ids in and out of range; 2/3 of the sequences wait for quiescence after every call (matches compared), 1/3 race with the tagging jobs; 1/5 contain multi-operation updates (oracle only); 1/6 of the sequences hold a tagging job at tag.start / tag.done across API calls on its tag and its referrers (delete + re-create with the same definition, referrers added, rename ...) and release it; 5 % restart actions. non-trivial = >=3 calls, distinct by call list",
        "sequences": len(seqs), "sequences_vs_model": len(modelable), "results": res_count, "error_kinds": kinds, "op_distribution": ops,
        "max_tags_in_table": maxtags, "disagreements_examined": examined,
        "tagging_jobs_held_across_calls": sum(1 for h in held if h), "hold_requests_without_job": sum(1 for h in held if not h),
        "samples": [seqs[-1]["calls"][:6]] if seqs else [],
    })
    known, fixed = known_findings(PROP)
    cov["fixed_findings"] = fixed
    shutil.rmtree(run_dir(), ignore_errors=True)
    write_evidence(PROP, tier, seed, cov,
                   ["query.Parse results as observed", "one UpdateTag operation per call in the model", "no I/O failure of state file / converter cache"],
                   time.time() - t0, nviol)
    return 1 if nviol else 0
