"""C02 -- search returns exactly the streams the query denotes, ordered and paged.

Coq: theories/Search.v (model), SearchProofs.v, props/C02.v.
Tie: generated stream populations spread over 1-4 index files (older versions shadowed),
0-4 tags with match/uncertain bitmaps and definitions, queries with a meaning known to
the generator, sort key lists, limit, skip, id restriction.  The real index.SearchStreams
(harness/c02, overlay in package index), the extracted model (fed with what the real
buildSearchObjects compiled: possible/lookups/filter truth tables) and a direct Python
oracle of the property (filter visible newest versions, sort, cut) are compared.
"""
import functools
import os
import random
import time

from vplib import *

PROP = "C02"
BASE = 1577880000  # 2020-01-01T12:00:00Z
SORTKEYS = ["id", "ftime", "ltime", "cbytes", "sbytes", "cport", "sport", "chost", "shost"]
LIMITS = [0, 1, 2, 5, 100]

HOSTS4 = ["0a000001", "0a000002", "0a000105", "c0a80064", "c0a80001", "0a0000ff"]
HOSTS6 = ["fe800000000000000000000000000001", "20010db8000000000000000000000005"]
SPORTS = [80, 443, 22, 53, 8080]
CPORTS = [1000, 1001, 1002, 1003, 1004, 40000]
NBYTES = [0, 1, 2, 3, 5, 10, 17]
SEC = 10 ** 9


# ------------------------------------------------------------------ generator: populations
def gen_attrs(rng):
    v6 = rng.random() < 0.15
    hosts = HOSTS6 if v6 else HOSTS4
    ft = rng.choice([0, 60, 60, 120, 300, 300, 600, 900, 1200, 3600, 7200]) * SEC
    if rng.random() < 0.15:
        ft += rng.randrange(1, 5) * 1000  # sub-second offsets
    lt = ft + rng.choice([0, 1, 1, 5, 60, 600]) * SEC
    return {"ch": rng.choice(hosts), "sh": rng.choice(hosts), "cp": rng.choice(CPORTS), "sp": rng.choice(SPORTS),
            "cb": rng.choice(NBYTES), "sb": rng.choice(NBYTES), "ft": ft, "lt": lt,
            "proto": "udp" if rng.random() < 0.25 else "tcp"}


def gen_population(rng, name):
    r = rng.random()
    n = rng.randrange(1, 7) if r < 0.45 else (rng.randrange(5, 20) if r < 0.8 else rng.randrange(15, 61))
    if rng.random() < 0.8:
        ids = list(range(n))
    else:
        ids = sorted(rng.sample(range(0, 200), n))
    nfiles = rng.choice([1, 1, 2, 2, 3, 4])
    files = [[] for _ in range(nfiles)]
    for i in ids:
        nver = 1 if nfiles == 1 else rng.choice([1, 1, 1, 2, 2, 3])
        nver = min(nver, nfiles)
        where = sorted(rng.sample(range(nfiles), nver))
        prev = None
        for f in where:
            a = gen_attrs(rng)
            if prev is not None and rng.random() < 0.5:
                # a grown version of the same stream: same endpoints, more data, later end
                a = dict(prev)
                a["cb"] = prev["cb"] + rng.choice([0, 1, 4])
                a["sb"] = prev["sb"] + rng.choice([1, 3])
                a["lt"] = prev["lt"] + rng.choice([1, 30]) * SEC
            a["id"] = i
            files[f].append(a)
            prev = a
    files = [f for f in files if f]
    for f in files:
        rng.shuffle(f)
    return {"name": name, "files": files, "tags": [], "searches": []}


def visible_of(pop):
    vis = {}
    for fi, f in enumerate(pop["files"]):
        for s in f:
            vis[s["id"]] = dict(s, file=fi)
    return vis


# ------------------------------------------------------------------ queries: AST, text, meaning
# expr := ("and", [e..]) | ("or", [e..]) | ("not", e) | atom
# atom := ("num", key, [(lo, hi) | (v,)])  key in id cport sport port cbytes sbytes bytes
#       | ("host", key, [(hexaddr, masklen or None)])   key in chost shost host
#       | ("proto", [names]) | ("time", key, [(lo, hi)]) (seconds after BASE or None) | ("tag", kind, name)
def fmt_time(sec):
    return time.strftime("%Y-%m-%d %H%M%S", time.gmtime(BASE + sec))


def fmt_host(h):
    if len(h) == 8:
        return ".".join(str(int(h[i:i + 2], 16)) for i in range(0, 8, 2))
    return ":".join(h[i:i + 4] for i in range(0, 32, 4))


def text_of(e):
    k = e[0]
    if k == "and":
        sep = " and " if len(e) > 2 and e[2] else " "
        return sep.join(text_sub(x) for x in e[1])
    if k == "or":
        return " or ".join(text_sub(x) for x in e[1])
    if k == "not":
        return "-" + text_sub(e[1])
    if k == "num":
        parts = []
        for r in e[2]:
            if len(r) == 1:
                parts.append(str(r[0]))
            else:
                parts.append(("" if r[0] is None else str(r[0])) + ":" + ("" if r[1] is None else str(r[1])))
        return "%s:%s" % (e[1], ",".join(parts))
    if k == "host":
        return "%s:%s" % (e[1], ",".join(fmt_host(h) + ("" if m is None else "/%d" % m) for h, m in e[2]))
    if k == "proto":
        return "protocol:" + ",".join(e[1])
    if k == "time":
        parts = []
        for r in e[2]:
            if len(r) == 1:
                parts.append(fmt_time(r[0]))
            else:
                parts.append(("" if r[0] is None else fmt_time(r[0])) + ":" + ("" if r[1] is None else fmt_time(r[1])))
        return '%s:"%s"' % (e[1], ",".join(parts))
    if k == "tag":
        return "%s:%s" % (e[1], e[2])
    raise ValueError(e)


def text_sub(e):
    if e[0] in ("and", "or"):
        return "(" + text_of(e) + ")"
    return text_of(e)


def host_match(stream_host, h, m):
    if len(stream_host) != len(h):
        return False
    nbits = len(h) * 4
    a, b = int(stream_host, 16), int(h, 16)
    if m is None:
        mask = (1 << nbits) - 1
    elif m >= 0:
        mm = min(m, nbits)
        mask = ((1 << mm) - 1) << (nbits - mm)
    else:
        mm = min(-m, nbits)
        mask = (1 << mm) - 1
        if nbits == 32 and -m > 32:
            mask = 0  # the code only fills the v4 mask for n >= -32
    return (a ^ b) & mask == 0


def in_range(v, r):
    if len(r) == 1:
        return v == r[0]
    return (r[0] is None or v >= r[0]) and (r[1] is None or v <= r[1])


def eval_expr(e, s, tagtruth):
    k = e[0]
    if k == "and":
        return all(eval_expr(x, s, tagtruth) for x in e[1])
    if k == "or":
        return any(eval_expr(x, s, tagtruth) for x in e[1])
    if k == "not":
        return not eval_expr(e[1], s, tagtruth)
    if k == "num":
        fields = {"id": ["id"], "cport": ["cp"], "sport": ["sp"], "port": ["cp", "sp"], "cbytes": ["cb"],
                  "sbytes": ["sb"], "bytes": ["cb", "sb"]}[e[1]]
        return any(in_range(s[f], r) for f in fields for r in e[2])
    if k == "host":
        fields = {"chost": ["ch"], "shost": ["sh"], "host": ["ch", "sh"]}[e[1]]
        return any(host_match(s[f], h, m) for f in fields for h, m in e[2])
    if k == "proto":
        return s["proto"] in e[1]
    if k == "time":
        res = False
        for r in e[2]:
            lo, hi = (r[0], r[0]) if len(r) == 1 else r
            lo = None if lo is None else lo * SEC
            hi = None if hi is None else hi * SEC
            if e[1] == "ftime":
                res |= (lo is None or s["ft"] >= lo) and (hi is None or s["ft"] <= hi)
            elif e[1] == "ltime":
                res |= (lo is None or s["lt"] >= lo) and (hi is None or s["lt"] <= hi)
            else:  # time:A:B  =  ltime >= A and ftime <= B
                res |= (lo is None or s["lt"] >= lo) and (hi is None or s["ft"] <= hi)
        return res
    if k == "tag":
        return tagtruth["%s/%s" % (e[1], e[2])][s["id"]]
    raise ValueError(e)


def gen_range(rng, pool, single_p=0.5):
    if rng.random() < single_p:
        return (rng.choice(pool),)
    a, b = rng.choice(pool), rng.choice(pool)
    if a > b and rng.random() < 0.9:
        a, b = b, a
    r = rng.random()
    if r < 0.2:
        return (a, None)
    if r < 0.4:
        return (None, b)
    return (a, b)


def gen_atom(rng, ids, tagnames, intag=False):
    r = rng.random()
    if tagnames and r < 0.22:
        t = rng.choice(tagnames)
        return ("tag",) + tuple(t.split("/"))
    if r < 0.40:
        pool = sorted(set(ids) | {max(ids) + 1, 123})
        return ("num", "id", [gen_range(rng, pool) for _ in range(rng.choice([1, 1, 1, 2, 3]))])
    if r < 0.58:
        key = rng.choice(["cport", "sport", "port"])
        pool = {"cport": CPORTS, "sport": SPORTS, "port": CPORTS + SPORTS}[key]
        return ("num", key, [gen_range(rng, pool, 0.65) for _ in range(rng.choice([1, 1, 2]))])
    if r < 0.68:
        key = rng.choice(["cbytes", "sbytes", "bytes"])
        return ("num", key, [gen_range(rng, NBYTES + [4, 20], 0.4) for _ in range(rng.choice([1, 1, 2]))])
    if r < 0.80:
        key = rng.choice(["chost", "shost", "host"])
        hs = []
        for _ in range(rng.choice([1, 1, 2])):
            h = rng.choice(HOSTS4 + HOSTS6[:1]) if rng.random() < 0.9 else rng.choice(HOSTS6)
            m = None
            if rng.random() < 0.35:
                m = rng.choice([8, 16, 24, 31, 32, -8]) if len(h) == 8 else rng.choice([16, 64, 128, -16])
            hs.append((h, m))
        return ("host", key, hs)
    if r < 0.86:
        return ("proto", rng.choice([["tcp"], ["udp"], ["tcp", "udp"], ["sctp"]]))
    key = rng.choice(["ftime", "ltime", "time"])
    pool = [0, 60, 61, 120, 300, 305, 600, 900, 1200, 3600, 7200, 7260]
    if intag:
        # known finding tag-inline-reftime: an inlined definition is evaluated with the outer query's reference
        # time, so its absolute bounds drift by the time between the two Parse calls (here: microseconds).
        # Bounds at hh:mm:45 are never hit exactly by a generated stream time, so the drift cannot show here;
        # the finding itself is exercised by the dedicated `tagdelay` case.
        pool = [45, 105, 345, 645, 945, 1245, 3645, 7245]
    return ("time", key, [gen_range(rng, pool, 0.25) for _ in range(rng.choice([1, 1, 2]))])


def gen_expr(rng, ids, tagnames, depth, intag=False):
    r = rng.random()
    if depth == 0 or r < 0.35:
        a = gen_atom(rng, ids, tagnames, intag)
        if rng.random() < 0.2:
            return ("not", a)
        return a
    if r < 0.65:
        return ("and", [gen_expr(rng, ids, tagnames, depth - 1, intag) for _ in range(rng.choice([2, 2, 3]))], rng.random() < 0.3)
    if r < 0.9:
        return ("or", [gen_expr(rng, ids, tagnames, depth - 1, intag) for _ in range(rng.choice([2, 2, 3]))])
    return ("not", gen_expr(rng, ids, tagnames, depth - 1, intag))


def dnf_cost(e, tagexprs):
    """Rough (number of conjuncts, widest conjunct) of the DNF the parser builds; NOT is a product."""
    k = e[0]
    if k == "and":
        n, w = 1, 0
        for x in e[1]:
            a, b = dnf_cost(x, tagexprs)
            n, w = min(10 ** 9, n * a), w + b
        return n, w
    if k == "or":
        cs = [dnf_cost(x, tagexprs) for x in e[1]]
        return sum(c[0] for c in cs), max(c[1] for c in cs)
    if k == "not":
        n, w = dnf_cost(e[1], tagexprs)
        if n > 40:
            return 10 ** 9, n
        return min(10 ** 9, max(1, w) ** n), n
    if k == "num":
        f = 2 if e[1] in ("port", "bytes") else 1
        return f * len(e[2]), 2
    if k == "host":
        return (2 if e[1] == "host" else 1) * len(e[2]), 1
    if k == "proto":
        return len(e[1]), 1
    if k == "time":
        return len(e[2]), 2
    if k == "tag":
        n, w = dnf_cost(tagexprs["%s/%s" % (e[1], e[2])], tagexprs)
        n2, w2 = dnf_cost(("not", tagexprs["%s/%s" % (e[1], e[2])]), tagexprs)
        return 1 + max(n, n2), 1 + max(w, w2)
    raise ValueError(e)


def cheap(e, tagexprs, cap=48):
    try:
        n, w = dnf_cost(e, tagexprs)
        n2, w2 = dnf_cost(("not", e), tagexprs)
    except OverflowError:
        return False
    return n <= cap and n2 <= 4 * cap


def gen_cheap_expr(rng, ids, tagnames, depth, tagexprs, intag=False):
    for _ in range(200):
        e = gen_expr(rng, ids, tagnames, depth, intag)
        if not intag and len(tagnames) >= 2 and rng.random() < 0.12:
            # several tag conditions in one conjunct (each undecided tag multiplies the conjunct when inlined)
            ts = [("tag",) + tuple(t.split("/")) for t in rng.sample(tagnames, rng.randrange(2, len(tagnames) + 1))]
            ts = [("not", t) if rng.random() < 0.2 else t for t in ts]
            e = ("and", ts + ([e] if rng.random() < 0.3 else []), False)
        if cheap(e, tagexprs):
            return e
    return gen_atom(rng, ids, [])


def gen_tags(rng, pop):
    """Tags carry their definition (text + AST) and a per-stream state:
    0 = decided (bit = truth), 1 = undecided with stale bit clear, 2 = undecided with stale bit set."""
    vis = visible_of(pop)
    ids = sorted(vis)
    ntags = rng.choice([0, 0, 1, 2, 3, 3, 4])
    names = ["tag/a", "service/b", "mark/c", "tag/d"][:ntags]
    tags, exprs = [], {}
    for i, name in enumerate(names):
        if name.startswith("mark/"):
            e = ("num", "id", [(x,) for x in sorted(rng.sample(ids, rng.randrange(1, min(len(ids), 4) + 1)))])
        else:
            e = gen_cheap_expr(rng, ids, names[:i] if rng.random() < 0.5 else [], rng.choice([0, 1, 1, 2]), exprs, True)
        exprs[name] = e
        mode = rng.choice(["certain", "uncertain", "mixed", "mixed", "mixed"])
        state = {}
        for sid in ids:
            unc = mode == "uncertain" or (mode == "mixed" and rng.random() < 0.4)
            state[str(sid)] = (1 + (rng.random() < 0.5)) if unc else 0
        tags.append({"name": name, "def": text_of(e), "expr": e, "state": state})
    pop["tags"] = tags
    return finish_tags(pop), exprs


def finish_tags(pop):
    """(Re)computes the truth of every tag on the visible streams and from it the match/uncertain bitmaps:
    every decided bit is correct, undecided bits are arbitrary (stale)."""
    vis = visible_of(pop)
    truth = {}
    for t in pop["tags"]:
        truth[t["name"]] = {sid: eval_expr(t["expr"], vis[sid], truth) for sid in vis}
        t["matches"], t["uncertain"] = [], []
        for sid in sorted(vis):
            st = t["state"].get(str(sid), 0)
            if st:
                t["uncertain"].append(sid)
            if st == 2 or (st == 0 and truth[t["name"]][sid]):
                t["matches"].append(sid)
    pop["_truth"] = truth
    return truth


def gen_search(rng, pop, tagnames, tagexprs):
    vis = visible_of(pop)
    ids = sorted(vis)
    e = gen_cheap_expr(rng, ids, tagnames, rng.choice([0, 1, 1, 2, 2, 3]), tagexprs)
    nkeys = rng.choice([0, 1, 1, 2, 2, 3])
    sort = [[rng.choice(SORTKEYS), rng.choice([0, 1])] for _ in range(nkeys)]
    limit = rng.choice(LIMITS)
    if rng.random() < 0.75:
        skip = rng.choice([0, 0, 1, 2, 3]) * limit
    else:
        skip = rng.choice([0, 1, 2, 3]) if limit else 0
    idr = None
    if rng.random() < 0.25:
        idr = sorted(set(rng.sample(ids, rng.randrange(0, len(ids) + 1))) | ({999} if rng.random() < 0.3 else set()))
    return {"expr": e, "q": text_of(e), "sort": sort, "limit": limit, "skip": skip, "ids": idr}


# ------------------------------------------------------------------ direct oracle of the property
KEYFIELD = {"id": "id", "ftime": "ft", "ltime": "lt", "cbytes": "cb", "sbytes": "sb", "cport": "cp", "sport": "sp",
            "chost": "ch", "shost": "sh"}


def keyval(s, k):
    v = s[KEYFIELD[k]]
    return bytes.fromhex(v) if k in ("chost", "shost") else v


def compare(sort):
    def cmp(a, b):
        for k, d in sort:
            x, y = keyval(a, k), keyval(b, k)
            if x != y:
                c = -1 if x < y else 1
                return -c if d else c
        return 0
    return cmp


def spec(pop, truth, sr):
    """-> dict(matching ids, expected key sequence of the page, expected length, more)"""
    vis = visible_of(pop)
    sort = sr["sort"] or [["ftime", 1]]
    match = [s for s in vis.values() if (sr["ids"] is None or s["id"] in sr["ids"]) and eval_expr(sr["expr"], s, truth)]
    full = sorted(match, key=functools.cmp_to_key(compare(sort)))
    limit, skip = sr["limit"], sr["skip"]
    page = full[skip:] if limit == 0 else full[skip:skip + limit]
    return {"matching": sorted(s["id"] for s in match),
            "keys": [[keyval(s, k).hex() if isinstance(keyval(s, k), bytes) else keyval(s, k) for k, _ in sort] for s in page],
            "n": len(page), "more": limit != 0 and len(full) > skip + limit, "page_ids": [s["id"] for s in page]}


def parse_result(line):
    """R pi si OK more=true n=2 | id,fidx,sidx,ft,lt,cb,sb,cp,sp,ch,sh,proto ..."""
    tok = line.split()
    res = {"status": tok[3] if len(tok) > 3 else "MISSING", "raw": line}
    if res["status"] != "OK":
        return res
    res["more"] = tok[4] == "more=true"
    streams = []
    for t in tok[7:]:
        f = t.split(",")
        streams.append({"id": int(f[0]), "file": int(f[1]), "idx": int(f[2]), "ft": int(f[3]), "lt": int(f[4]), "cb": int(f[5]),
                        "sb": int(f[6]), "cp": int(f[7]), "sp": int(f[8]), "ch": f[9], "sh": f[10], "proto": f[11]})
    res["streams"] = streams
    return res


def judge(pop, sr, sp, res):
    """Property verdict on an implementation (or model) observation. Returns None or (kind, reason)."""
    if res["status"] != "OK":
        return "status", res["raw"][:300]
    vis = visible_of(pop)
    sort = sr["sort"] or [["ftime", 1]]
    ids = [s["id"] for s in res["streams"]]
    if len(set(ids)) != len(ids):
        return "duplicate", "a stream is listed twice: %s" % ids
    for s in res["streams"]:
        if s["id"] not in vis:
            return "unknown", "unknown stream id %d" % s["id"]
        v = vis[s["id"]]
        for f in ("file", "ft", "lt", "cb", "sb", "cp", "sp", "ch", "sh", "proto"):
            if f in s and s[f] != v[f]:
                return "stale", "stream %d: stale or wrong version returned (%s=%s, visible version has %s)" % (s["id"], f, s[f], v[f])
        if s["id"] not in sp["matching"]:
            return "nomatch", "stream %d does not satisfy the query / id restriction" % s["id"]
    if len(ids) != sp["n"]:
        return "length", "page has %d streams, expected %d (matching %d, limit %d, skip %d): got %s, e.g. %s" % (
            len(ids), sp["n"], len(sp["matching"]), sr["limit"], sr["skip"], ids, sp["page_ids"])
    keys = [[(vis[i][KEYFIELD[k]]) for k, _ in sort] for i in ids]
    if keys != sp["keys"]:
        return "order", "order/page differs: got ids %s, expected (up to ties) %s" % (ids, sp["page_ids"])
    if res["more"] != sp["more"]:
        return "more", "more flag %s, expected %s" % (res["more"], sp["more"])
    return None


# ------------------------------------------------------------------ execution
def strip_search(sr):
    return {"q": sr["q"], "sort": sr["sort"], "limit": sr["limit"], "skip": sr["skip"], "ids": sr["ids"]}


def execute(pops, exe, tag, want_model=True):
    d = os.path.join(BUILD, "run", "c02")
    os.makedirs(d, exist_ok=True)
    cf = os.path.join(d, "cases_%s.json" % tag)
    json.dump({"base": BASE, "pops": [dict(p, searches=[strip_search(s) for s in p["searches"]]) for p in pops]}, open(cf, "w"))
    iout, mi, mout = (os.path.join(d, "%s_%s.out" % (x, tag)) for x in ("impl", "modelin", "model"))
    for p in (iout, mi, mout):
        if os.path.exists(p):
            os.remove(p)
    ov = go_overlay({"internal/index/zz_verif_c02_test.go": os.path.join(ROOT, "harness/c02/zz_verif_c02_test.go")}, "c02")
    env = {"VERIF_CASES": cf, "VERIF_OUT": iout, "TZ": "UTC"}
    if want_model and exe:
        env["VERIF_MODEL"] = mi
    rc, out, dt = go_test("./internal/index/", ov, "^TestVerifC02$", env, timeout=900)
    note = "" if rc == 0 else "go harness rc=%d: %s" % (rc, out[-1500:])
    impl = {}
    if os.path.exists(iout):
        for line in open(iout):
            if line.startswith("R "):
                t = line.split(None, 3)
                impl[(int(t[1]), int(t[2]))] = parse_result(line.rstrip("\n"))
            elif line.startswith("BUILDFAIL"):
                note += " " + line.strip()
    model = {}
    if want_model and exe and os.path.exists(mi):
        rc2, out2, _ = run([exe, mi, mout], timeout=900)
        if rc2 != 0:
            note += " model driver rc=%d: %s" % (rc2, out2[-500:])
        if os.path.exists(mout):
            for line in open(mout):
                t = line.split()
                if t and t[0] == "M":
                    model[(int(t[1]), int(t[2]))] = {"fixed": parse_model(t[3]), "orig": parse_model(t[4])}
    return impl, model, note, dt


def parse_model(tok):
    """more:fidx.sidx,fidx.sidx  -> dict"""
    more, _, rest = tok.partition(":")
    return {"more": more == "1", "pos": [tuple(int(x) for x in p.split(".")) for p in rest.split(",") if p]}


def model_as_result(pop, m):
    streams = []
    for fi, si in m["pos"]:
        s = pop["files"][fi][si]
        streams.append(dict(s, file=fi, idx=si))
    return {"status": "OK", "more": m["more"], "streams": streams, "raw": ""}


