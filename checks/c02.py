"""C02 -- search returns exactly the streams the query denotes, ordered and paged.

Coq: theories/Search.v (model), SearchProofs.v, props/C02.v.
Tie: generated stream populations spread over 1-4 index files (older versions shadowed),
0-4 tags with match/uncertain bitmaps and definitions, queries with a meaning known to
the generator, sort key lists, limit, skip, id restriction.  The real index.SearchStreams
(harness/c02, overlay in package index), the extracted model (fed with what the real
buildSearchObjects compiled: possible/lookups/filter truth tables) and a direct Python
oracle of the property (filter visible newest versions, sort, cut) are compared.
"""
import functools
import os
import random
import time

from vplib import *

PROP = "C02"
BASE = 1577880000  # 2020-01-01T12:00:00Z
SORTKEYS = ["id", "ftime", "ltime", "cbytes", "sbytes", "cport", "sport", "chost", "shost"]
LIMITS = [0, 1, 2, 5, 100]

HOSTS4 = ["0a000001", "0a000002", "0a000105", "c0a80064", "c0a80001", "0a0000ff"]
HOSTS6 = ["fe800000000000000000000000000001", "20010db8000000000000000000000005"]
SPORTS = [80, 443, 22, 53, 8080]
CPORTS = [1000, 1001, 1002, 1003, 1004, 40000]
NBYTES = [0, 1, 2, 3, 5, 10, 17]
SEC = 10 ** 9


# ------------------------------------------------------------------ generator: populations
def gen_attrs(rng):
    v6 = rng.random() < 0.15
    hosts = HOSTS6 if v6 else HOSTS4
    ft = rng.choice([0, 60, 60, 120, 300, 300, 600, 900, 1200, 3600, 7200]) * SEC
    if rng.random() < 0.15:
        ft += rng.randrange(1, 5) * 1000  # sub-second offsets
    lt = ft + rng.choice([0, 1, 1, 5, 60, 600]) * SEC
    return {"ch": rng.choice(hosts), "sh": rng.choice(hosts), "cp": rng.choice(CPORTS), "sp": rng.choice(SPORTS),
            "cb": rng.choice(NBYTES), "sb": rng.choice(NBYTES), "ft": ft, "lt": lt,
            "proto": "udp" if rng.random() < 0.25 else "tcp"}


def gen_population(rng, name):
    r = rng.random()
    n = rng.randrange(1, 7) if r < 0.45 else (rng.randrange(5, 20) if r < 0.8 else rng.randrange(15, 61))
    if rng.random() < 0.8:
        ids = list(range(n))
    else:
        ids = sorted(rng.sample(range(0, 200), n))
    nfiles = rng.choice([1, 1, 2, 2, 3, 4])
    files = [[] for _ in range(nfiles)]
    for i in ids:
        nver = 1 if nfiles == 1 else rng.choice([1, 1, 1, 2, 2, 3])
        nver = min(nver, nfiles)
        where = sorted(rng.sample(range(nfiles), nver))
        prev = None
        for f in where:
            a = gen_attrs(rng)
            if prev is not None and rng.random() < 0.5:
                # a grown version of the same stream: same endpoints, more data, later end
                a = dict(prev)
                a["cb"] = prev["cb"] + rng.choice([0, 1, 4])
                a["sb"] = prev["sb"] + rng.choice([1, 3])
                a["lt"] = prev["lt"] + rng.choice([1, 30]) * SEC
            a["id"] = i
            files[f].append(a)
            prev = a
    files = [f for f in files if f]
    for f in files:
        rng.shuffle(f)
    return {"name": name, "files": files, "tags": [], "searches": []}


def visible_of(pop):
    vis = {}
    for fi, f in enumerate(pop["files"]):
        for s in f:
            vis[s["id"]] = dict(s, file=fi)
    return vis


# ------------------------------------------------------------------ queries: AST, text, meaning
# expr := ("and", [e..]) | ("or", [e..]) | ("not", e) | atom
# atom := ("num", key, [(lo, hi) | (v,)])  key in id cport sport port cbytes sbytes bytes
#       | ("host", key, [(hexaddr, masklen or None)])   key in chost shost host
#       | ("proto", [names]) | ("time", key, [(lo, hi)]) (seconds after BASE or None) | ("tag", kind, name)
def fmt_time(sec):
    return time.strftime("%Y-%m-%d %H%M%S", time.gmtime(BASE + sec))


def fmt_host(h):
    if len(h) == 8:
        return ".".join(str(int(h[i:i + 2], 16)) for i in range(0, 8, 2))
    return ":".join(h[i:i + 4] for i in range(0, 32, 4))


def text_of(e):
    k = e[0]
    if k == "and":
        sep = " and " if len(e) > 2 and e[2] else " "
        return sep.join(text_sub(x) for x in e[1])
    if k == "or":
        return " or ".join(text_sub(x) for x in e[1])
    if k == "not":
        return "-" + text_sub(e[1])
    if k == "num":
        parts = []
        for r in e[2]:
            if len(r) == 1:
                parts.append(str(r[0]))
            else:
                parts.append(("" if r[0] is None else str(r[0])) + ":" + ("" if r[1] is None else str(r[1])))
        return "%s:%s" % (e[1], ",".join(parts))
    if k == "host":
        return "%s:%s" % (e[1], ",".join(fmt_host(h) + ("" if m is None else "/%d" % m) for h, m in e[2]))
    if k == "proto":
        return "protocol:" + ",".join(e[1])
    if k == "time":
        parts = []
        for r in e[2]:
            if len(r) == 1:
                parts.append(fmt_time(r[0]))
            else:
                parts.append(("" if r[0] is None else fmt_time(r[0])) + ":" + ("" if r[1] is None else fmt_time(r[1])))
        return '%s:"%s"' % (e[1], ",".join(parts))
    if k == "tag":
        return "%s:%s" % (e[1], e[2])
    if k == "sub":
        return "@%s:%s" % (e[1], text_of(e[2]))
    if k == "relnum":
        _, key, name, var, off, mode, off2 = e
        t1, t2 = rel_term(name, var, off), rel_term(name, var, off2)
        return "%s:%s" % (key, {"eq": t1, "ge": t1 + ":", "le": ":" + t1, "range": t1 + ":" + t2}[mode])
    if k == "reltime":
        _, key, name, var, off, mode, off2 = e
        t1, t2 = rel_term(name, var, off, "s"), rel_term(name, var, off2, "s")
        return "%s:%s" % (key, {"eq": t1, "ge": t1 + ":", "le": ":" + t1, "range": t1 + ":" + t2}[mode])
    if k == "relhost":
        return "%s:%s%s" % (e[1], rel_term(e[2], e[3], 0), "" if e[4] is None else "/%d" % e[4])
    if k == "relproto":
        return "protocol:@%s:protocol@" % e[1]
    raise ValueError(e)


def rel_term(name, var, off, unit=""):
    t = ("@%s:%s@" % (name, var)) if name else ("@%s@" % var)   # name "" = a variable of the own stream
    if off:
        t += ("+%d%s" % (off, unit)) if off > 0 else ("-%d%s" % (-off, unit))
    return t


def text_sub(e):
    if e[0] in ("and", "or"):
        return "(" + text_of(e) + ")"
    return text_of(e)


def host_match(stream_host, h, m):
    if len(stream_host) != len(h):
        return False
    nbits = len(h) * 4
    a, b = int(stream_host, 16), int(h, 16)
    if m is None:
        mask = (1 << nbits) - 1
    elif m >= 0:
        mm = min(m, nbits)
        mask = ((1 << mm) - 1) << (nbits - mm)
    else:
        mm = min(-m, nbits)
        mask = (1 << mm) - 1
        if nbits == 32 and -m > 32:
            mask = 0  # the code only fills the v4 mask for n >= -32
    return (a ^ b) & mask == 0


def in_range(v, r):
    if len(r) == 1:
        return v == r[0]
    return (r[0] is None or v >= r[0]) and (r[1] is None or v <= r[1])


def eval_expr(e, s, tagtruth, env=None):
    k = e[0]
    if k == "and":
        return all(eval_expr(x, s, tagtruth, env) for x in e[1])
    if k == "or":
        return any(eval_expr(x, s, tagtruth, env) for x in e[1])
    if k == "not":
        return not eval_expr(e[1], s, tagtruth, env)
    if k == "num":
        fields = {"id": ["id"], "cport": ["cp"], "sport": ["sp"], "port": ["cp", "sp"], "cbytes": ["cb"],
                  "sbytes": ["sb"], "bytes": ["cb", "sb"]}[e[1]]
        return any(in_range(s[f], r) for f in fields for r in e[2])
    if k == "host":
        fields = {"chost": ["ch"], "shost": ["sh"], "host": ["ch", "sh"]}[e[1]]
        return any(host_match(s[f], h, m) for f in fields for h, m in e[2])
    if k == "proto":
        return s["proto"] in e[1]
    if k == "time":
        res = False
        for r in e[2]:
            lo, hi = (r[0], r[0]) if len(r) == 1 else r
            lo = None if lo is None else lo * SEC
            hi = None if hi is None else hi * SEC
            if e[1] == "ftime":
                res |= (lo is None or s["ft"] >= lo) and (hi is None or s["ft"] <= hi)
            elif e[1] == "ltime":
                res |= (lo is None or s["lt"] >= lo) and (hi is None or s["lt"] <= hi)
            else:  # time:A:B  =  ltime >= A and ftime <= B
                res |= (lo is None or s["lt"] >= lo) and (hi is None or s["ft"] <= hi)
        return res
    if k == "tag":
        return tagtruth["%s/%s" % (e[1], e[2])][s["id"]]
    if k == "sub":      # an atom about the stream of sub-query e[1]
        return eval_expr(e[2], env[e[1]], tagtruth, env)
    if k in ("relnum", "reltime"):
        _, key, name, var, off, mode, off2 = e
        o = env[name] if name else s
        if k == "relnum":
            fields = NUMFIELDS[key]
            base, lo_f, hi_f, unit = o[NUMFIELDS[var][0]], fields, fields, 1
        else:
            base, unit = o[{"ftime": "ft", "ltime": "lt"}[var]], SEC
            lo_f, hi_f = {"ftime": (["ft"], ["ft"]), "ltime": (["lt"], ["lt"]), "time": (["lt"], ["ft"])}[key]
        lo = base + off * unit if mode in ("eq", "ge", "range") else None
        hi = base + (off if mode in ("eq", "le") else off2) * unit if mode in ("eq", "le", "range") else None
        # key with two fields (port, bytes): one of them satisfies both bounds; time: ltime >= lo and ftime <= hi
        if k == "relnum":
            return any((lo is None or s[f] >= lo) and (hi is None or s[f] <= hi) for f in fields)
        return (lo is None or s[lo_f[0]] >= lo) and (hi is None or s[hi_f[0]] <= hi)
    if k == "relhost":
        fields = {"chost": ["ch"], "shost": ["sh"], "host": ["ch", "sh"]}[e[1]]
        other = (env[e[2]] if e[2] else s)[{"chost": "ch", "shost": "sh"}[e[3]]]
        return any(host_match(s[f], other, e[4]) for f in fields)
    if k == "relproto":
        return s["proto"] == env[e[1]]["proto"]
    raise ValueError(e)


NUMFIELDS = {"id": ["id"], "cport": ["cp"], "sport": ["sp"], "port": ["cp", "sp"], "cbytes": ["cb"], "sbytes": ["sb"],
             "bytes": ["cb", "sb"]}


def sub_names(e, acc=None):
    acc = [] if acc is None else acc
    k = e[0]
    if k in ("and", "or"):
        for x in e[1]:
            sub_names(x, acc)
    elif k == "not":
        sub_names(e[1], acc)
    elif k == "sub":
        if e[1] not in acc:
            acc.append(e[1])
        sub_names(e[2], acc)
    elif k in ("relnum", "reltime", "relhost"):
        if e[2] and e[2] not in acc:
            acc.append(e[2])
    elif k == "relproto":
        if e[1] not in acc:
            acc.append(e[1])
    return acc


def connected(e):
    """Every sub-query that occurs is connected to the main query by relations (possibly through other
    sub-queries).  The engine ignores unconnected sub-queries; such queries are an excluded form."""
    edges, used = set(), set()

    def walk(x, owner):
        k = x[0]
        if k in ("and", "or"):
            for y in x[1]:
                walk(y, owner)
        elif k == "not":
            walk(x[1], owner)
        elif k == "sub":
            used.add(x[1])
            walk(x[2], x[1])
        elif k in ("relnum", "reltime", "relhost"):
            if x[2] != owner:
                used.add(x[2])
                edges.add((owner, x[2]))
        elif k == "relproto":
            used.add(x[1])
            edges.add((owner, x[1]))
    walk(e, "")
    reach, todo = {""}, [""]
    while todo:
        n = todo.pop()
        for a, b in edges:
            for u, v in ((a, b), (b, a)):
                if u == n and v not in reach:
                    reach.add(v)
                    todo.append(v)
    return used <= reach


def eval_query(e, s, tagtruth, vis):
    """Meaning of a query with sub-queries: the stream matches iff streams for the sub-queries exist (among the
    visible ones) that make the formula true."""
    names = sub_names(e)
    if not names:
        return eval_expr(e, s, tagtruth)
    vs = list(vis.values())

    def go(i, env):
        if i == len(names):
            return eval_expr(e, s, tagtruth, env)
        return any(go(i + 1, dict(env, **{names[i]: o})) for o in vs)
    return go(0, {})


def gen_range(rng, pool, single_p=0.5):
    if rng.random() < single_p:
        return (rng.choice(pool),)
    a, b = rng.choice(pool), rng.choice(pool)
    if a > b and rng.random() < 0.9:
        a, b = b, a
    r = rng.random()
    if r < 0.2:
        return (a, None)
    if r < 0.4:
        return (None, b)
    return (a, b)


def gen_atom(rng, ids, tagnames, intag=False, own=True):
    if own and not intag and rng.random() < 0.07:
        return gen_own_rel(rng)
    r = rng.random()
    if tagnames and r < 0.22:
        t = rng.choice(tagnames)
        return ("tag",) + tuple(t.split("/"))
    if r < 0.40:
        pool = sorted(set(ids) | {max(ids) + 1, 123})
        return ("num", "id", [gen_range(rng, pool) for _ in range(rng.choice([1, 1, 1, 2, 3]))])
    if r < 0.58:
        key = rng.choice(["cport", "sport", "port"])
        pool = {"cport": CPORTS, "sport": SPORTS, "port": CPORTS + SPORTS}[key]
        return ("num", key, [gen_range(rng, pool, 0.65) for _ in range(rng.choice([1, 1, 2]))])
    if r < 0.68:
        key = rng.choice(["cbytes", "sbytes", "bytes"])
        return ("num", key, [gen_range(rng, NBYTES + [4, 20], 0.4) for _ in range(rng.choice([1, 1, 2]))])
    if r < 0.80:
        key = rng.choice(["chost", "shost", "host"])
        hs = []
        for _ in range(rng.choice([1, 1, 2])):
            h = rng.choice(HOSTS4 + HOSTS6[:1]) if rng.random() < 0.9 else rng.choice(HOSTS6)
            m = None
            if rng.random() < 0.35:
                m = rng.choice([8, 16, 24, 31, 32, -8]) if len(h) == 8 else rng.choice([16, 64, 128, -16])
            hs.append((h, m))
        return ("host", key, hs)
    if r < 0.86:
        return ("proto", rng.choice([["tcp"], ["udp"], ["tcp", "udp"], ["sctp"]]))
    key = rng.choice(["ftime", "ltime", "time"])
    pool = [0, 60, 61, 120, 300, 305, 600, 900, 1200, 3600, 7200, 7260]
    if intag:
        # known finding tag-inline-reftime: an inlined definition is evaluated with the outer query's reference
        # time, so its absolute bounds drift by the time between the two Parse calls (here: microseconds).
        # Bounds at hh:mm:45 are never hit exactly by a generated stream time, so the drift cannot show here;
        # the finding itself is exercised by the dedicated `tagdelay` case.
        pool = [45, 105, 345, 645, 945, 1245, 3645, 7245]
    return ("time", key, [gen_range(rng, pool, 0.25) for _ in range(rng.choice([1, 1, 2]))])


def gen_expr(rng, ids, tagnames, depth, intag=False):
    r = rng.random()
    if depth == 0 or r < 0.35:
        a = gen_atom(rng, ids, tagnames, intag)
        if rng.random() < 0.2:
            return ("not", a)
        return a
    if r < 0.65:
        return ("and", [gen_expr(rng, ids, tagnames, depth - 1, intag) for _ in range(rng.choice([2, 2, 3]))], rng.random() < 0.3)
    if r < 0.9:
        return ("or", [gen_expr(rng, ids, tagnames, depth - 1, intag) for _ in range(rng.choice([2, 2, 3]))])
    return ("not", gen_expr(rng, ids, tagnames, depth - 1, intag))


def dnf_cost(e, tagexprs):
    """Rough (number of conjuncts, widest conjunct) of the DNF the parser builds; NOT is a product."""
    k = e[0]
    if k == "and":
        n, w = 1, 0
        for x in e[1]:
            a, b = dnf_cost(x, tagexprs)
            n, w = min(10 ** 9, n * a), w + b
        return n, w
    if k == "or":
        cs = [dnf_cost(x, tagexprs) for x in e[1]]
        return sum(c[0] for c in cs), max(c[1] for c in cs)
    if k == "not":
        n, w = dnf_cost(e[1], tagexprs)
        if n > 40:
            return 10 ** 9, n
        return min(10 ** 9, max(1, w) ** n), n
    if k == "num":
        f = 2 if e[1] in ("port", "bytes") else 1
        return f * len(e[2]), 2
    if k == "host":
        return (2 if e[1] == "host" else 1) * len(e[2]), 1
    if k == "proto":
        # protocol:x is NOT(flags != x) = a conjunction of three FlagConditions; its inversion before Clean is
        # three conjuncts of three conditions again: count both polarities as 3 x 3
        return 3 * len(e[1]), 3
    if k == "time":
        return len(e[2]), 2
    if k == "sub":
        return dnf_cost(e[2], tagexprs)
    if k in ("relnum", "reltime"):
        return (2 if e[1] in ("port", "bytes") else 1), 2
    if k == "relhost":
        return (2 if e[1] == "host" else 1), 1
    if k == "relproto":
        return 3, 3
    if k == "tag":
        n, w = dnf_cost(tagexprs["%s/%s" % (e[1], e[2])], tagexprs)
        n2, w2 = dnf_cost(("not", tagexprs["%s/%s" % (e[1], e[2])]), tagexprs)
        return 1 + max(n, n2), 1 + max(w, w2)
    raise ValueError(e)


def cheap(e, tagexprs, cap=48):
    try:
        n, w = dnf_cost(e, tagexprs)
        n2, w2 = dnf_cost(("not", e), tagexprs)
    except OverflowError:
        return False
    return n <= cap and n2 <= 4 * cap


def gen_cheap_expr(rng, ids, tagnames, depth, tagexprs, intag=False):
    for _ in range(200):
        e = gen_expr(rng, ids, tagnames, depth, intag)
        if not intag and len(tagnames) >= 2 and rng.random() < 0.12:
            # several tag conditions in one conjunct (each undecided tag multiplies the conjunct when inlined)
            ts = [("tag",) + tuple(t.split("/")) for t in rng.sample(tagnames, rng.randrange(2, len(tagnames) + 1))]
            ts = [("not", t) if rng.random() < 0.2 else t for t in ts]
            e = ("and", ts + ([e] if rng.random() < 0.3 else []), False)
        if cheap(e, tagexprs):
            return e
    return gen_atom(rng, ids, [])


def gen_tags(rng, pop):
    """Tags carry their definition (text + AST) and a per-stream state:
    0 = decided (bit = truth), 1 = undecided with stale bit clear, 2 = undecided with stale bit set."""
    vis = visible_of(pop)
    ids = sorted(vis)
    ntags = rng.choice([0, 0, 1, 2, 3, 3, 4])
    names = ["tag/a", "service/b", "mark/c", "tag/d"][:ntags]
    tags, exprs = [], {}
    for i, name in enumerate(names):
        if name.startswith("mark/"):
            e = ("num", "id", [(x,) for x in sorted(rng.sample(ids, rng.randrange(1, min(len(ids), 4) + 1)))])
        elif rng.random() < 0.08:
            # a definition that can never match: Parse stores it as the empty set (negated reference: d05297f)
            e = ("and", [("num", "sport", [(80,)]), ("num", "sport", [(81,)])], False)
        else:
            e = gen_cheap_expr(rng, ids, names[:i] if rng.random() < 0.5 else [], rng.choice([0, 1, 1, 2]), exprs, True)
        exprs[name] = e
        mode = rng.choice(["certain", "uncertain", "mixed", "mixed", "mixed"])
        state = {}
        for sid in ids:
            unc = mode == "uncertain" or (mode == "mixed" and rng.random() < 0.4)
            state[str(sid)] = (1 + (rng.random() < 0.5)) if unc else 0
        tags.append({"name": name, "def": text_of(e), "expr": e, "state": state})
    pop["tags"] = tags
    return finish_tags(pop), exprs


def finish_tags(pop):
    """(Re)computes the truth of every tag on the visible streams and from it the match/uncertain bitmaps:
    every decided bit is correct, undecided bits are arbitrary (stale)."""
    vis = visible_of(pop)
    truth = {}
    for t in pop["tags"]:
        truth[t["name"]] = {sid: eval_expr(t["expr"], vis[sid], truth) for sid in vis}
        t["matches"], t["uncertain"] = [], []
        for sid in sorted(vis):
            st = t["state"].get(str(sid), 0)
            if st:
                t["uncertain"].append(sid)
            if st == 2 or (st == 0 and truth[t["name"]][sid]):
                t["matches"].append(sid)
    pop["_truth"] = truth
    return truth


def gen_rel(rng, name):
    """A relation between the stream under consideration and the stream of sub-query [name]."""
    r = rng.random()
    if r < 0.5:
        key = rng.choice(["id", "cport", "sport", "cbytes", "sbytes", "port", "bytes"])
        var = rng.choice({"id": ["id"], "cport": ["cport", "cport", "sport"], "sport": ["sport", "sport", "cport"],
                          "port": ["cport", "sport"], "cbytes": ["cbytes", "sbytes"], "sbytes": ["sbytes", "cbytes"],
                          "bytes": ["cbytes", "sbytes"]}[key])
        off = rng.choice([0, 0, 0, 1, -1, 2, 5, 920, -920])
        mode = rng.choice(["eq", "eq", "ge", "le", "range"])
        return ("relnum", key, name, var, off, mode, off + rng.choice([0, 1, 3, 10]))
    if r < 0.7:
        key = rng.choice(["ftime", "ltime", "time"])
        var = rng.choice(["ftime", "ltime"])
        off = rng.choice([0, 0, 0, 1, -1, 60, -60, 600])
        mode = rng.choice(["eq", "ge", "le", "range"])
        return ("reltime", key, name, var, off, mode, off + rng.choice([0, 1, 60, 600]))
    if r < 0.9:
        return ("relhost", rng.choice(["chost", "shost", "host"]), name, rng.choice(["chost", "shost"]),
                rng.choice([None, None, None, 0, 8, 24, 32, -8]))
    return ("relproto", name)


def gen_own_rel(rng):
    """A relation between two attributes of the SAME stream through a variable of the own query, e.g. a duration
    bound `ltime:@ftime@+5s:` (such a time filter depends on ftime and ltime: no per-file shortcut applies)."""
    r = rng.random()
    if r < 0.6:
        key, var = rng.choice([("ltime", "ftime"), ("ltime", "ftime"), ("ftime", "ltime"), ("time", "ftime"), ("time", "ltime")])
        off = rng.choice([0, 1, 5, 30, 60, 600]) * (1 if var == "ftime" else -1)
        mode = rng.choice(["ge", "ge", "le", "le", "eq", "range"])
        return ("reltime", key, "", var, off, mode, off + rng.choice([0, 4, 55, 540]))
    if r < 0.85:
        key, var = rng.choice([("cport", "sport"), ("sport", "cport"), ("cbytes", "sbytes"), ("sbytes", "cbytes"), ("bytes", "cbytes")])
        off = rng.choice([0, 0, 1, -1, 920, -920, 5])
        return ("relnum", key, "", var, off, rng.choice(["eq", "ge", "le", "range"]), off + rng.choice([0, 1, 10]))
    return ("relhost", rng.choice(["chost", "shost"]), "", rng.choice(["chost", "shost"]), rng.choice([None, None, 24, 8]))


def gen_sub_expr(rng, ids, tagnames, tagexprs):
    """Queries with sub-queries in the forms the engine evaluates: sub-queries that form a chain
    (main -> a, or main -> a -> b); relations through variables; conditions on the sub-query streams."""
    for _ in range(200):
        a_atoms = [("sub", "a", gen_atom(rng, ids, [], own=False)) for _ in range(rng.choice([0, 1, 1, 2]))]
        a_atoms = [("not", x) if rng.random() < 0.15 else x for x in a_atoms]
        rels = [gen_rel(rng, "a") for _ in range(rng.choice([1, 1, 2]))]
        rels = [("not", x) if rng.random() < 0.2 else x for x in rels]
        mains = [gen_atom(rng, ids, tagnames) for _ in range(rng.choice([0, 0, 1]))]
        parts = mains + rels + a_atoms
        r2 = rng.random()
        if r2 < 0.2:     # chain: a is related to b
            parts.append(("sub", "a", gen_rel(rng, "b")))
            parts += [("sub", "b", gen_atom(rng, ids, [], own=False)) for _ in range(rng.choice([0, 1]))]
        elif r2 < 0.4:   # two sub-queries next to each other, both related to the main query
            parts.append(("not", gen_rel(rng, "b")) if rng.random() < 0.15 else gen_rel(rng, "b"))
            parts += [("sub", "b", gen_atom(rng, ids, [], own=False)) for _ in range(rng.choice([0, 1, 1]))]
        rng.shuffle(parts)
        e = ("and", parts, False) if len(parts) > 1 else parts[0]
        r = rng.random()
        if r < 0.25:
            e = ("or", [e, gen_expr(rng, ids, tagnames, 1)])
        elif r < 0.35:
            e = ("not", e)
        elif r < 0.45:
            e = ("and", [("or", [rels[0], gen_atom(rng, ids, tagnames)])] + a_atoms + mains, False)
        if cheap(e, tagexprs) and connected(e):
            return e
    return ("relnum", "cport", "a", "cport", 0, "eq", 0)


def gen_search(rng, pop, tagnames, tagexprs):
    vis = visible_of(pop)
    ids = sorted(vis)
    if len(ids) <= 14 and rng.random() < 0.25:
        e = gen_sub_expr(rng, ids, tagnames, tagexprs)
    else:
        e = gen_cheap_expr(rng, ids, tagnames, rng.choice([0, 1, 1, 2, 2, 3]), tagexprs)
    nkeys = rng.choice([0, 1, 1, 2, 2, 3])
    sort = [[rng.choice(SORTKEYS), rng.choice([0, 1])] for _ in range(nkeys)]
    limit = rng.choice(LIMITS)
    if rng.random() < 0.75:
        skip = rng.choice([0, 0, 1, 2, 3]) * limit
    else:
        skip = rng.choice([0, 1, 2, 3]) if limit else 0
    idr = None
    if rng.random() < 0.25:
        idr = sorted(set(rng.sample(ids, rng.randrange(0, len(ids) + 1))) | ({999} if rng.random() < 0.3 else set()))
    if rng.random() < 0.12 and len(ids) >= 3:
        # id restriction together with the sorted scan (single key with a stored order, small limit: early exit)
        # and, when there are tags, a tag condition (tags are partly undecided)
        sort = [[rng.choice(["id", "ftime", "ltime"]), rng.choice([0, 1])]]
        limit = rng.choice([1, 2, 2, 5])
        skip = rng.choice([0, 0, 1, limit])
        idr = sorted(rng.sample(ids, rng.randrange(1, len(ids) + 1)))
        if tagnames and not sub_names(e):
            t = ("tag",) + tuple(rng.choice(tagnames).split("/"))
            t = ("not", t) if rng.random() < 0.25 else t
            e2 = ("and", [t, e], False) if rng.random() < 0.6 else ("or", [t, e])
            if cheap(e2, tagexprs):
                e = e2
    return {"expr": e, "q": text_of(e), "sort": sort, "limit": limit, "skip": skip, "ids": idr}


# ------------------------------------------------------------------ direct oracle of the property
KEYFIELD = {"id": "id", "ftime": "ft", "ltime": "lt", "cbytes": "cb", "sbytes": "sb", "cport": "cp", "sport": "sp",
            "chost": "ch", "shost": "sh"}


def keyval(s, k):
    v = s[KEYFIELD[k]]
    return bytes.fromhex(v) if k in ("chost", "shost") else v


def compare(sort):
    def cmp(a, b):
        for k, d in sort:
            x, y = keyval(a, k), keyval(b, k)
            if x != y:
                c = -1 if x < y else 1
                return -c if d else c
        return 0
    return cmp


def spec(pop, truth, sr):
    """-> dict(matching ids, expected key sequence of the page, expected length, more)"""
    vis = visible_of(pop)
    sort = sr["sort"] or [["ftime", 1]]
    match = [s for s in vis.values() if (sr["ids"] is None or s["id"] in sr["ids"]) and eval_query(sr["expr"], s, truth, vis)]
    full = sorted(match, key=functools.cmp_to_key(compare(sort)))
    limit, skip = sr["limit"], sr["skip"]
    page = full[skip:] if limit == 0 else full[skip:skip + limit]
    return {"matching": sorted(s["id"] for s in match),
            "keys": [[keyval(s, k).hex() if isinstance(keyval(s, k), bytes) else keyval(s, k) for k, _ in sort] for s in page],
            "n": len(page), "more": limit != 0 and len(full) > skip + limit, "page_ids": [s["id"] for s in page]}


def parse_result(line):
    """R pi si OK more=true n=2 | id,fidx,sidx,ft,lt,cb,sb,cp,sp,ch,sh,proto ..."""
    tok = line.split()
    res = {"status": tok[3] if len(tok) > 3 else "MISSING", "raw": line}
    if res["status"] not in ("OK", "EXCLUDED"):
        return res
    res["more"] = tok[4] == "more=true"
    streams = []
    for t in tok[7:]:
        f = t.split(",")
        streams.append({"id": int(f[0]), "file": int(f[1]), "idx": int(f[2]), "ft": int(f[3]), "lt": int(f[4]), "cb": int(f[5]),
                        "sb": int(f[6]), "cp": int(f[7]), "sp": int(f[8]), "ch": f[9], "sh": f[10], "proto": f[11]})
    res["streams"] = streams
    return res


def judge(pop, sr, sp, res):
    """Property verdict on an implementation (or model) observation. Returns None or (kind, reason)."""
    if res["status"] == "EXCLUDED":
        return None
    if res["status"] != "OK":
        return "status", res["raw"][:300]
    vis = visible_of(pop)
    sort = sr["sort"] or [["ftime", 1]]
    ids = [s["id"] for s in res["streams"]]
    if len(set(ids)) != len(ids):
        return "duplicate", "a stream is listed twice: %s" % ids
    for s in res["streams"]:
        if s["id"] not in vis:
            return "unknown", "unknown stream id %d" % s["id"]
        v = vis[s["id"]]
        for f in ("file", "ft", "lt", "cb", "sb", "cp", "sp", "ch", "sh", "proto"):
            if f in s and s[f] != v[f]:
                return "stale", "stream %d: stale or wrong version returned (%s=%s, visible version has %s)" % (s["id"], f, s[f], v[f])
        if s["id"] not in sp["matching"]:
            return "nomatch", "stream %d does not satisfy the query / id restriction" % s["id"]
    if len(ids) != sp["n"]:
        return "length", "page has %d streams, expected %d (matching %d, limit %d, skip %d): got %s, e.g. %s" % (
            len(ids), sp["n"], len(sp["matching"]), sr["limit"], sr["skip"], ids, sp["page_ids"])
    keys = [[(vis[i][KEYFIELD[k]]) for k, _ in sort] for i in ids]
    if keys != sp["keys"]:
        return "order", "order/page differs: got ids %s, expected (up to ties) %s" % (ids, sp["page_ids"])
    if res["more"] != sp["more"]:
        return "more", "more flag %s, expected %s" % (res["more"], sp["more"])
    return None


# ------------------------------------------------------------------ execution
def strip_search(sr):
    return {"q": sr["q"], "sort": sr["sort"], "limit": sr["limit"], "skip": sr["skip"], "ids": sr["ids"]}


SEL_OUT = {}


def execute(pops, exe, tag, want_model=True, sel=None, num=None):
    d = os.path.join(BUILD, "run", "c02", str(os.getpid()))  # per process: concurrent checks must not share files
    os.makedirs(d, exist_ok=True)
    cf = os.path.join(d, "cases_%s.json" % tag)
    json.dump({"base": BASE, "sel": sel or [], "num": num or [],
               "pops": [dict(p, searches=[strip_search(s) for s in p["searches"]]) for p in pops]}, open(cf, "w"))
    iout, mi, mout = (os.path.join(d, "%s_%s.out" % (x, tag)) for x in ("impl", "modelin", "model"))
    for p in (iout, mi, mout):
        if os.path.exists(p):
            os.remove(p)
    ov = go_overlay({"internal/index/zz_verif_c02_test.go": os.path.join(ROOT, "harness/c02/zz_verif_c02_test.go")}, "c02_%d" % os.getpid())
    env = {"VERIF_CASES": cf, "VERIF_OUT": iout, "TZ": "UTC"}
    if want_model and exe:
        env["VERIF_MODEL"] = mi
    rc, out, dt = go_test("./internal/index/", ov, "^TestVerifC02$", env, timeout=900)
    note = "" if rc == 0 else "go harness rc=%d: %s" % (rc, out[-1500:])
    impl = {}
    SEL_OUT.clear()
    SEL_OUT.update({"impl": {}, "model": {}, "nimpl": {}, "nmodel": {}})
    if os.path.exists(iout):
        for line in open(iout):
            if line.startswith("L "):
                t = line.split()
                SEL_OUT["impl"][int(t[1])] = t[2:]
            if line.startswith("N "):
                t = line.rstrip("\n").split(" ", 2)
                SEL_OUT["nimpl"][int(t[1])] = t[2]
            if line.startswith("R "):
                t = line.split(None, 3)
                impl[(int(t[1]), int(t[2]))] = parse_result(line.rstrip("\n"))
            elif line.startswith("BUILDFAIL"):
                note += " " + line.strip()
    model = {}
    if want_model and exe and os.path.exists(mi):
        if sel:
            open(mi, "a").write(sel_model_text(sel))
        if num:
            open(mi, "a").write(num_model_text(num))
        rc2, out2, _ = run([exe, mi, mout], timeout=900)
        if rc2 != 0:
            note += " model driver rc=%d: %s" % (rc2, out2[-500:])
        if os.path.exists(mout):
            for line in open(mout):
                t = line.split()
                if t and t[0] == "L":
                    SEL_OUT["model"][int(t[1])] = t[2:]
                if t and t[0] == "N":
                    SEL_OUT["nmodel"][int(t[1])] = line.rstrip("\n").split(" ", 2)[2]
                if t and t[0] == "M":
                    model[(int(t[1]), int(t[2]))] = {"fixed": parse_model(t[3]), "orig": parse_model(t[4]), "hyp": t[5] == "H=1",
                                                     "sat": [tuple(int(x) for x in p.split(".")) for p in t[6][4:].split(",") if p],
                                                     "subs_ok": len(t) < 8 or t[7] == "S=1"}
    return impl, model, note, dt


def parse_model(tok):
    """more:fidx.sidx,fidx.sidx  -> dict"""
    more, _, rest = tok.partition(":")
    return {"more": more == "1", "pos": [tuple(int(x) for x in p.split(".")) for p in rest.split(",") if p]}


def model_as_result(pop, m):
    streams = []
    for fi, si in m["pos"]:
        s = pop["files"][fi][si]
        streams.append(dict(s, file=fi, idx=si))
    return {"status": "OK", "more": m["more"], "streams": streams, "raw": ""}


# ------------------------------------------------------------------ subQuerySelection.remove sequences
def gen_sel_case(rng):
    nsq = rng.choice([1, 1, 2, 2, 3])
    init = [sorted(rng.sample(range(6), rng.randrange(1, 6))) for _ in range(nsq)]
    ops = []
    for _ in range(rng.randrange(1, 5)):
        sqs = rng.sample(range(nsq), rng.randrange(1, nsq + 1))
        ops.append({"sqs": sqs, "forb": [sorted(rng.sample(range(7), rng.randrange(0, 6))) for _ in sqs]})
    return {"init": init, "ops": ops}


def sel_oracle(c):
    """The allowed combinations are a set of tuples; remove takes out the product of the forbidden sets."""
    import itertools
    combos = set(itertools.product(*c["init"]))
    out = []
    for op in c["ops"]:
        combos = {t for t in combos if not all(t[sq] in f for sq, f in zip(op["sqs"], op["forb"]))}
        out.append("%d:%s" % (0 if combos else 1, ",".join(sorted("".join(".%d" % x for x in t) for t in combos))))
    return out


def gen_num_case(rng):
    k = rng.choice([1, 1, 2, 2, 3])
    subs = []
    for _ in range(k):
        nv = rng.randrange(1, 7)
        pool = rng.choice([[0, 1, 2, 3], [5, 5, 7, 9, 9, 12], [0, 10, 20, 30, 40, 50], [3]])
        vals = [rng.choice(pool) for _ in range(nv)]
        subs.append({"factor": rng.choice([1, 1, -1, -1, 2]), "vals": vals,
                     "init": sorted(rng.sample(range(nv), rng.randrange(1, nv + 1)))})
    lo = sum(min(s["factor"] * v for v in s["vals"]) for s in subs)
    hi = sum(max(s["factor"] * v for v in s["vals"]) for s in subs)
    own = rng.randrange(0, 20)
    target = rng.randrange(lo - 2, hi + 3)          # n + value sums cross zero around here
    return {"kind": rng.choice(["num", "time"]), "n": -target - own, "own": own, "subs": subs}


HOSTPOOL4 = ["0a000001", "0a000002", "0a000105", "c0a80064", "0a0000ff"]
HOSTPOOL6 = ["fe800000000000000000000000000001", "fe800000000000000000000000000002", "20010db8000000000000000000000005"]


def gen_host_case(rng):
    ns = rng.randrange(2, 7)
    streams = []
    for _ in range(ns):
        pool = HOSTPOOL6 if rng.random() < 0.3 else HOSTPOOL4
        streams.append([rng.choice(pool), rng.choice(pool)])
    m = rng.choice([None, None, 0, 0, 8, 24, 31, -8, 64])

    def mask(nbits, m):
        if m is None:
            v = (1 << nbits) - 1
        elif m >= 0:
            mm = min(m, nbits)
            v = ((1 << mm) - 1) << (nbits - mm)
        else:
            v = (1 << min(-m, nbits)) - 1
        return "%0*x" % (nbits // 4, v)
    nres = rng.randrange(1, 7)
    vals = [rng.randrange(ns) for _ in range(nres)]
    return {"kind": "host", "n": 0, "own": rng.randrange(ns), "streams": streams, "myserver": rng.random() < 0.5,
            "otherserver": rng.random() < 0.5, "invert": rng.random() < 0.4, "mask4": mask(32, m), "mask6": mask(128, m),
            "subs": [{"factor": 1, "vals": vals, "init": sorted(rng.sample(range(nres), rng.randrange(1, nres + 1)))}]}


def gen_flag_case(rng):
    mask = rng.choice([3, 3, 7])
    nres = rng.randrange(1, 7)
    pool = rng.choice([[1], [1, 2], [0, 1, 2, 3], [1, 1, 1, 2], list(range(8))])
    vals = [rng.choice(pool) for _ in range(nres)]
    return {"kind": "flag", "n": rng.choice([0, 0, 1, 2, 3]) & mask, "own": rng.choice(pool + [1, 2]), "mask": mask,
            "subs": [{"factor": 1, "vals": vals, "init": sorted(rng.sample(range(nres), rng.randrange(1, nres + 1)))}]}


def host_of(c, idx, server):
    return c["streams"][idx][1 if server else 0]


def num_oracle(c):
    if c["kind"] == "host":
        my = host_of(c, c["own"], c["myserver"])
        msk = int(c["mask4"] if len(my) == 8 else c["mask6"], 16)
        ok = []
        for p in c["subs"][0]["init"]:
            o = host_of(c, c["subs"][0]["vals"][p], c["otherserver"])
            eq = len(o) == len(my) and (int(o, 16) ^ int(my, 16)) & msk == 0
            if eq != c["invert"]:
                ok.append(p)
        return "1:" + ",".join(".%d" % p for p in sorted(ok)) if ok else "0:"
    if c["kind"] == "flag":
        m = c["mask"]
        ok = [p for p in c["subs"][0]["init"] if ((c["own"] & m) ^ (c["subs"][0]["vals"][p] & m)) != (c["n"] & m)]
        return "1:" + ",".join(".%d" % p for p in sorted(ok)) if ok else "0:"
    return num_oracle_numeric(c)


def num_oracle_numeric(c):
    """n + sum of the selected values >= 0 for some allowed combination; the allowed ones that satisfy it stay."""
    import itertools
    n = c["n"] + c["own"]
    ok = [t for t in itertools.product(*[s["init"] for s in c["subs"]])
          if n + sum(s["factor"] * s["vals"][p] for s, p in zip(c["subs"], t)) >= 0]
    return "1:" + ",".join(sorted("".join(".%d" % x for x in t) for t in ok)) if ok else "0:"


def num_model_text(cases):
    lines = []
    for ci, c in enumerate(cases):
        if c["kind"] == "host":
            my = host_of(c, c["own"], c["myserver"])
            zero = int(c["mask4"], 16) == 0 and int(c["mask6"], 16) == 0
            lines.append("HOST %d %d %d %s %s" % (ci, c["invert"], zero, my, c["mask4"] if len(my) == 8 else c["mask6"]))
            lines.append("others " + " ".join(host_of(c, v, c["otherserver"]) for v in c["subs"][0]["vals"]))
            lines.append("init " + " ".join(map(str, c["subs"][0]["init"])))
            continue
        if c["kind"] == "flag":
            m = c["mask"]
            lines.append("FLAG %d %d %d" % (ci, c["own"] & m, c["n"] & m))
            lines.append("others " + " ".join(str(v & m) for v in c["subs"][0]["vals"]))
            lines.append("init " + " ".join(map(str, c["subs"][0]["init"])))
            continue
        lines.append("NUM %d %d %d" % (ci, c["n"] + c["own"], len(c["subs"])))
        for s in c["subs"]:
            lines.append("vals " + " ".join(str(s["factor"] * v) for v in s["vals"]))
            lines.append("init " + " ".join(map(str, s["init"])))
    return "\n".join(lines) + ("\n" if lines else "")


def sel_model_text(cases):
    lines = []
    for ci, c in enumerate(cases):
        lines.append("SEL %d %d %d" % (ci, len(c["init"]), len(c["ops"])))
        for st in c["init"]:
            lines.append("init " + " ".join(map(str, st)))
        for op in c["ops"]:
            lines.append("op " + " ".join(map(str, op["sqs"])))
            for f in op["forb"]:
                lines.append("f " + " ".join(map(str, f)))
    return "\n".join(lines) + ("\n" if lines else "")


# ------------------------------------------------------------------ inlineTagFilter itself (package query)
def gen_inl_case(rng):
    ids = list(range(6))
    names = ["tag/a", "service/b", "tag/d"][:rng.choice([1, 2, 2, 3, 3])]
    tags = []
    for nme in names:
        r = rng.random()
        if r < 0.08:
            e = ("and", [("num", "sport", [(80,)]), ("num", "sport", [(81,)])], False)      # can never match
        else:
            k = rng.choice([1, 2, 2, 3, 3])
            atoms = [gen_simple_atom(rng, ids) for _ in range(k)]
            if rng.random() < 0.25:
                atoms[0] = ("and", [atoms[0], gen_simple_atom(rng, ids)], False)
            e = atoms[0] if k == 1 else ("or", atoms)
        tags.append({"name": nme, "def": text_of(e), "uncertain": rng.random() < 0.85})
    refs = [("tag",) + tuple(t.split("/")) for t in rng.sample(names, rng.randrange(1, len(names) + 1))]
    refs = [("not", t) if rng.random() < 0.3 else t for t in refs]
    refs += [gen_simple_atom(rng, ids) for _ in range(rng.choice([0, 0, 1]))]
    rng.shuffle(refs)
    e = ("and", refs, False) if len(refs) > 1 else refs[0]
    if rng.random() < 0.15:
        e = ("or", [e, ("and", [("tag",) + tuple(rng.choice(names).split("/")), gen_simple_atom(rng, ids)], False)])
    return {"tags": tags, "q": text_of(e)}


def inl_canon_cond(c):
    f = c.split("\x1f")
    return "\x1f".join(f[:3]) if f[0] == "T" else c


def inl_canon(conjs):
    return sorted(tuple(sorted(inl_canon_cond(c) for c in cj)) for cj in conjs)


def inl_parse_conj(s):
    return [] if s == "" else s.split("\x1d")


def inl_oracle(tags, conj):
    """The specification of the step: every tag condition that accepts exactly one of the two undecided states, on a
    tag with undecided streams, splits the conjunct into: decided streams by their bit; undecided streams together
    with each disjunct of the (for a negated reference: inverted) definition -- the full cross product."""
    cur = [[]]
    for c in conj:
        f = c.split("\x1f")
        if f[0] == "T" and f[1] in tags and tags[f[1]]["unc"] and (int(f[2]) & 12) in (4, 8):
            a = int(f[2])
            t = tags[f[1]]
            defs = t["d"] if a & 4 else (t["i"] if t["d"] else [[]])
            certain = "\x1f".join(["T", f[1], str(a & 3)])
            unc = "\x1f".join(["T", f[1], "12"])
            cur = [x + [certain] for x in cur] + [x + [unc] + d for d in defs for x in cur]
        else:
            cur = [x + [c] for x in cur]
    return cur


def run_inl(cases, exe):
    """-> (list of (case index, conjunct index, go, model, oracle) that disagree, number of blocks, note)"""
    d = os.path.join(BUILD, "run", "c02", str(os.getpid()))
    os.makedirs(d, exist_ok=True)
    cf, gout, mout = (os.path.join(d, x) for x in ("inl_cases.json", "inl_go.out", "inl_model.out"))
    json.dump({"inl": cases}, open(cf, "w"))
    for p in (gout, mout):
        if os.path.exists(p):
            os.remove(p)
    ov = go_overlay({"internal/query/zz_verif_c02q_test.go": os.path.join(ROOT, "harness/c02/zz_verif_c02q_test.go")}, "c02q_%d" % os.getpid())
    rc, out, _ = go_test("./internal/query/", ov, "^TestVerifC02Q$", {"VERIF_CASES": cf, "VERIF_OUT": gout, "TZ": "UTC"}, timeout=600)
    note = "" if rc == 0 else "go harness (package query) rc=%d: %s" % (rc, out[-1200:])
    try:
        os.remove(ov)
    except OSError:
        pass
    blocks = {}
    if os.path.exists(gout):
        lines = open(gout).read().split("\n")
        i = 0
        while i < len(lines):
            t = lines[i].split("\t")
            if t[0] in ("INLERR", "INLPANIC"):
                note += " " + lines[i][:300]
            if t[0] != "INL":
                i += 1
                continue
            key = (int(t[1]), int(t[2]))
            i += 1
            k = int(lines[i].split("\t")[1])
            i += 1
            tags = {}
            for _ in range(k):
                tt = lines[i].split("\t")
                i += 1
                nd, ni = int(tt[3]), int(tt[4])
                dd = [inl_parse_conj((lines[i + j].split("\t") + [""])[1]) for j in range(nd)]
                i += nd
                ii = [inl_parse_conj((lines[i + j].split("\t") + [""])[1]) for j in range(ni)]
                i += ni
                tags[tt[1]] = {"unc": tt[2] == "1", "d": dd, "i": ii}
            conj = inl_parse_conj((lines[i].split("\t") + [""])[1])
            i += 1
            n = int(lines[i].split("\t")[1])
            i += 1
            outc = [inl_parse_conj((lines[i + j].split("\t") + [""])[1]) for j in range(n)]
            i += n
            blocks[key] = {"tags": tags, "in": conj, "go": inl_canon(outc), "spec": inl_canon(inl_oracle(tags, conj))}
    model = {}
    if exe and os.path.exists(gout):
        rc2, out2, _ = run([exe, "--inl", gout, mout], timeout=600)
        if rc2 != 0:
            note += " model driver (--inl) rc=%d: %s" % (rc2, out2[-400:])
        if os.path.exists(mout):
            for line in open(mout):
                t = line.rstrip("\n").split("\t")
                if t[0] == "I":
                    body = t[3] if len(t) > 3 else ""
                    model[(int(t[1]), int(t[2]))] = None if body == "NONE" else sorted(
                        tuple(c for c in cj.split("\x1d") if c != "") for cj in body.split("\x1c"))
    bad = []
    for key, b in sorted(blocks.items()):
        m = model.get(key)
        if b["go"] != b["spec"]:
            bad.append(("impl", key, b, m))
        elif exe and m != b["spec"]:
            bad.append(("model", key, b, m))
    return bad, len(blocks), note


# ------------------------------------------------------------------ special cases, findings
def tagdelay_case():
    """Known finding tag-inline-reftime.  An undecided tag whose definition has an absolute time bound is
    inlined into the query; SearchStreams evaluates the inlined TimeCondition with the reference time of the
    OUTER query although its Duration is relative to the reference time of the tag's own Parse
    (ConditionsSet.UpdateReferenceTime exists but is never called).  The bound drifts by the time between the
    two Parse calls: here 1.5 s, in the server the age of the tag definition."""
    s0 = {"id": 0, "ch": HOSTS4[0], "sh": HOSTS4[1], "cp": 1000, "sp": 80, "cb": 1, "sb": 1, "ft": 48 * SEC, "lt": 50 * SEC, "proto": "tcp"}
    s1 = dict(s0, id=1, ft=120 * SEC, lt=121 * SEC)
    e = ("time", "ftime", [(None, 47)])
    pop = {"name": "tagdelay", "files": [[s0, s1]], "tagdelay_ms": 1500,
           "tags": [{"name": "tag/a", "def": text_of(e), "expr": e, "state": {"0": 1, "1": 0}}],
           "searches": [{"expr": ("tag", "tag", "a"), "q": "tag:a", "sort": [["id", 0]], "limit": 100, "skip": 0, "ids": None}]}
    finish_tags(pop)
    return pop


def subtag_case():
    """Known finding subquery-tag-inline.  A tag condition on a SUB-query stream (`@a:tag:x`) whose tag has
    undecided streams is inlined like any other; the inlined definition keeps the sub-query name of the
    definition (the main query) instead of `a` (conditions.go: "TODO: rename subqueries in tagConditionsSet"),
    so the definition is tested on the main stream."""
    def S(i, **kw):
        d = {"id": i, "ch": HOSTS4[0], "sh": HOSTS4[1], "cp": 1000, "sp": 80, "cb": 1, "sb": 1, "ft": 0, "lt": SEC, "proto": "tcp"}
        d.update(kw)
        return d
    te = ("num", "sport", [(443,)])
    e = ("and", [("relnum", "cport", "a", "cport", 0, "eq", 0), ("sub", "a", ("tag", "tag", "a"))], False)
    pop = {"name": "subtag", "files": [[S(0), S(1, cp=1001, sp=443), S(2, cp=1001)]],
           "tags": [{"name": "tag/a", "def": text_of(te), "expr": te, "state": {"0": 1, "1": 1, "2": 1}}],
           "searches": [{"expr": e, "q": text_of(e), "sort": [["id", 0]], "limit": 100, "skip": 0, "ids": None}]}
    finish_tags(pop)
    return pop


def has_sub_tag(e, pop):
    k = e[0]
    if k in ("and", "or"):
        return any(has_sub_tag(x, pop) for x in e[1])
    if k == "not":
        return has_sub_tag(e[1], pop)
    if k == "sub":
        x = e[2]
        while x[0] == "not":
            x = x[1]
        if x[0] == "tag":
            return any(t["name"] == "%s/%s" % (x[1], x[2]) and t["uncertain"] for t in pop["tags"])
        return has_sub_tag(x, pop)
    return False


def classify(pop, sr, kind):
    if kind in ("length", "nomatch", "order", "more") and has_sub_tag(sr["expr"], pop):
        return "subquery-tag-inline"
    """Slug of the known finding a failure belongs to, or None.  Matches the specific input, not the property."""
    if pop.get("tagdelay_ms") and kind in ("length", "nomatch", "order") and any(
            t["expr"][0] == "time" and any(v for v in t["state"].values()) for t in pop["tags"]):
        return "tag-inline-reftime"
    return None


# ------------------------------------------------------------------ minimisation
def run_one(pop, sr, exe, tag="min"):
    p = dict(pop, searches=[sr])
    finish_tags(p)
    impl, model, note, _ = execute([p], exe, tag, want_model=bool(exe))
    sp = spec(p, p["_truth"], sr)
    res = impl.get((0, 0), {"status": "MISSING", "raw": "no line " + note[-300:]})
    return p, sp, res, model.get((0, 0)), judge(p, sr, sp, res)


def subexprs(e):
    if e[0] in ("and", "or"):
        for x in e[1]:
            yield x
        if len(e[1]) > 2:
            for i in range(len(e[1])):
                yield (e[0], e[1][:i] + e[1][i + 1:]) + tuple(e[2:])
    elif e[0] == "not":
        yield e[1]
        for x in subexprs(e[1]):
            yield ("not", x)
    elif e[0] in ("num", "host", "time") and len(e[2]) > 1:
        for i in range(len(e[2])):
            yield (e[0], e[1], e[2][:i] + e[2][i + 1:])


def minimise(pop, sr, kind, budget=120):
    """Smallest population / search that still fails the oracle in the same way (real code only)."""
    tests = [0]

    def fails(p, s):
        if tests[0] >= budget:
            return False
        tests[0] += 1
        try:
            _, _, _, _, why = run_one(p, s, None)
        except Exception:
            return False
        return bool(why) and why[0] == kind

    flat = [(fi, st) for fi, f in enumerate(pop["files"]) for st in f]

    def rebuild(items):
        files = [[st for fi, st in items if fi == k] for k in range(len(pop["files"]))]
        return dict(pop, files=[f for f in files if f])

    items = ddmin(flat, lambda it: fails(rebuild(it), sr), max_tests=60)
    pop = rebuild(items)
    changed = True
    while changed and tests[0] < budget:
        changed = False
        cands = []
        if sr["ids"] is not None:
            cands.append(dict(sr, ids=None))
        if sr["skip"]:
            cands.append(dict(sr, skip=0))
        for i in range(len(sr["sort"])):
            cands.append(dict(sr, sort=sr["sort"][:i] + sr["sort"][i + 1:]))
        for x in subexprs(sr["expr"]):
            cands.append(dict(sr, expr=x, q=text_of(x)))
        texprs = {t["name"]: t["expr"] for t in pop["tags"]}
        for c in cands:
            if cheap(c["expr"], texprs) and connected(c["expr"]) and fails(pop, c):
                sr, changed = c, True
                break
    used = set()

    def walk(e):
        if e[0] == "tag":
            n = "%s/%s" % (e[1], e[2])
            if n not in used:
                used.add(n)
                for t in pop["tags"]:
                    if t["name"] == n:
                        walk(t["expr"])
        elif e[0] in ("and", "or"):
            for x in e[1]:
                walk(x)
        elif e[0] == "not":
            walk(e[1])
    walk(sr["expr"])
    p2 = dict(pop, tags=[t for t in pop["tags"] if t["name"] in used])
    if fails(p2, sr):
        pop = p2
    return pop, sr


# ------------------------------------------------------------------ main
def gen_simple_atom(rng, ids):
    r = rng.random()
    if r < 0.3:
        return ("num", "cport", [(rng.choice(CPORTS),)])
    if r < 0.6:
        return ("num", "sport", [(rng.choice(SPORTS),)])
    if r < 0.8:
        return ("num", "id", [(rng.choice(ids),)])
    if r < 0.9:
        return ("num", "cbytes", [(rng.choice(NBYTES), None)])
    return ("proto", [rng.choice(["tcp", "udp"])])


def gen_inlining_population(rng, name, nsearch):
    """The cross product of definition inlining: 2-3 tags, every one undecided for most streams, every definition
    an OR of 1-3 disjuncts; searches are conjunctions of 2-3 (possibly negated) tag references, so that every
    (copy of the conjunct, disjunct of the definition) combination decides some stream."""
    pop = gen_population(rng, name)
    while not 6 <= len(visible_of(pop)) <= 30:
        pop = gen_population(rng, name)
    ids = sorted(visible_of(pop))
    names = ["tag/a", "service/b", "tag/d"][:rng.choice([2, 3, 3])]
    tags, exprs = [], {}
    for nme in names:
        k = rng.choice([1, 2, 2, 3])
        atoms = [gen_simple_atom(rng, ids) for _ in range(k)]
        e = atoms[0] if k == 1 else ("or", atoms)
        exprs[nme] = e
        state = {str(sid): (0 if rng.random() < 0.2 else 1 + (rng.random() < 0.5)) for sid in ids}
        tags.append({"name": nme, "def": text_of(e), "expr": e, "state": state})
    pop["tags"] = tags
    finish_tags(pop)
    searches = []
    for _ in range(nsearch):
        refs = [("tag",) + tuple(t.split("/")) for t in rng.sample(names, rng.randrange(2, len(names) + 1))]
        refs = [("not", t) if rng.random() < 0.3 else t for t in refs]
        if rng.random() < 0.3:
            refs.append(gen_simple_atom(rng, ids))
        e = ("and", refs, False)
        if rng.random() < 0.15:
            e = ("or", [e, gen_simple_atom(rng, ids)])
        searches.append({"expr": e, "q": text_of(e), "sort": [["id", 0]] if rng.random() < 0.7 else [],
                         "limit": rng.choice([0, 0, 100, 2]), "skip": 0, "ids": None})
    pop["searches"] = searches
    return pop


def gen_cases(rng, npops, nsearch):
    pops = []
    for i in range(max(1, npops // 8)):
        pops.append(gen_inlining_population(rng, "inl%d" % i, nsearch))
    for i in range(npops):
        pop = gen_population(rng, "g%d" % i)
        truth, exprs = gen_tags(rng, pop)
        names = [t["name"] for t in pop["tags"]]
        pop["searches"] = [gen_search(rng, pop, names, exprs) for _ in range(nsearch)]
        pops.append(pop)
    return pops


def public(pop):
    return {k: v for k, v in pop.items() if not k.startswith("_")}


def load_case(path):
    obj = json.load(open(path))
    if "sel" in obj or "num" in obj or "inl" in obj:
        return {"name": "sel", "files": [], "tags": [], "searches": [], "_truth": {}}
    pop = obj["pop"]
    finish_tags(pop)
    return pop


def same_obs(res, m):
    return res["status"] == "OK" and [(s["file"], s["idx"]) for s in res["streams"]] == [tuple(x) for x in m["pos"]] and res["more"] == m["more"]


def setup():
    return build_model(PROP, "ExtractC02.v", os.path.join(ROOT, "ocaml/c02"), ["theories/Search.v"])[0]


def main(tier, seed, replay=None):
    t0 = time.time()
    proof = Proof(PROP, tier=tier)
    exe = None
    build_note = ""
    try:
        exe, _ = build_model(PROP, "ExtractC02.v", os.path.join(ROOT, "ocaml/c02"), ["theories/Search.v"])
    except Exception as ex:  # reported below as a broken correspondence
        build_note = "model build failed: %s" % str(ex)[-800:]
    rng = random.Random(seed)
    pops, ncorpus = [], 0
    cdir = os.path.join(ROOT, "corpus", PROP)
    if replay:
        pops = [load_case(replay)]
    else:
        if os.path.isdir(cdir):
            for fn in sorted(os.listdir(cdir)):
                if fn.endswith(".json"):
                    pops.append(load_case(os.path.join(cdir, fn)))
        pops.append(tagdelay_case())
        pops.append(subtag_case())
        ncorpus = len(pops)
    # thorough: 8 batches of 2400 populations (keeps memory flat); quick: one batch of 60
    nbatches, per_batch = (1, 60) if tier == "quick" else (8, 2400)
    known, fixed = known_findings(PROP)
    known_ids = {k.get("id") for k in known}
    nviol, nknown, stats = 0, 0, {"searches": 0, "nonempty": 0, "paged": 0, "more": 0, "tie_drift": 0, "model_compared": 0,
                                  "orig_model_differs": 0, "kinds": {}}
    failures, model_bad, seen_known, sel_bad, num_bad = [], [], set(), [], []
    distinct = set()
    dist = {"files": {}, "limit": {}, "nkeys": {}, "tags": {}, "idrestricted": 0, "shadowed_pops": 0}
    note, go_s, npops, last = build_note, 0.0, 0, None
    impl, model = {}, {}
    for batch in range(1 if replay else nbatches):
        if not replay:
            pops = (pops if batch == 0 else []) + gen_cases(rng, per_batch, 35)
        sel = [] if replay else [gen_sel_case(rng) for _ in range(300 if tier == "quick" else 3000)]
        if replay and "sel" in json.load(open(replay)):
            sel, pops = [json.load(open(replay))["sel"]], []
        num = [] if replay else ([gen_num_case(rng) for _ in range(400 if tier == "quick" else 4000)] +
                                 [gen_host_case(rng) for _ in range(200 if tier == "quick" else 1500)] +
                                 [gen_flag_case(rng) for _ in range(200 if tier == "quick" else 1500)])
        if replay and "num" in json.load(open(replay)):
            num, pops = [json.load(open(replay))["num"]], []
        impl, model, bnote, bgo = execute(pops, exe, "main", sel=sel, num=num)
        for ci, c in enumerate(num):
            stats["relation_filter_cases"] = stats.get("relation_filter_cases", 0) + 1
            want = num_oracle(c)
            got_i, got_m = SEL_OUT["nimpl"].get(ci), SEL_OUT["nmodel"].get(ci)
            if replay:
                print("relation filter case:", c, "\nspec :", want, "\nimpl :", got_i, "\nmodel:", got_m)
            if got_i != want and len(num_bad) < 3:
                num_bad.append(("impl", c, want, got_i, got_m))
            elif exe and got_m != want and len(num_bad) < 3:
                num_bad.append(("model", c, want, got_i, got_m))
        note, go_s, npops = (note + " " + bnote).strip(), go_s + bgo, npops + len(pops)
        for ci, c in enumerate(sel):
            stats["sel_cases"] = stats.get("sel_cases", 0) + 1
            want = sel_oracle(c)
            got_i, got_m = SEL_OUT["impl"].get(ci), SEL_OUT["model"].get(ci)
            if replay:
                print("selection case:", c, "\nspec :", want, "\nimpl :", got_i, "\nmodel:", got_m)
            if got_i != want and len(sel_bad) < 3:
                sel_bad.append(("impl", c, want, got_i, got_m))
            elif exe and got_m != want and len(sel_bad) < 3:
                sel_bad.append(("model", c, want, got_i, got_m))
        for pi, pop in enumerate(pops):
            dist["files"][len(pop["files"])] = dist["files"].get(len(pop["files"]), 0) + 1
            dist["tags"][len(pop["tags"])] = dist["tags"].get(len(pop["tags"]), 0) + 1
            if sum(len(f) for f in pop["files"]) > len(visible_of(pop)):
                dist["shadowed_pops"] += 1
            for si, sr in enumerate(pop["searches"]):
                stats["searches"] += 1
                sp = spec(pop, pop["_truth"], sr)
                res = impl.get((pi, si), {"status": "MISSING", "raw": "no output line for this search " + note[-300:]})
                if res["status"] == "EXCLUDED":
                    # after normalisation a sub-query is not connected to the main query by any relation: the engine
                    # ignores it (documented excluded form); nothing is judged
                    stats["excluded_unconnected_subquery"] = stats.get("excluded_unconnected_subquery", 0) + 1
                    continue
                why = judge(pop, sr, sp, res)
                last = (sr, res)
                dist["limit"][sr["limit"]] = dist["limit"].get(sr["limit"], 0) + 1
                dist["nkeys"][len(sr["sort"])] = dist["nkeys"].get(len(sr["sort"]), 0) + 1
                dist["idrestricted"] += sr["ids"] is not None
                if sp["n"]:
                    stats["nonempty"] += 1
                    distinct.add(hash((batch, pi, sr["q"], repr(sr["sort"]), sr["limit"], sr["skip"], repr(sr["ids"]))))
                if "@ftime@" in sr["q"] or "@ltime@" in sr["q"]:
                    stats["own_time_variable_searches"] = stats.get("own_time_variable_searches", 0) + 1
                nsub = len(sub_names(sr["expr"]))
                if nsub:
                    stats["subquery_searches"] = stats.get("subquery_searches", 0) + 1
                    stats["two_subqueries"] = stats.get("two_subqueries", 0) + (nsub > 1)
                if sr["ids"] is not None and sr["limit"] and len(sr["sort"]) <= 1 and (not sr["sort"] or sr["sort"][0][0] in ("id", "ftime", "ltime")):
                    stats["idrestricted_sorted_scan"] = stats.get("idrestricted_sorted_scan", 0) + 1
                    if pop["tags"] and any(t["uncertain"] for t in pop["tags"]):
                        stats["idrestricted_sorted_scan_undecided_tags"] = stats.get("idrestricted_sorted_scan_undecided_tags", 0) + 1
                stats["paged"] += sr["skip"] > 0
                stats["more"] += sp["more"]
                m = model.get((pi, si))
                if why:
                    stats["kinds"][why[0]] = stats["kinds"].get(why[0], 0) + 1
                    slug = classify(pop, sr, why[0])
                    if slug and slug in known_ids:
                        if slug not in seen_known:
                            print("KNOWN-FINDING: property=%s id=%s %s (%s)" % (PROP, slug, sr["q"], why[1][:120]), flush=True)
                            seen_known.add(slug)
                        nknown += 1
                    elif len(failures) < 50:
                        failures.append((pop, sr, why, m))
                elif m is not None:
                    stats["model_compared"] += 1
                    mwhy = judge(pop, sr, sp, model_as_result(pop, m["fixed"]))
                    # the hypotheses of the theorems, checked on what the real buildSearchObjects compiled:
                    # lookups list every stream the filters accept; OR over the parts = the query's meaning
                    vis = visible_of(pop)
                    sat = set(m["sat"])
                    want = {(s["file"], pop["files"][s["file"]].index({k: v for k, v in s.items() if k != "file"}))
                            for s in vis.values() if eval_query(sr["expr"], s, pop["_truth"], vis)}
                    got = {(fi, sj) for fi, sj in sat if vis[pop["files"][fi][sj]["id"]]["file"] == fi}
                    if not m.get("subs_ok", True):
                        mwhy = ("subquery", "the model's unsorted search of a sub-query differs from the code's sub-query result list or from its matchingQueryPart bitmaps")
                    elif not m["hyp"]:
                        mwhy = ("hypothesis", "a lookup misses a stream index that the filters of the same part accept, or a sorted section of an index file is not a permutation ordered by its key")
                    elif want != got:
                        mwhy = ("hypothesis", "compiled parts accept %s on the visible streams, the query denotes %s" % (sorted(got), sorted(want)))
                    if mwhy:
                        if len(model_bad) < 10:
                            model_bad.append((pop, sr, mwhy, m, res))
                    elif not same_obs(res, m["fixed"]):
                        stats["tie_drift"] += 1
                    if not same_obs(res, m["orig"]):
                        stats["orig_model_differs"] += 1
                elif exe and res["status"] == "OK":
                    if len(model_bad) < 10:
                        model_bad.append((pop, sr, ("missing", "the model driver printed nothing for this search"), None, res))
        if failures or model_bad or note or sel_bad or num_bad:
            break
    if replay and pops and pops[0]["searches"]:
        pop, sr = pops[0], pops[0]["searches"][0]
        print("query:", sr["q"], "sort:", sr["sort"], "limit:", sr["limit"], "skip:", sr["skip"], "ids:", sr["ids"])
        print("spec  :", spec(pop, pop["_truth"], sr))
        print("impl  :", impl.get((0, 0), {}).get("raw"))
        print("model :", model.get((0, 0)))
        print("verdict:", failures[0][2] if failures else "ok")
    # ---- failures of the implementation against the property
    reported = set()
    for pop, sr, why, _m in failures:
        if nviol >= 3 or (why[0] in reported and nviol >= 2):
            continue  # at most three replays, preferably of different kinds (keeps a failing quick run short)
        reported.add(why[0])
        if why[0] == "status" and ("MISSING" in why[1] or "PARSEERR" in why[1] or "SLOW" in why[1]):
            violation(PROP, {"property": PROP, "broken": "correspondence harness could not run this case against this tree",
                             "note": note, "case": why[1], "query": sr["q"]}, no_input=True)
            nviol += 1
            continue
        mpop, msr = (pop, sr) if replay else minimise(public(pop), sr, why[0], budget=80 if nviol == 0 else 30)
        p1, sp, res, m, w2 = run_one(mpop, msr, exe)
        if not w2:
            p1, sp, res, m, w2 = run_one(public(pop), sr, exe)
            msr = sr
        obj = {"property": PROP, "kind": w2[0] if w2 else why[0], "why": w2[1] if w2 else why[1],
               "pop": dict(public(p1), searches=[msr]), "spec": sp, "impl": res.get("raw"),
               "model_of_patched_code": m and m["fixed"], "model_of_unpatched_code": m and m["orig"], "seed": seed,
               "replay_cmd": "bin/check C02 --replay <this file>"}
        if m and res.get("status") == "OK" and same_obs(res, m["orig"]) and not same_obs(res, m["fixed"]):
            obj["explained_by"] = "identical to the faithful model of the unpatched searchStreams (fall-through after the sorted full scan / early exit with secondary sort keys): fixes/C02-*.patch not applied to this tree"
        violation(PROP, obj)
        nviol += 1
    # ---- inlineTagFilter itself, three ways (real unexported function, extracted inline_conj_with, cross product)
    if not replay or "inl" in json.load(open(replay)):
        inl_cases = [json.load(open(replay))["inl"]] if replay else [gen_inl_case(rng) for _ in range(250 if tier == "quick" else 5000)]
        inl_bad, nblocks, inote = run_inl(inl_cases, exe)
        stats["inlining_conjuncts"] = nblocks
        if replay:
            print("inlining case:", inl_cases[0], "disagreements:", [(w, k, b["go"], b["spec"], m) for w, k, b, m in inl_bad])
        for who, key, b, m in inl_bad[:1]:
            obj = {"property": PROP, "kind": "inline-tag-filter", "inl": inl_cases[key[0]], "conjunct": b["in"],
                   "impl": b["go"], "spec": b["spec"], "model": m,
                   "why": "Conditions.inlineTagFilter: the set of conjuncts differs from the cross product (decided bit | undecided x every disjunct of the definition) over all tag references",
                   "replay_cmd": "bin/check C02 --replay <this file>"}
            if who == "impl":
                violation(PROP, obj)
            else:
                obj["broken"] = "correspondence: the extracted inline_conj_with (theories/Search.v) disagrees with the cross-product oracle although the implementation agrees"
                violation(PROP, obj, no_input=True)
            nviol += 1
        if inote and not inl_bad and nviol == 0:
            violation(PROP, {"property": PROP, "broken": "inlining harness (package query) could not be built/run against this tree", "note": inote}, no_input=True)
            nviol += 1
    for who, c, want, got_i, got_m in num_bad[:1]:
        obj = {"property": PROP, "kind": "subquery-relation-filter", "num": c, "spec": want, "impl": got_i, "model": got_m,
               "why": "number/time relation to sub-queries: answer or remaining combinations differ from 'n + own + sum of factor*value >= 0'",
               "replay_cmd": "bin/check C02 --replay <this file>"}
        if who == "impl":
            violation(PROP, obj)
        else:
            obj["broken"] = "correspondence: the extracted number_filter (theories/Search.v) disagrees with the oracle although the implementation agrees"
            violation(PROP, obj, no_input=True)
        nviol += 1
    for who, c, want, got_i, got_m in sel_bad[:1]:
        obj = {"property": PROP, "kind": "subquery-selection", "sel": c, "spec": want, "impl": got_i, "model": got_m,
               "why": "subQuerySelection.remove: the combinations of sub-query results still allowed differ from 'all minus the forbidden product'",
               "replay_cmd": "bin/check C02 --replay <this file>"}
        if who == "impl":
            violation(PROP, obj)
        else:
            obj["broken"] = "correspondence: the extracted sel_remove (theories/Search.v) disagrees with the set oracle although the implementation agrees"
            violation(PROP, obj, no_input=True)
        nviol += 1
    if "tag-inline-reftime" in known_ids and "tag-inline-reftime" not in seen_known and not replay:
        log("note: known finding tag-inline-reftime did not reproduce on this tree (fixed?)")
    # ---- the model / the proof / the harness
    if model_bad and nviol == 0:
        pop, sr, why, mm, rr = model_bad[0]
        violation(PROP, {"property": PROP, "broken": "correspondence: the extracted model (theories/Search.v, patched variant) violates the oracle, "
                         "a hypothesis of the theorems fails on what the real code compiled, or the model output is missing, although the "
                         "implementation agrees with the oracle; theorems of props/C02.v no longer describe the code",
                         "why": list(why), "pop": dict(public(pop), searches=[sr]), "model": mm,
                         "impl": rr.get("raw")}, no_input=True)
        nviol += 1
    if note and nviol == 0:
        violation(PROP, {"property": PROP, "broken": "correspondence harness or model could not be built/run against this tree", "note": note}, no_input=True)
        nviol += 1
    if not proof.good() and nviol == 0:
        violation(PROP, {"property": PROP, "broken": proof.failure_text(), "searched": stats["searches"]}, no_input=True)
        nviol += 1
    cov = proof.coverage()
    sample = last[0] if last else {}
    cov.update({
        "trusted_base": TRUSTED_COMMON + [
            "`matches` is a given predicate: query normalisation (C03) and payload filters (C04) are not modelled here; the model is fed with what the real buildSearchObjects compiled per (file, conjunct): possible / lookups / truth table of the filters",
            "model compares absolute times and host bytes; the code compares file-relative ns inside one file (equal while ReferenceTime + ns does not overflow)",
            "sort.Search, sort.Slice and Go map iteration are modelled (binary search function; lookups as sets), not verified",
            "grouping, data variables and converters are outside the model; sub-queries: the selection bookkeeping and the unsorted sub-query search are modelled and proved, "
            "the per-condition computation of forbidden sets is given (filter truth tables from the real code, evaluated with real search contexts); "
            "the harness repeats the 25-line sub-query driver loop of SearchStreams to obtain the previous results",
            "the Python oracle (visible newest versions, generator's ground truth for the query, cmp_to_key sort, slice)"],
        "evaluations": stats["searches"],
        "distinct_nontrivial": len(distinct),
        "rule": "seeded populations (1-60 streams, 1-4 index files, shadowed older versions with different attributes, value pools small enough "
                "for ties) x 0-4 tags (decided / undecided with stale bits, nested definitions) x 35 searches each (query AST with known meaning: "
                "id/port/bytes/host/protocol/time/tag atoms, lists, ranges, AND/OR/NOT) x 0-3 sort keys x limit in {0,1,2,5,100} x skip x id restriction; "
                "non-trivial = non-empty expected page, distinct by (population, query, sort, limit, skip, ids); compared: impl = direct oracle "
                "(key sequence, membership, no duplicates, visible version attributes, length, more flag); extracted model (patched variant) = oracle, "
                "and id-by-id against the implementation (tie order differences counted as tie_drift, never an alarm); "
                "25 % of the searches on small populations use sub-queries (relations through variables in id/port/bytes, time with offsets, "
                "host with masks, protocol; negated; chains main->a->b and two sub-queries side by side), oracle = streams for the sub-queries exist "
                "such that the formula holds; the model's unsorted sub-query search is compared with the code's sub-query result lists and "
                "matchingQueryPart bitmaps; subQuerySelection.remove sequences are compared three ways (code, extracted sel_remove, set oracle)",
        "stats": stats, "generator_distribution": dist, "corpus_cases": ncorpus, "populations": npops, "go_seconds": round(go_s, 1),
        "known_findings_seen": sorted(seen_known), "known_failures": nknown,
        "samples": [{"q": sample.get("q"), "sort": sample.get("sort"), "limit": sample.get("limit"), "skip": sample.get("skip"),
                     "impl": last[1].get("raw") if last else None}],
        "disagreements": nviol, "fixed_findings": fixed,
    })
    if not replay:
        write_evidence(PROP, tier, seed, cov,
                       ["every decided tag bit is correct (C06 establishes it); undecided bits arbitrary",
                        "limit = 0 implies skip = 0 (the manager computes skip = page * limit)",
                        "tag graph acyclic (C11)", "no grouping, sub-queries or data filters in the generated queries"],
                       time.time() - t0, nviol)
    if not nviol:  # keep the run files of a failing run for inspection
        shutil.rmtree(os.path.join(BUILD, "run", "c02", str(os.getpid())), ignore_errors=True)
        try:
            os.remove(os.path.join(BUILD, "overlay", "c02_%d.json" % os.getpid()))
        except OSError:
            pass
    return 1 if nviol else 0
