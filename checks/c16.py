"""C16 -- converter output always belongs to the stream's current data (shares the scenario run of checks/c06.py)."""
import c06


def main(tier, seed, replay=None):
    return c06.main_for("C16", tier, seed, replay)
