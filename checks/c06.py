"""C06 / C16 / C09 -- tags, uncertainty, converters, settling of the manager's service loop.

One gated scenario run (harness/c06, overlay in package manager, build tag verif) is shared by
the three checks (cached under build/run/c06 keyed by seed + tier + tree state):

  * scenarios = seeded histories of API calls (ImportPcaps, AddTag, UpdateTag query / mark add /
    mark del / set converters, DelTag, view open/read/data/close) interleaved with single gate
    steps of the parked background jobs, ending with "API calls stop; release everything in a
    seeded random order" (settle);
  * direct oracles on the REAL code, independent of any model (ground truth from the generator):
      C06  decided(tag, id) => (id in Matches <-> truth of the tag's current definition on the
           stream's current version), after every action; plus HasTag/AllTags and tag searches of
           a fresh view;
      C16  cached converter output = f(current payload) unless queued / a converter job in flight;
           at quiescence: every stream matching a tag with an attached converter has current output;
           unattached converter => nothing queued;
      C09  settle reaches quiescence within the completion budget (watchdog for hangs), quiescent
           state has empty queue, no uncertain stream, no flag, nothing queued, no eligible merge;
  * the extracted Coq model (theories/Tags.v) replays every history action by action and its
    projected state is compared with the dumps.
"""
import hashlib
import json
import os
import random
import re
import sys
import time

from vplib import *

HARNESS = os.path.join(ROOT, "harness/c06/zz_verif_c06_test.go")
RUNDIR = os.path.join(BUILD, "run", "c06")
WORDS = ["foo", "bar", "baz", "flagX", "GET", "MORE", "qux", "EARLY"]
LOCAL_KNOWN = os.path.join(ROOT, "notes", "C06.known.local")   # development copy of known lines (see notes)


# ---------------------------------------------------------------------------- definitions
# AST: ("id",[..]) ("cport",[..]) ("sport",[..]) ("chost",ip) ("cdata",w) ("sdata",w) ("data",w)
#      ("ltime",sec) ("ref",fullname) ("not",x) ("and",x,y) ("or",x,y) ("sub",fullname,"sport"|"cport")
def render(d, top=True):
    k = d[0]
    if k == "id":
        return "id:" + ",".join(map(str, d[1]))
    if k in ("cport", "sport"):
        return "%s:%s" % (k, ",".join(map(str, d[1])))
    if k == "chost":
        return "chost:" + d[1]
    if k in ("cdata", "sdata", "data"):
        return '%s:"%s"' % (k, d[1])
    if k == "ltime":
        return 'ltime:"2020-01-01 12%02d%02d:"' % (d[1] // 60, d[1] % 60)
    if k == "numvar":       # number filter whose right side is a bytes attribute of the same stream: ("numvar", attr, var, off)
        return "%s:@%s@%s" % (d[1], d[2], ("%+d" % d[3]) if d[3] else "")
    if k == "cdatac":       # data filter on the output of one converter: ("cdatac", converter, text)
        return 'cdata.%s:"%s"' % (d[1], d[2])
    if k == "ref":
        typ, name = d[1].split("/")
        return "%s:%s" % (typ, name)
    if k == "not":
        return "-" + render(d[1], False)
    if k == "and":
        s = render(d[1], False) + " " + render(d[2], False)
        return s if top else "(" + s + ")"
    if k == "or":
        s = render(d[1], False) + " or " + render(d[2], False)
        return s if top else "(" + s + ")"
    if k == "sub":
        typ, name = d[1].split("/")
        return "@s:%s:%s %s:@s:%s@" % (typ, name, d[2], d[2])
    raise ValueError(d)


def refs(d):
    k = d[0]
    if k in ("ref", "sub"):
        return {d[1]}
    if k == "not":
        return refs(d[1])
    if k in ("and", "or"):
        return refs(d[1]) | refs(d[2])
    return set()


def klass(d):
    """feature class of a definition (which branch of invalidateTags it takes)"""
    k = d[0]
    if k == "sub":
        return {"sub"}
    if k == "id":
        return {"id"}
    if k in ("cport", "sport", "chost"):
        return {"porthost"}
    if k in ("cdata", "sdata", "data", "cdatac", "numvar"):
        return {"data"}
    if k == "ltime":
        return {"time"}
    if k == "ref":
        return {"ref"}
    if k == "not":
        return klass(d[1])
    return klass(d[1]) | klass(d[2])


class Truth:
    """ground truth: streams = flows restricted to the completed capture files"""

    def __init__(self, scn):
        self.scn = scn
        self.done = []          # completed file indexes

    def flows(self):
        """flow index -> dict(cp, sp, ch, sh, c, s, ft, lt) for the completed files"""
        out = {}
        pk = []
        for fi in self.done:
            if fi in self.scn.get("corrupt", ()):       # an unreadable capture: processed (dropped from the queue), no packets
                continue
            for p in self.scn["files"][fi]:
                pk.append(p)
        pk.sort(key=lambda p: p["t"])
        for p in pk:
            f = self.scn["flows"][p["flow"]]
            a, b = f["a"], f["b"]
            if p["dir"] == 1:
                a, b = b, a
            o = out.get(p["flow"])
            if o is None:
                ah, ap = a.rsplit(":", 1)
                bh, bp = b.rsplit(":", 1)
                o = out[p["flow"]] = dict(ch=ah, cp=int(ap), sh=bh, sp=int(bp), c="", s="", ft=p["t"], lt=p["t"], cl=a)
            if a == o["cl"]:
                o["c"] += p["data"]
            else:
                o["s"] += p["data"]
            o["lt"] = p["t"]
        return out


def eval_def(d, sid, streams, tagtruth):
    """streams: id -> truth dict; tagtruth(fullname) -> set of ids"""
    k = d[0]
    s = streams[sid]
    if k == "id":
        return sid in d[1]
    if k == "cport":
        return s["cp"] in d[1]
    if k == "sport":
        return s["sp"] in d[1]
    if k == "chost":
        return s["ch"] == d[1]
    if k == "cdata":
        return d[1] in s["c"]
    if k == "sdata":
        return d[1] in s["s"]
    if k == "data":
        return d[1] in s["c"] or d[1] in s["s"]
    if k == "ltime":
        return s["lt"] >= d[1] * 1000
    if k == "numvar":
        left = {"id": sid, "cport": s["cp"], "sport": s["sp"]}[d[1]]
        return left == len(s["c"] if d[2] == "cbytes" else s["s"]) + d[3]
    if k == "cdatac":
        out = (s.get("conv") or {}).get(d[1])       # what the converter cache holds for the stream (None: not converted)
        return out is not None and d[2] in out
    if k == "ref":
        return sid in tagtruth(d[1])
    if k == "not":
        return not eval_def(d[1], sid, streams, tagtruth)
    if k == "and":
        return eval_def(d[1], sid, streams, tagtruth) and eval_def(d[2], sid, streams, tagtruth)
    if k == "or":
        return eval_def(d[1], sid, streams, tagtruth) or eval_def(d[2], sid, streams, tagtruth)
    if k == "sub":
        key = "sp" if d[2] == "sport" else "cp"
        return any(streams[o][key] == s[key] for o in tagtruth(d[1]) if o in streams)
    raise ValueError(d)


def parse_mark_def(s):
    if s == "id:-1":
        return ("id", [])
    m = re.fullmatch(r"id:([0-9,]+)", s)
    if not m:
        return None
    return ("id", sorted({int(x) for x in m.group(1).split(",")}))


# ---------------------------------------------------------------------------- generator
TAGNAMES = ["mark/m", "mark/n", "generated/g", "tag/a", "tag/b", "tag/c", "tag/d", "service/s"]


def gen_def(rng, scn, name, existing, rank):
    """random definition for tag `name`; may reference existing tags of lower rank only (no cycles)."""
    if name.startswith("mark/") or name.startswith("generated/"):
        n = rng.choice([0, 1, 1, 2])
        return ("id", sorted(rng.sample(range(0, len(scn["flows"])), n))) if n else ("id", [0])
    cports = [int(f["a"].rsplit(":", 1)[1]) for f in scn["flows"]]
    sports = sorted({int(f["b"].rsplit(":", 1)[1]) for f in scn["flows"]})
    lower = [t for t in existing if rank[t] < rank[name]]

    def atom(allow_ref=True):
        r = rng.random()
        if allow_ref and lower and r < 0.38:
            t = rng.choice(lower)
            if rng.random() < 0.25:
                return ("sub", t, rng.choice(["sport", "cport"]))
            return ("ref", t)
        r = rng.random()
        if r < 0.12:
            return ("id", sorted(rng.sample(range(0, len(scn["flows"])), rng.choice([1, 2]))))
        if r < 0.34:
            return ("cport", sorted(rng.sample(cports, rng.choice([1, 2]))))
        if r < 0.50:
            return ("sport", [rng.choice(sports)])
        if r < 0.58:
            return ("chost", rng.choice(scn["flows"])["a"].rsplit(":", 1)[0])
        if r < 0.86:
            return (rng.choice(["cdata", "sdata", "data"]), rng.choice(WORDS))
        return ("ltime", rng.choice([1, 5, 20, 40, 70]))
    a = atom()
    r = rng.random()
    if a[0] == "sub" or r < 0.5:
        return a
    if r < 0.62:
        return ("not", a)
    b = atom()
    if b[0] == "sub":
        return a
    return (rng.choice(["and", "and", "or"]), a, b)


def gen_scenario(rng, name, nact):
    nfl = rng.choice([2, 3, 4, 5])
    sports = [4321, 80]
    flows = []
    for i in range(nfl):
        flows.append({"a": "10.0.0.%d:%d" % (1 + i % 3, 1001 + i), "b": "10.0.1.1:%d" % rng.choice(sports)})
    nfiles = rng.choice([2, 3, 3, 4, 5])
    used = set()

    def ts(lo, hi):
        for _ in range(1000):
            t = rng.randrange(lo, hi)
            if t not in used:
                used.add(t)
                return t
        raise RuntimeError("ts")
    files = []
    for fi in range(nfiles):
        pk = []
        for _ in range(rng.choice([1, 1, 2, 3])):
            fl = rng.randrange(nfl)
            # later files mostly extend (later time), sometimes precede (reset) the flow
            if fi > 0 and rng.random() < 0.2:
                t = ts(0, 10000)
            else:
                t = ts(10000 + fi * 15000, 10000 + (fi + 1) * 15000)
            pk.append({"flow": fl, "dir": 0 if rng.random() < 0.7 else 1, "t": t, "data": rng.choice(WORDS)})
        files.append(pk)
    scn = {"name": name, "flows": flows, "files": files, "converters": ["cva"] if rng.random() < 0.7 else ["cva", "cvb"],
           "searches": [], "actions": [], "defs": {}}
    if nfiles >= 3 and rng.random() < 0.25:
        scn["corrupt"] = [rng.randrange(1, nfiles)]      # written as garbage: the import of this capture fails
    rank = {t: i for i, t in enumerate(TAGNAMES)}
    existing = {}      # name -> def AST (generator's belief; errors do not matter much)
    imported = []
    views = set()
    acts = scn["actions"]

    def add_def(d):
        s = render(d)
        scn["defs"][s] = d
        return s
    # a prelude that usually creates some streams and tags quickly
    if rng.random() < 0.8:
        acts.append(["import", [0]])
        imported.append(0)
        if rng.random() < 0.7:
            acts.append(["settle", rng.randrange(1 << 20)])
    while len(acts) < nact:
        r = rng.random()
        if r < 0.34:
            acts.append(["step", rng.randrange(6)])
        elif r < 0.44:
            rest = [i for i in range(nfiles) if i not in imported]
            if rest:
                k = 1 if rng.random() < 0.8 else min(2, len(rest))
                # mostly in file order, sometimes out of order
                pick = rest[:k] if rng.random() < 0.75 else rng.sample(rest, k)
                imported += pick
                acts.append(["import", pick])
        elif r < 0.60:
            cand = [t for t in TAGNAMES if t not in existing]
            if cand:
                t = rng.choice(cand)
                d = gen_def(rng, scn, t, list(existing), rank)
                existing[t] = d
                if d[0] == "id" and (t.startswith("mark/") or t.startswith("generated/")):
                    acts.append(["addmark", t, d[1]])
                else:
                    acts.append(["addtag", t, add_def(d)])
        elif r < 0.68:
            cand = [t for t in existing if not t.startswith("mark/") and not t.startswith("generated/")]
            if cand:
                t = rng.choice(cand)
                d = gen_def(rng, scn, t, list(existing), rank)
                existing[t] = d
                acts.append(["query", t, add_def(d)])
        elif r < 0.80:
            cand = [t for t in existing if t.startswith("mark/") or t.startswith("generated/")]
            if cand:
                t = rng.choice(cand)
                ids = sorted(rng.sample(range(0, nfl + 1), rng.choice([1, 1, 2])))
                acts.append([rng.choice(["markadd", "markadd", "markdel"]), t, ids])
        elif r < 0.88:
            if existing:
                t = rng.choice(sorted(existing))
                cs = rng.choice([[], ["cva"], ["cva"], scn["converters"]])
                acts.append(["setconv", t, cs])
        elif r < 0.91:
            cand = [t for t in existing if not any(t in refs(d) for d in existing.values())]
            if cand:
                t = rng.choice(sorted(cand))
                del existing[t]
                acts.append(["deltag", t])
        elif r < 0.97:
            v = rng.randrange(2)
            if v not in views:
                views.add(v)
                acts.append(["viewopen", v])
            else:
                q = rng.random()
                if q < 0.15:
                    acts.append(["viewread", v])
                elif q < 0.4:
                    acts.append(["viewsearch", v, add_def(_search_query(rng, scn, sorted(existing))), rng.choice([0, 1, 1])])
                elif q < 0.7 and scn.get("viewdata", True):
                    acts.append(["viewdata", v, rng.randrange(nfl), rng.choice(scn["converters"])])
                else:
                    views.discard(v)
                    acts.append(["viewclose", v])
        else:
            acts.append(["settle", rng.randrange(1 << 20)])
    acts.append(["settle", rng.randrange(1 << 20)])
    scn["searches"] = []
    return scn


# ---------------------------------------------------------------------------- interleaving templates
def _tmpl_base(rng, name, nflows=3):
    flows = [{"a": "10.0.0.%d:%d" % (1 + i, 1001 + i), "b": "10.0.1.1:%d" % rng.choice([4321, 80])} for i in range(nflows)]
    scn = {"name": name, "flows": flows, "files": [], "converters": ["cva"], "searches": [], "actions": [], "defs": {}}
    return scn


def _plain_def(rng, scn, classes=("port", "host", "data", "time", "id", "numvar", "numvar")):
    cports = [int(f["a"].rsplit(":", 1)[1]) for f in scn["flows"]]
    k = rng.choice(classes)
    if k == "numvar":
        # stream id (or port) compared with the number of client / server bytes of the same stream: an extending import
        # flips the comparison although the left side is an id / port filter
        if rng.random() < 0.8:
            return ("numvar", "id", rng.choice(["cbytes", "sbytes"]), rng.choice([0, -3, -3, -4, -5, -6, -8]))
        return ("numvar", rng.choice(["cport", "sport"]), rng.choice(["cbytes", "sbytes"]), rng.choice([1001, 1002, 80, 998, 77]))
    if k == "port":
        return rng.choice([("cport", sorted(rng.sample(cports, 2))), ("sport", [rng.choice([4321, 80])]), ("not", ("cport", [cports[0]]))])
    if k == "host":
        return ("chost", rng.choice(scn["flows"])["a"].rsplit(":", 1)[0])
    if k == "data":
        return (rng.choice(["cdata", "sdata", "data"]), rng.choice(WORDS))
    if k == "time":
        return ("ltime", rng.choice([5, 20, 40]))
    return ("id", sorted(rng.sample(range(len(scn["flows"])), 2)))


def _search_query(rng, scn, tags, classes=("port", "host", "data", "id")):
    """a search (not a tag definition): may use any existing tag"""
    def atom():
        if tags and rng.random() < 0.6:
            r = ("ref", rng.choice(tags))
            return r if rng.random() < 0.7 else ("not", r)
        return _plain_def(rng, scn, classes)
    r = rng.random()
    if r < 0.6:
        return atom()
    return (rng.choice(["and", "or"]), atom(), atom())


def _file_kinds(rng, scn, base_t=20000):
    """file 0: every flow once; then one file of each kind for flow 0: extend, reset, add-only (new flow)"""
    n = len(scn["flows"])
    f0 = [{"flow": i, "dir": rng.choice([0, 0, 1]), "t": base_t + 1000 * i + rng.randrange(900), "data": rng.choice(WORDS)} for i in range(n - 1)]
    x = rng.randrange(n - 1)
    ext = [{"flow": x, "dir": rng.choice([0, 1]), "t": base_t + 30000 + rng.randrange(5000), "data": rng.choice(WORDS)}]
    rst = [{"flow": x, "dir": rng.choice([0, 1]), "t": 1000 + rng.randrange(5000), "data": rng.choice(WORDS)}]
    add = [{"flow": n - 1, "dir": 0, "t": base_t + 50000 + rng.randrange(5000), "data": rng.choice(WORDS)}]
    scn["files"] = [f0, ext, rst, add]
    return {"base": 0, "extend": 1, "reset": 2, "add": 3}, x


def gen_template(rng, name, family=None):
    """generic interleavings of one API call / import with one parked job (not tied to any code version):
       tagjob-import : an import (extend / reset / add) completes while a tagging job is parked (either phase)
       tagjob-refchg : a referenced tag changes (query edit, mark add/del) while the referrer's job is parked
       convjob-2imp  : two imports complete while a converter job is parked at its start
       view-import   : on-demand conversion through a view opened before / during an import"""
    family = family or rng.choice(["conv-malformed", "merge-fail", "conv-restart", "tagjob-attach", "tagjob-import", "tagjob-refchg", "tagjob-refchg", "convjob-2imp", "view-import", "convjob-detach", "view-multi",
                                   "view-multi", "tagjob-convdone", "import-corrupt", "tag-evalerr", "conv-baddir", "detach-datatag"])
    scn = _tmpl_base(rng, name, rng.choice([3, 4]))
    kinds, x = _file_kinds(rng, scn)
    acts = scn["actions"]

    def add_def(d):
        s = render(d)
        scn["defs"][s] = d
        return s
    acts += [["import", [0]], ["settle", rng.randrange(1 << 20)]]
    if family == "tagjob-import":
        d = _plain_def(rng, scn)
        acts.append(["addtag", "tag/a", add_def(d)])
        if rng.random() < 0.3:      # a referrer, so that inheritance is exercised too
            acts.append(["addtag", "tag/b", add_def(("ref", "tag/a"))])
        for _ in range(rng.choice([0, 1])):
            acts.append(["stepkind", "tag"])
        order = rng.sample(["extend", "reset", "add"], rng.choice([1, 1, 2]))
        for kd in order:
            acts.append(["import", [kinds[kd]]])
            acts += [["stepkind", "import"], ["stepkind", "import"]]
        acts += [["stepkind", "tag"], ["stepkind", "tag"]]
    elif family == "tagjob-refchg":
        mark = rng.random() < 0.5
        if mark:
            acts.append(["addmark", "mark/m", [rng.randrange(len(scn["flows"]) - 1)]])
            ref = "mark/m"
        else:
            acts.append(["addtag", "tag/a", add_def(_plain_def(rng, scn))])
            acts.append(["settle", rng.randrange(1 << 20)])
            ref = "tag/a"
        r = ("ref", ref)
        sq = ("sub", ref, rng.choice(["sport", "cport"]))
        d = rng.choice([r, ("and", r, _plain_def(rng, scn, ("port", "host"))), ("not", r), sq,
                        # the same tag both in a sub-query and in the main query
                        ("and", sq, ("not", r)), ("and", sq, r)])
        acts.append(["addtag", "tag/c", add_def(d)])
        if rng.random() < 0.3:
            acts.append(["addtag", "tag/d", add_def(("ref", "tag/c"))])
        for _ in range(rng.choice([0, 1])):
            acts.append(["stepkind", "tag"])
        if mark:
            acts.append([rng.choice(["markadd", "markdel"]), "mark/m", sorted(rng.sample(range(len(scn["flows"]) - 1), rng.choice([1, 2])))])
        else:
            acts.append(["query", "tag/a", add_def(_plain_def(rng, scn))])
        acts += [["stepkind", "tag"], ["stepkind", "tag"]]
    elif family == "convjob-2imp":
        acts.append(["addtag", "tag/a", add_def(_plain_def(rng, scn, ("port", "host", "id")))])
        acts.append(["settle", rng.randrange(1 << 20)])
        acts.append(["setconv", "tag/a", ["cva"]])
        if rng.random() < 0.3:
            acts.append(["stepkind", "convert"])
        for kd in rng.sample(["extend", "reset", "add"], rng.choice([2, 2, 3])):
            acts.append(["import", [kinds[kd]]])
            acts += [["stepkind", "import"], ["stepkind", "import"]]
        acts += [["stepkind", "convert"], ["stepkind", "convert"]]
    elif family == "convjob-detach":
        # a converter is taken from its tag (set-converter / delete) while a converter job is parked and more of the
        # tag's streams were queued behind it
        n = len(scn["flows"]) - 1
        mark = rng.random() < 0.6
        if mark:
            first = sorted(rng.sample(range(n), 1))
            acts.append(["addmark", "mark/m", first])
            T = "mark/m"
        else:
            acts.append(["addtag", "tag/a", add_def(_plain_def(rng, scn, ("port", "host", "id")))])
            acts.append(["settle", rng.randrange(1 << 20)])
            T = "tag/a"
        if rng.random() < 0.4:      # another tag keeps the converter (often with overlapping matches)
            acts.append(["addmark", "generated/g", sorted(rng.sample(range(n), 1)) if rng.random() < 0.4 else list(range(n))])
            acts.append(["setconv", "generated/g", ["cva"]])
        acts.append(["setconv", T, ["cva"]])
        for _ in range(rng.choice([0, 0, 1])):
            acts.append(["stepkind", "convert"])
        if mark:
            acts.append(["markadd", "mark/m", [x for x in range(n) if x not in first]])
        else:
            kd = rng.choice(["extend", "add"])
            acts.append(["import", [kinds[kd]]])
            acts += [["stepkind", "import"], ["stepkind", "import"], ["stepkind", "tag"], ["stepkind", "tag"]]
        acts.append(rng.choice([["setconv", T, []], ["deltag", T]]))
        acts += [["stepkind", "convert"], ["stepkind", "convert"], ["stepkind", "convert"]]
    elif family == "import-corrupt":
        # error path of the importer: an unreadable capture in the queue with more captures behind it / before it
        bad = rng.choice(["extend", "reset", "add"])
        scn["corrupt"] = [kinds[bad]]
        good = [kinds[kd] for kd in ("extend", "reset", "add") if kd != bad]
        rng.shuffle(good)
        acts.append(["addtag", "tag/a", add_def(_plain_def(rng, scn, ("port", "host", "data", "id")))])
        shape = rng.choice(["one-call", "queued-behind", "queued-before"])
        if shape == "one-call":
            order = [kinds[bad]] + good if rng.random() < 0.6 else [good[0], kinds[bad], good[1]]
            acts.append(["import", order])
        elif shape == "queued-behind":
            acts.append(["import", [kinds[bad]]])
            if rng.random() < 0.5:
                acts.append(["stepkind", "import"])
            acts.append(["import", [good[0]]])
            acts.append(["import", [good[1]]])
        else:
            acts.append(["import", [good[0]]])
            acts.append(["import", [kinds[bad]]])
            acts.append(["import", [good[1]]])
        for _ in range(rng.choice([0, 2, 4, 6])):
            acts.append(["stepkind", "import"])
    elif family == "tag-evalerr":
        # error path of the tagging job: a definition that parses but whose evaluation fails (data filter on a converter
        # that does not exist); the tag has to be decided (no matches) and the other tags / the merge must not starve
        word = rng.choice([p["data"] for p in scn["files"][0]])
        acts.append(["addtag", "tag/b", add_def(("cdatac", "gone", word.encode().hex()))])
        if rng.random() < 0.6:
            acts.append(["addtag", "tag/a", add_def(_plain_def(rng, scn, ("port", "host", "data", "id")))])
        if rng.random() < 0.4:
            acts.append(["addtag", "tag/c", add_def(rng.choice([("ref", "tag/b"), ("not", ("ref", "tag/b"))]))])
        for _ in range(rng.choice([0, 1, 2])):
            acts.append(["stepkind", "tag"])
        if rng.random() < 0.6:
            kd = rng.choice(["extend", "add"])
            acts.append(["import", [kinds[kd]]])
            acts += [["stepkind", "import"], ["stepkind", "import"]]
    elif family == "conv-baddir":
        # error path of a converter: cvb answers streams that carry the word flagX with a chunk of an unknown direction
        # followed by more output (Converter.Data fails, the process must not be reused); other streams follow on cvb
        scn["converters"] = ["cva", "cvb"]
        n = len(scn["flows"]) - 1
        scn["files"][0][rng.randrange(len(scn["files"][0]))]["data"] = "flagX"
        if rng.random() < 0.5:
            acts.append(["addtag", "tag/a", add_def(rng.choice([("not", ("cport", [9])), _plain_def(rng, scn, ("port", "host", "id"))]))])
            acts.append(["settle", rng.randrange(1 << 20)])
            acts.append(["setconv", "tag/a", rng.choice([["cvb"], ["cva", "cvb"]])])
            for _ in range(rng.choice([0, 1, 2])):
                acts.append(["stepkind", "convert"])
            if rng.random() < 0.5:
                acts.append(["import", [kinds[rng.choice(["extend", "add"])]]])
        else:
            # the process pool alone: conversions on demand through a view, one after the other, no tag keeps cvb
            scn["pool"] = "cvb"
            acts.append(["viewopen", 0])
            order = list(range(n))
            rng.shuffle(order)
            for sid in order + order[:rng.choice([0, 1, 2])]:
                acts.append(["viewdata", 0, sid, "cvb"])
    elif family == "conv-restart":
        # a converter is restarted (new executable generation) while the conversions of its job are running (slow converter
        # cvs): output of the old generation must not survive
        scn["converters"] = ["cva", "cvs"]
        acts.append(["addtag", "tag/a", add_def(rng.choice([("not", ("cport", [9])), _plain_def(rng, scn, ("port", "host", "id"))]))])
        acts.append(["settle", rng.randrange(1 << 20)])
        acts.append(["setconv", "tag/a", rng.choice([["cvs"], ["cvs"], ["cva", "cvs"]])])
        if rng.random() < 0.3:
            acts += [["stepkind", "convert"], ["stepkind", "convert"], ["resetconv", "cvs"]]
        acts.append(["convreset", "cvs"])
        acts.append(["stepkind", "convert"])
    elif family == "conv-malformed":
        # many streams whose conversion fails while the answer is read (cvb, flagX): each failure is tried twice; every
        # attempt has to give its process slot back (8 slots), the converter job must end
        nb = rng.choice([5, 6, 6, 7])
        scn["converters"] = ["cva", "cvb"]
        scn["flows"] = [{"a": "10.0.0.%d:%d" % (1 + i % 3, 1001 + i), "b": "10.0.1.1:%d" % rng.choice([4321, 80])} for i in range(nb + 1)]
        scn["files"][0] = [{"flow": i, "dir": rng.choice([0, 0, 1]), "t": 20000 + 1000 * i + rng.randrange(900),
                            "data": "flagX" if (i < nb - 1 or rng.random() < 0.5) else rng.choice(WORDS)} for i in range(nb)]
        scn["files"][1:] = [[{"flow": nb, "dir": 0, "t": 90000, "data": rng.choice(WORDS)}]]
        acts.append(["addtag", "tag/a", add_def(("not", ("cport", [9])))])
        acts.append(["settle", rng.randrange(1 << 20)])
        acts.append(["setconv", "tag/a", rng.choice([["cvb"], ["cva", "cvb"]])])
        if rng.random() < 0.4:
            acts.append(["import", [1]])
    elif family == "merge-fail":
        # a merge fails (its output path is blocked): the failing run has to be excluded, the merges must not restart for ever
        acts.append(["import", [kinds["add"]]])
        acts += [["stepkind", "import"], ["stepkind", "import"]]
        if rng.random() < 0.6:
            acts.append(["import", [kinds["extend"]]])
            acts += [["stepkind", "import"], ["stepkind", "import"]]
        if rng.random() < 0.4:
            acts.append(["addtag", "tag/a", add_def(_plain_def(rng, scn, ("port", "host", "id")))])
            acts += [["stepkind", "tag"], ["stepkind", "tag"]]
        acts.append(["failmerge"])
    elif family == "tagjob-attach":
        # a converter is attached to / taken from a tag while the tag's evaluation is parked (before or after it ran)
        acts.append(["addtag", "tag/a", add_def(rng.choice([("not", ("cport", [9])), _plain_def(rng, scn, ("port", "host", "id"))]))])
        for _ in range(rng.choice([0, 1, 1])):
            acts.append(["stepkind", "tag"])
        acts.append(["setconv", "tag/a", ["cva"]])
        if rng.random() < 0.3:
            acts.append(["setconv", "tag/a", []])
            acts.append(["setconv", "tag/a", ["cva"]])
        acts += [["stepkind", "tag"], ["stepkind", "tag"]]
    elif family == "detach-datatag":
        # a converter is attached to exactly one tag, another tag filters on that converter's output; the attachment goes
        # away (delete / set-converter) while no tagging job runs: the data tag is re-opened and has to be evaluated again
        acts.append(["addtag", "tag/a", add_def(rng.choice([("not", ("cport", [9])), _plain_def(rng, scn, ("port", "host", "id"))]))])
        acts.append(["settle", rng.randrange(1 << 20)])
        acts.append(["setconv", "tag/a", ["cva"]])
        acts.append(["settle", rng.randrange(1 << 20)])
        word = rng.choice([p["data"] for p in scn["files"][0]])
        d = ("cdatac", "cva", word.encode().hex())
        if rng.random() < 0.3:
            d = ("or", d, _plain_def(rng, scn, ("port", "id")))
        acts.append(["addtag", "tag/b", add_def(d)])
        if rng.random() < 0.3:
            acts.append(["addtag", "tag/c", add_def(("ref", "tag/b"))])
        if rng.random() < 0.8:
            acts.append(["settle", rng.randrange(1 << 20)])
        acts.append(rng.choice([["deltag", "tag/a"], ["deltag", "tag/a"], ["setconv", "tag/a", []]]))
    elif family == "tagjob-convdone":
        # a converter job completes while the tagging job of a tag that filters on that converter's output is parked
        # (before or after its evaluation); the tag must not be published decided with pre-conversion matches
        n = len(scn["flows"]) - 1
        acts.append(["addtag", "tag/a", add_def(rng.choice([("not", ("cport", [9])), _plain_def(rng, scn, ("port", "host", "id"))]))])
        acts.append(["settle", rng.randrange(1 << 20)])
        acts.append(["setconv", "tag/a", ["cva"]])             # converter job created, parked at its start
        word = rng.choice([p["data"] for p in scn["files"][0]])
        d = ("cdatac", "cva", word.encode().hex())
        if rng.random() < 0.3:
            d = ("or", d, _plain_def(rng, scn, ("port", "id")))
        acts.append(["addtag", "tag/b", add_def(d)])           # its tagging job parks at tag.start
        if rng.random() < 0.3:
            acts.append(["addtag", "tag/c", add_def(("ref", "tag/b"))])
        order = rng.choice([["tag", "convert", "convert", "tag"], ["tag", "convert", "convert", "tag"], ["convert", "tag", "convert", "tag"],
                            ["convert", "convert", "tag", "tag"], ["tag", "convert", "tag", "convert"]])
        for kd in order:
            acts.append(["stepkind", kd])
    elif family == "view-multi":
        # one view kept open over several searches while tags are undecided: a narrow result with all tags prefetched,
        # then wider searches (with and without prefetch) that use the tags as filters / report HasTag outside the first result
        cports = [int(f["a"].rsplit(":", 1)[1]) for f in scn["flows"]]
        n = len(scn["flows"]) - 1
        if rng.random() < 0.4:
            acts.append(["addmark", "mark/m", sorted(rng.sample(range(n), rng.choice([1, 2])))])
        acts.append(["addtag", "tag/a", add_def(_plain_def(rng, scn, ("port", "host", "data", "id")))])
        tags = ["tag/a"]
        if rng.random() < 0.5:
            r = ("ref", "tag/a")
            acts.append(["addtag", "tag/c", add_def(rng.choice([r, ("not", r), ("and", r, _plain_def(rng, scn, ("port", "host"))), ("sub", "tag/a", "sport")]))])
            tags.append("tag/c")
        if rng.random() < 0.7:      # definitions with several disjuncts
            for T in rng.sample(["tag/b", "tag/d"], rng.choice([1, 2])):
                d = ("or", _plain_def(rng, scn, ("port", "host", "id")), _plain_def(rng, scn, ("port", "host", "id", "data")))
                if rng.random() < 0.3:
                    d = ("or", d, _plain_def(rng, scn, ("port", "id")))
                acts.append(["addtag", T, add_def(d)])
                tags.append(T)
        for _ in range(rng.choice([0, 0, 1, 2])):
            acts.append(["stepkind", "tag"])
        acts.append(["viewopen", 0])
        if len(tags) >= 2:          # several undecided tags in ONE conjunction
            for _ in range(rng.choice([1, 2, 3])):
                k = rng.choice([2, 2, 3]) if len(tags) >= 3 else 2
                rs = [("ref", T) if rng.random() < 0.8 else ("not", ("ref", T)) for T in rng.sample(tags, k)]
                q = rs[0]
                for r in rs[1:]:
                    q = ("and", q, r)
                acts.append(["viewsearch", 0, add_def(q), rng.choice([0, 0, 1])])
        narrow = rng.choice([("cport", [rng.choice(cports[:n])]), ("id", [rng.randrange(n)])])
        acts.append(["viewsearch", 0, add_def(narrow), 1])
        for _ in range(rng.choice([2, 3, 4])):
            T = rng.choice(tags)
            q = rng.choice([("ref", T), ("not", ("ref", T)), ("not", ("cport", [9])), _search_query(rng, scn, tags)])
            acts.append(["viewsearch", 0, add_def(q), rng.choice([0, 1])])
        if rng.random() < 0.5:
            acts += [["stepkind", "tag"], ["stepkind", "tag"]]
            acts.append(["viewsearch", 0, add_def(("ref", rng.choice(tags))), 1])
    else:
        if rng.random() < 0.5:
            acts.append(["viewopen", 0])
        kd = rng.choice(["extend", "reset"])
        acts.append(["import", [kinds[kd]]])
        acts.append(["stepkind", "import"])
        if ["viewopen", 0] not in acts:
            acts.append(["viewopen", 0])
        acts.append(["stepkind", "import"])
        acts.append(["viewdata", 0, rng.randrange(len(scn["flows"]) - 1), "cva"])
        acts.append(["viewopen", 1])
        acts.append(["viewdata", 1, rng.randrange(len(scn["flows"]) - 1), "cva"])
    acts.append(["settle", rng.randrange(1 << 20)])
    scn["family"] = family
    return scn


FAMILY_OF_FIELD = {"tags": ["tagjob-import", "tagjob-refchg", "tagjob-convdone", "tag-evalerr"], "next": ["tagjob-import"], "tc": ["convjob-2imp", "view-import", "convjob-detach"],
                   "ca": ["convjob-2imp", "view-import", "conv-baddir"], "pool": ["conv-baddir"], "j": ["tagjob-import", "convjob-2imp"], "q": ["tagjob-import", "import-corrupt"],
                   "ix": ["convjob-2imp"], "me": ["convjob-2imp", "tagjob-import"]}


# ---------------------------------------------------------------------------- running the harness
def tree_state():
    rc, head, _ = run(["git", "-C", REPO, "rev-parse", "HEAD"])
    rc, diff, _ = run(["git", "-C", REPO, "diff", "HEAD", "--", "internal", "go.mod"])
    h = hashlib.sha256()
    h.update(head.encode())
    h.update(diff.encode())
    h.update(open(HARNESS, "rb").read())
    h.update(open(__file__.replace(".pyc", ".py"), "rb").read())
    for prop in ("C06", "C16", "C09"):      # the corpus scenarios are part of every run
        d = os.path.join(ROOT, "corpus", prop)
        for fn in sorted(os.listdir(d)) if os.path.isdir(d) else []:
            h.update(fn.encode())
            h.update(open(os.path.join(d, fn), "rb").read())
    return h.hexdigest()[:16]


def run_harness(scenarios, tag, timeout=900):
    os.makedirs(RUNDIR, exist_ok=True)
    tag = "%s_p%d" % (tag, os.getpid())      # several checks (C06, C16, C09, other trees) may run at the same time
    cf = os.path.join(RUNDIR, "cases_%s.json" % tag)
    of = os.path.join(RUNDIR, "impl_%s.out" % tag)
    json.dump({"scenarios": [{k: v for k, v in s.items() if k != "defs"} for s in scenarios]}, open(cf, "w"))
    if os.path.exists(of):
        os.remove(of)
    ov = go_overlay({"internal/index/manager/zz_verif_c06_test.go": HARNESS}, "c06_" + tag)
    rc, out, dt = go_test("./internal/index/manager/", ov, "^TestVerifC06$", {"VERIF_CASES": cf, "VERIF_OUT": of}, timeout=timeout)
    note = "" if rc == 0 else "go harness rc=%d: %s" % (rc, out[-2500:])
    res = {}
    if os.path.exists(of):
        for line in open(of):
            try:
                d = json.loads(line)
            except ValueError:
                continue
            res.setdefault(d["scn"], []).append(d)
    if not os.environ.get("VERIF_C06_KEEP"):
        for f in (cf, of, ov):
            if os.path.exists(f):
                os.remove(f)
    return res, note, dt


def run_sharded(scenarios, tag, shards, timeout=900):
    """several `go test` processes in parallel (one manager per process at a time: VerifGate is global)"""
    if shards <= 1 or len(scenarios) < 2 * shards:
        return run_harness(scenarios, tag, timeout)
    import threading
    parts = [scenarios[i::shards] for i in range(shards)]
    out = [None] * shards
    # build once (warm cache) with an empty case list
    run_harness([], tag + "_warm", timeout)

    def work(i):
        out[i] = run_harness(parts[i], "%s_%d" % (tag, i), timeout)
    th = [threading.Thread(target=work, args=(i,)) for i in range(shards)]
    for t in th:
        t.start()
    for t in th:
        t.join()
    res, notes, dt = {}, [], 0
    for r, n, d in out:
        res.update(r)
        if n:
            notes.append(n)
        dt = max(dt, d)
    return res, "; ".join(notes), dt


# ---------------------------------------------------------------------------- oracles
class Finding:
    li = -1

    def __init__(self, prop, kind, scn, step, detail):
        self.prop, self.kind, self.scn, self.step, self.detail = prop, kind, scn, step, detail

    def as_dict(self):
        return {"property": self.prop, "kind": self.kind, "scenario": self.scn, "step": self.step, "detail": self.detail}


def tag_truth_sets(state, defs, streams):
    """truth set of every tag of the dumped state (definitions resolved through `defs`); None when a
    definition is not from the family"""
    asts = {}
    for tn, t in state["tags"].items():
        d = parse_mark_def(t["def"]) if (tn.startswith("mark/") or tn.startswith("generated/")) else defs.get(t["def"])
        asts[tn] = d
    memo = {}

    def tt(tn):
        if tn in memo:
            return memo[tn]
        memo[tn] = set()     # cycle guard (the generator never builds cycles)
        d = asts.get(tn)
        if d is None:
            memo[tn] = None
            return set()
        memo[tn] = {sid for sid in streams if eval_def(d, sid, streams, tt)}
        return memo[tn]
    return {tn: (tt(tn) if asts[tn] is not None else None) for tn in asts}, asts


def inline_shapes(q, vst, asts):
    """known defects of inlining undecided tags into a search: shape of the query + the tag state the view was opened with.
    neg-unsat-tag-inline    : a negated reference reaches an undecided tag whose definition can never match (empty mark, `id:-1`)
    neg-subquery-tag-inline : a negated reference reaches an undecided tag whose definition uses a sub-query
    subquery-tag-inline     : (C02's known finding, reached through a tag) an inlined definition runs a sub-query on an undecided tag"""
    out = set()

    def has_sub(T, seen=()):
        d = asts.get(T)
        if d is None or T in seen:
            return False
        return "sub" in klass(d) or any(has_sub(r, seen + (T,)) for r in refs(d))

    def subs(d):
        if d[0] == "sub":
            return {d[1]}
        if d[0] == "not":
            return subs(d[1])
        if d[0] in ("and", "or"):
            return subs(d[1]) | subs(d[2])
        return set()

    def sub_undecided(T, seen=()):
        # the definition (or one inlined into it) runs a sub-query on a tag that is itself undecided
        d = asts.get(T)
        if d is None or T in seen:
            return False
        if any(vst["tags"].get(a, {}).get("u") for a in subs(d)):
            return True
        return any(vst["tags"].get(r, {}).get("u") and sub_undecided(r, seen + (T,)) for r in refs(d) - subs(d))

    def walk(d, neg, seen):
        k = d[0]
        if k == "not":
            walk(d[1], not neg, seen)
        elif k in ("and", "or"):
            walk(d[1], neg, seen)
            walk(d[2], neg, seen)
        elif k == "ref":
            T = d[1]
            t = vst["tags"].get(T)
            if t is None or not t["u"] or T in seen:
                return
            if neg and t["def"] == "id:-1":
                out.add("neg-unsat-tag-inline")
            if neg and has_sub(T):
                out.add("neg-subquery-tag-inline")
            if sub_undecided(T):
                out.add("subquery-tag-inline")
            if asts.get(T) is not None:
                walk(asts[T], neg, seen + (T,))
    walk(q, False, ())
    return sorted(out)


def conv_names(d):
    """converters a definition filters on (`cdata.<converter>:`)"""
    if d[0] == "cdatac":
        return {d[1]}
    if d[0] == "not":
        return conv_names(d[1])
    if d[0] in ("and", "or"):
        return conv_names(d[1]) | conv_names(d[2])
    return set()


def conv_bad(cname, s):
    """the harness converter cvb answers streams that carry the word flagX with a chunk of an unknown direction
    (Converter.Data fails: the conversion is retried once and then discarded, nothing is cached)"""
    return cname == "cvb" and ("flagX" in s["c"] or "flagX" in s["s"])


def conv_expected(cname, s, gen=0):
    # hex: a data filter without converter selector also searches converter output; hex never matches the data words
    # gen: executable generation (the harness bumps it when it restarts a converter)
    return "%s#%s#%s\x00" % (cname if not gen else "%s@%d" % (cname, gen), s["c"].encode().hex(), s["s"].encode().hex())


def check_scenario(scn, lines):
    """returns (findings, stats, trace) ; findings for C06, C16, C09 and 'GT' (ground truth unusable)"""
    F = []
    stats = {"steps": 0, "decided_checks": 0, "undecided": 0, "cache_checks": 0, "inflight_steps": 0, "completions": 0,
             "view_checks": 0, "stale_allowed": 0}
    truth = Truth(scn)
    defs = scn["defs"]
    prev_queue = []
    name = scn["name"]
    per_line = {}
    epoch, view_epoch, view_state, prev_st, conv_gen = 0, {}, {}, None, {}
    for li, ln in enumerate(lines):
        for f in F:
            if f.li < 0:
                f.li = li - 1
        i = ln["i"]
        if i == -2:
            break
        res = ln.get("res", "")
        if res.startswith("PANIC") or res.startswith("HANG") or res.startswith("MARSHAL") or i == -1:
            F.append(Finding("C09", "hang-or-panic", name, i, res))
            break
        st = ln.get("state")
        if st is None:
            F.append(Finding("GT", "no-state", name, i, res))
            break
        stats["steps"] += 1
        act = ln["act"]
        # views kept open: what a view shows is ground truth of its opening as long as neither the streams nor a tag
        # definition / mark changed since (tagging job completions do not change the truth)
        if res == "import.done" or (act[0] in ("addtag", "addmark", "deltag", "query", "markadd", "markdel") and res == "ok"):
            epoch += 1
        if act[0] in ("resetconv", "convreset") and res != "noop":
            conv_gen[act[1]] = conv_gen.get(act[1], 0) + 1
        if act[0] == "viewopen" and res == "ok":
            view_epoch[act[1]] = epoch
            view_state[act[1]] = st
        elif act[0] == "viewclose":
            view_epoch.pop(act[1], None)
        done_before = list(truth.done)
        # completed imports: the queue lost a prefix
        if len(st["queue"]) < len(prev_queue) or (act[0] in ("step", "stepkind", "settle", "substep")):
            # files that left the queue are completed (queue only shrinks at import completion)
            q, pq = st["queue"], prev_queue
            k = 0
            while k < len(pq) and pq[k:] != q[:len(pq) - k] :
                k += 1
            # pq[k:] is a prefix of q  => pq[:k] completed
            for fi in pq[:k]:
                if fi not in truth.done:
                    truth.done.append(fi)
        prev_queue = list(st["queue"])
        if act[0] == "settle":
            stats["completions"] += ln["info"]["completions"]
        flows = truth.flows()
        # map implementation streams to flows by the 4-tuple
        fresh = ln.get("fresh") or {}
        if fresh.get("err"):
            F.append(Finding("GT", "view-error", name, i, fresh["err"]))
            break
        streams = {}
        gt_ok = True
        seen = set()
        for s in fresh.get("streams", []):
            hit = None
            for fl, o in flows.items():
                if (o["cp"], o["sp"], o["ch"], o["sh"]) == (s["cp"], s["sp"], s["ch"], s["sh"]):
                    hit = fl
            if hit is None or hit in seen:
                # the reset case may keep client/server of the old first packet? report
                gt_ok = False
                F.append(Finding("GT", "stream-not-in-ground-truth", name, i, s))
                break
            seen.add(hit)
            o = flows[hit]
            if (o["c"], o["s"]) != (s["c"], s["s"]) or o["lt"] != s["lt"] or o["ft"] != s["ft"]:
                gt_ok = False
                F.append(Finding("GT", "payload-differs-from-ground-truth", name, i, {"impl": s, "truth": o}))
                break
            streams[s["id"]] = o
        if gt_ok and len(seen) != len(flows):
            gt_ok = False
            F.append(Finding("GT", "stream-missing", name, i, {"have": sorted(seen), "want": sorted(flows)}))
        if not gt_ok:
            break
        if set(streams) != set(range(st["next"])):
            F.append(Finding("GT", "ids-not-dense", name, i, sorted(streams)))
            break
        for sid, o in streams.items():       # converter output as cached now (truth of `cdata.<converter>:` filters)
            o["conv"] = {c: m.get(str(sid)) for c, m in st["cache"].items()}
        per_line[li] = (streams, done_before, list(truth.done))
        tsets, asts = tag_truth_sets(st, defs, streams)
        def uses_conv(d, seen=()):
            """the definition (transitively) filters on the output of a converter"""
            if d is None:
                return False
            if d[0] == "cdatac":
                return True
            if d[0] == "not":
                return uses_conv(d[1], seen)
            if d[0] in ("and", "or"):
                return uses_conv(d[1], seen) or uses_conv(d[2], seen)
            return any(r not in seen and uses_conv(asts.get(r), seen + (r,)) for r in refs(d))
        # while a converter job is in flight its body may already have stored output that its completion has not yet
        # announced to the tags (they become uncertain in the completion): tags on converter output are compared at rest
        conv_pending = {tn for tn in st["tags"] if st["fconv"] and uses_conv(asts.get(tn))}
        # ---- C06: decided => matches == truth
        for tn, t in st["tags"].items():
            tr = tsets[tn]
            if tr is None or tn in conv_pending:
                continue
            U, M = set(t["u"]), set(t["m"])
            for sid in streams:
                if sid in U:
                    stats["undecided"] += 1
                    continue
                stats["decided_checks"] += 1
                if (sid in M) != (sid in tr):
                    F.append(Finding("C06", "stale-decided", name, i,
                                     {"tag": tn, "def": t["def"], "stream": sid, "in_matches": sid in M, "truth": sid in tr,
                                      "stream_truth": {k: v for k, v in streams[sid].items() if k != "cl"},
                                      "refs": sorted(refs(asts[tn])) if asts[tn] else []}))
        # ---- C06 (view): HasTag / AllTags of a fresh view with all tags prefetched
        if fresh.get("prefetchErr"):
            # the view could not prefetch the tags (a tag whose evaluation fails is still undecided): an error, not a
            # silently wrong answer; only allowed while such a tag is undecided
            if not any(t["u"] and asts.get(tn) is not None and any(c not in st["cache"] for c in conv_names(asts[tn]))
                       for tn, t in st["tags"].items()):
                F.append(Finding("C06", "view-prefetch-error", name, i, fresh["prefetchErr"]))
        for s in ([] if fresh.get("prefetchErr") else fresh.get("streams", [])):
            want = sorted(tn for tn, tr in tsets.items() if tr is not None and tn not in conv_pending and s["id"] in tr)
            known = [tn for tn in s["has"] if tsets.get(tn) is not None and tn not in conv_pending]
            stats["view_checks"] += 1
            if known != want or sorted(t for t in s["tags"] if tsets.get(t) is not None and t not in conv_pending) != want:
                F.append(Finding("C06", "view-hastag", name, i, {"stream": s["id"], "has": s["has"], "alltags": s["tags"], "truth": want}))
        # ---- C06 (view kept open): every search through the same view = ground truth, whatever was prefetched before
        if act[0] == "viewsearch" and res == "ok" and view_epoch.get(act[1]) == epoch:
            q = defs.get(act[2])

            def uses_time(d, seen=()):
                if d is None:
                    return True
                if "time" in klass(d):
                    return True
                return any(r in seen or uses_time(asts.get(r), seen + (r,)) for r in refs(d))
            if q is not None and not uses_time(q) and not uses_conv(q) and all(tsets.get(r) is not None for r in refs(q)):
                stats["view_checks"] += 1
                want = sorted(sid for sid in streams if eval_def(q, sid, streams, lambda tn: tsets.get(tn) or set()))
                got = [o["id"] for o in ln["info"]["streams"]]
                if got != want:
                    F.append(Finding("C06", "view-search", name, i, {"view": act[1], "query": act[2], "prefetch": act[3], "got": got, "truth": want,
                                                                     "shape": inline_shapes(q, view_state[act[1]], asts)}))
                if act[3]:
                    clean = sorted(tn for tn in tsets if tsets[tn] is not None and not uses_time(asts[tn]) and not uses_conv(asts[tn]))
                    for o in ln["info"]["streams"]:
                        wt = [tn for tn in clean if o["id"] in tsets[tn]]
                        if [tn for tn in o["has"] if tn in clean] != wt or sorted(tn for tn in o["tags"] if tn in clean) != wt:
                            F.append(Finding("C06", "view-search-hastag", name, i,
                                             {"view": act[1], "query": act[2], "stream": o["id"], "has": o["has"], "alltags": o["tags"], "truth": wt}))
        # ---- C16: StreamContext.Data(converter) through a view = the converter's answer for THAT stream (as the view shows it)
        if act[0] == "viewdata" and isinstance(ln.get("info"), dict) and act[3] in st["cache"]:
            vi = ln["info"]
            payload = {"c": vi["c"], "s": vi["s"]}
            cur = streams.get(act[2])
            if cur is None or (cur["c"], cur["s"]) != (vi["c"], vi["s"]) or st["fconv"] or act[2] in st["toconv"].get(act[3], []):
                pass        # an old view / output about to be replaced: the cache oracle below decides
            elif conv_bad(act[3], payload):
                F.append(Finding("C16", "view-data-output", name, i, {"conv": act[3], "stream": act[2], "got": vi["out"], "want": "an error (invalid direction)"}))
            elif vi["out"] != conv_expected(act[3], payload):
                F.append(Finding("C16", "view-data-output", name, i, {"conv": act[3], "stream": act[2], "got": vi["out"], "want": conv_expected(act[3], payload)}))
        # ---- C16: cache version
        inflight = st["fconv"]
        if inflight:
            stats["inflight_steps"] += 1
        attached = {}
        for tn, t in st["tags"].items():
            for c in t["conv"]:
                attached.setdefault(c, []).append(tn)
        # a tag that keeps converters matches on neither stream data nor other tags (attachConverterToTag, UpdateTag)
        for tn, t in st["tags"].items():
            if t["conv"] and (((t["mf"] | t["sf"]) & F_DATA) or t["mt"] or t["st"]):
                F.append(Finding("C16", "converter-on-complex-tag", name, i, {"tag": tn, "def": t["def"], "conv": t["conv"]}))
        for c, m in st["cache"].items():
            for sid_s, out in m.items():
                sid = int(sid_s)
                stats["cache_checks"] += 1
                if sid not in streams:
                    F.append(Finding("C16", "cache-unknown-stream", name, i, {"conv": c, "stream": sid}))
                    continue
                if out != conv_expected(c, streams[sid], conv_gen.get(c, 0)):
                    if inflight or sid in st["toconv"].get(c, []):
                        stats["stale_allowed"] += 1
                        continue
                    F.append(Finding("C16", "stale-output", name, i,
                                     {"conv": c, "stream": sid, "cached": out, "want": conv_expected(c, streams[sid], conv_gen.get(c, 0)),
                                      "attached_to": attached.get(c, [])}))
        for c in st["toconv"]:
            if c not in attached and not inflight and st["toconv"][c]:
                F.append(Finding("C16", "queued-after-detach", name, i, {"conv": c, "queued": st["toconv"][c]}))
        # detach (C16_detach_dequeues): right after a converter was taken from a tag (set-converter / delete), none of
        # the tag's streams is queued for it any more unless another tag with the converter matches the stream -- also
        # while a converter job is in flight
        if prev_st is not None:
            for tn, pt in prev_st["tags"].items():
                for c in pt["conv"]:
                    if tn in st["tags"] and c in st["tags"][tn]["conv"]:
                        continue
                    others = set()
                    for xn, xt in st["tags"].items():
                        if xn != tn and c in xt["conv"]:
                            others |= set(xt["m"])
                    bad = sorted((set(st["toconv"].get(c, [])) & set(pt["m"])) - others)
                    if bad:
                        F.append(Finding("C16", "queued-after-detach", name, i, {"conv": c, "tag": tn, "queued": bad, "at": "detach"}))
                    # ... and what another tag with the converter still matches stays queued (a converter job that was and
                    # still is in flight cannot have taken the queue)
                    if prev_st["fconv"] and st["fconv"]:
                        lost = sorted((set(prev_st["toconv"].get(c, [])) & others) - set(st["toconv"].get(c, [])))
                        if lost:
                            F.append(Finding("C16", "dequeued-although-matched", name, i, {"conv": c, "tag": tn, "lost": lost}))
        prev_st = st
        # ---- quiescence (C09) + C16 completeness
        if act[0] == "settle":
            info = ln["info"]
            quiet = (not st["queue"] and not st["fmerge"] and not st["ftag"] and not st["fconv"] and not st["jobs"]
                     and all(not v for v in st["toconv"].values()) and all(not t["u"] for t in st["tags"].values()))
            if res != "quiescent":
                F.append(Finding("C09", "budget-overrun", name, i, info))
            elif not quiet:
                F.append(Finding("C09", "not-quiescent", name, i,
                                 {"queue": st["queue"], "flags": [st["fmerge"], st["ftag"], st["fconv"]], "toconv": st["toconv"],
                                  "uncertain": {tn: t["u"] for tn, t in st["tags"].items() if t["u"]}, "jobs": st["jobs"]}))
            elif st["mergeEligible"]:
                F.append(Finding("C09", "eligible-merge-not-started", name, i, {"idxcnt": st["idxcnt"], "unmerge": st["unmerge"]}))
            budget = completion_budget(scn, st)
            if info["completions"] > budget:
                F.append(Finding("C09", "too-many-completions", name, i, {"completions": info["completions"], "budget": budget}))
            if quiet:
                for c, tns in attached.items():
                    need = set()
                    for tn in tns:
                        need |= set(st["tags"][tn]["m"])
                    miss = sorted(sid for sid in need if sid in streams and str(sid) not in st["cache"].get(c, {})
                                  and not conv_bad(c, streams[sid]))
                    if miss:
                        F.append(Finding("C16", "missing-output-at-quiescence", name, i, {"conv": c, "streams": miss, "tags": tns}))
                        # the same state seen from C09: the service is idle although converter work of an attached tag is undone
                        F.append(Finding("C09", "converter-work-undone-at-rest", name, i, {"conv": c, "streams": miss, "tags": tns}))
    for f in F:
        if f.li < 0:
            f.li = len(lines) - 1 if not lines or lines[-1]["i"] != -2 else len(lines) - 2
    check_scenario.per_line = per_line
    return F, stats


_check_inner = None


def completion_budget(scn, st):
    """generous bound on the completions one settle may need (the Coq measure is the exact one):
    imports + per import a re-tag of every tag at every reference depth + converter runs + merges"""
    nt = len(st["tags"]) + 1
    return 4 + len(scn["files"]) * 2 + 3 * nt * (nt + 1) + 4 * (len(scn["converters"]) + 1) * nt + 2 * (st["nidx"] + len(scn["files"]))


# ---------------------------------------------------------------------------- model replay
KF_IDS = ["lost-inherited-invalidation", "idonly-added-streams", "reset-not-invalidated", "inflight-update",
          "merge-not-restarted-after-convert", "stale-view-store", "detach-reset-data-tags"]
F_ID, F_PROTO, F_PORT, F_HOST, F_TABS, F_TREL, F_TAGS, F_DATA = 1, 2, 4, 8, 16, 32, 64, 128


def features(d):
    """(main, sub, maintags, subtags) of an AST, after Features() in conditions.go"""
    k = d[0]
    if k == "id":
        return F_ID, 0, set(), set()
    if k in ("cport", "sport"):
        return F_PORT, 0, set(), set()
    if k == "chost":
        return F_HOST, 0, set(), set()
    if k == "numvar":
        return (F_ID if d[1] == "id" else F_PORT) | F_DATA, 0, set(), set()
    if k in ("cdata", "sdata", "data", "cdatac"):
        return F_DATA, 0, set(), set()
    if k == "ltime":
        return F_TABS, 0, set(), set()
    if k == "ref":
        return F_TAGS, 0, {d[1]}, set()
    if k == "sub":
        return F_PORT, F_PORT | F_TAGS, set(), {d[1]}
    if k == "not":
        return features(d[1])
    a, b = features(d[1]), features(d[2])
    return a[0] | b[0], a[1] | b[1], a[2] | b[2], a[3] | b[3]


def rank(name):
    return TAGNAMES.index(name)


def bits(l):
    v = 0
    for x in l:
        v |= 1 << int(x)
    return v


class Registry:
    def __init__(self):
        self.ids = {}

    def get(self, s):
        if s not in self.ids:
            self.ids[s] = len(self.ids) + 1
        return self.ids[s]


def defspec(reg, defstr, mf, sf, mt, st, mark):
    idonly = (mf & ~F_ID) == 0 and sf == 0
    return "%d:%d:%d:%d:%d:%s:%s:%d" % (reg.get(defstr), int(idonly), int(sf != 0), int((mf & (F_DATA | F_TABS | F_TREL)) != 0),
                                        int(((mf | sf) & F_DATA) != 0), ";".join(str(rank(t)) for t in sorted(mt, key=rank)),
                                        ";".join(str(rank(t)) for t in sorted(st, key=rank)), int(mark))


def proj_from_dump(st, streams, reg, scn):
    convs = sorted(scn["converters"])
    tg = []
    for tn in sorted(st["tags"], key=rank):
        t = st["tags"][tn]
        m, u = bits(t["m"]), bits(t["u"])
        tg.append("%d:%d:%d:%d:%d" % (rank(tn), reg.get(t["def"]), m & ~u, u, bits(convs.index(c) for c in t["conv"])))
    ph = {"import": "0", "tag": "0", "convert": "0", "merge": "0"}
    for j in st["jobs"]:
        k, p = j.split(":")
        ph[k] = {"0": "1", "2": "2"}.get(p, "?")
    tc = ";".join("%d:%d" % (i, bits(st["toconv"].get(c, []))) for i, c in enumerate(convs))
    ca = []
    for i, c in enumerate(convs):
        cur = stale = 0
        for sid_s, out in st["cache"].get(c, {}).items():
            sid = int(sid_s)
            if sid in streams and out == conv_expected(c, streams[sid]):
                cur |= 1 << sid
            else:
                stale |= 1 << sid
        ca.append("%d:%d:%d" % (i, cur, stale))
    return "next=%d|tags=%s|j=%s%s%s%s|q=%s|tc=%s|ca=%s|ix=%s|me=%s" % (
        st["next"], ";".join(tg), ph["tag"], ph["convert"], ph["merge"], ph["import"], ",".join(map(str, st["queue"])), tc,
        ";".join(ca), ",".join(map(str, st["idxcnt"])), "1" if st["mergeEligible"] else "0")


def job_files(scn, taken):
    """(processedFiles, files whose packets are imported) of an import job started with the queue `taken`
    (builder.FromPcap: an unreadable first capture = 1 processed file + error; a later one ends the job before it)"""
    corrupt = set(scn.get("corrupt", ()))
    if not taken:
        return 0, []
    if taken[0] in corrupt:
        return 1, []
    used = []
    for f in taken:
        if f in corrupt:
            break
        used.append(f)
    return len(used), used


def import_response(scn, done, taken, flow_ids, next_after):
    """(proc, upd, rst, add, next, idx) of an import job that takes files `taken` when `done` are completed"""
    old, new = {}, {}
    corrupt = set(scn.get("corrupt", ()))
    proc, taken = job_files(scn, taken)
    for fi in done:
        if fi in corrupt:
            continue
        for p in scn["files"][fi]:
            old.setdefault(p["flow"], []).append(p["t"])
    for fi in taken:
        for p in scn["files"][fi]:
            new.setdefault(p["flow"], []).append(p["t"])
    upd = rst = add = 0
    for fl, ts in new.items():
        sid = flow_ids.get(fl)
        if sid is None:
            return None
        if fl not in old:
            add |= 1 << sid
        elif min(ts) < min(old[fl]):
            rst |= 1 << sid
        else:
            upd |= 1 << sid
    touched = upd | rst | add
    return "bimport %d %d %d %d %d %s" % (proc, upd, rst, add, next_after, str(touched) if touched else "-")


def model_cases(scn, lines, kfs, per_line):
    """text for the model driver + list of line indexes; per_line[i] = (streams, done) computed by check_scenario"""
    reg = Registry()
    convs = sorted(scn["converters"])
    out = ["K " + " ".join("1" if k in kfs else "0" for k in KF_IDS), "S %s %s" % (scn["name"], ",".join(str(i) for i in range(len(convs))))]
    idxs = []
    defs = scn["defs"]
    tag_snap = None
    conv_snap = None
    pool_live = True
    out_lines = out
    imp_taken = None
    prev_jobs = []
    for li, ln in enumerate(lines):
        st = ln.get("state")
        if st is None or li not in per_line:
            break
        streams, done_before, done_after = per_line[li]
        act, res = ln["act"], ln["res"]
        exp = proj_from_dump(st, streams, reg, scn)
        a = "nop"
        k = act[0]
        if (k in ("resetconv", "convreset") and res != "noop") or (k == "failmerge" and res == "ok"):
            break       # ResetConverter / a failing merge are not in the manager model: the direct oracles go on, the replay ends here

        def spec_for(tn, defstr, ast):
            t = st["tags"].get(tn)
            mark = tn.startswith("mark/") or tn.startswith("generated/")
            if t is not None and t["def"] == defstr:
                return defspec(reg, defstr, t["mf"], t["sf"], t["mt"], t["st"], mark)
            mf, sf, mt, stt = features(ast) if ast else (F_ID, 0, set(), set())
            return defspec(reg, defstr, mf, sf, mt, stt, mark)
        if k == "import":
            a = "import " + (",".join(map(str, act[1])) or "-")
        elif k == "addtag":
            mk = act[1].startswith("mark/") or act[1].startswith("generated/")
            tt = st["tags"].get(act[1])
            a = "addtag %d %s %d" % (rank(act[1]), spec_for(act[1], act[2], parse_mark_def(act[2]) if mk else defs.get(act[2])),
                                     bits(tt["m"]) if (mk and tt is not None and tt["def"] == act[2]) else 0)
        elif k == "addmark":
            d = ln.get("info") or "id:-1"
            ast = parse_mark_def(d)
            a = "addtag %d %s %d" % (rank(act[1]), spec_for(act[1], d, ast), bits(ast[1]))
        elif k == "deltag":
            a = "deltag %d" % rank(act[1])
        elif k == "query":
            a = "query %d %s" % (rank(act[1]), spec_for(act[1], act[2], defs.get(act[2])))
        elif k in ("markadd", "markdel"):
            t = st["tags"].get(act[1])
            did = reg.get(t["def"]) if t else 0
            a = "%s %d %s %d" % (k, rank(act[1]), ",".join(map(str, act[2])) or "-", did)
        elif k == "setconv":
            a = "setconv %d %s" % (rank(act[1]), ",".join(str(convs.index(c)) for c in act[2] if c in convs) or "-")
            if scn.get("pool") in act[2]:
                pool_live = False
        elif k in ("step", "stepkind", "substep"):
            if res == "import.start":
                # ids of the flows and next id: from the first later dump in which this import is completed
                resp = None
                nproc, used = job_files(scn, imp_taken or [])
                for lj in range(li + 1, len(lines)):
                    if lj in per_line and set((imp_taken or [])[:nproc]) <= set(per_line[lj][2]):
                        s2 = per_line[lj][0]
                        fl_ids = {}
                        fl2 = Truth(scn)
                        fl2.done = list(per_line[lj][2])
                        for fl, o in fl2.flows().items():
                            for sid, so in s2.items():
                                if so is o or (so["cp"], so["sp"], so["ch"]) == (o["cp"], o["sp"], o["ch"]):
                                    fl_ids[fl] = sid
                        # the next id right after this import: ids of flows present once done+taken are imported
                        t3 = Truth(scn)
                        t3.done = list(done_before) + list(used)
                        nxt = 1 + max([fl_ids[f] for f in t3.flows() if f in fl_ids] + [-1])
                        resp = import_response(scn, done_before, imp_taken or [], fl_ids, nxt)
                        break
                a = resp or "bimport %d 0 0 0 %d -" % (nproc, st["next"])
            elif res == "tag.start":
                tab = []
                if tag_snap is not None:
                    sst, sstreams = tag_snap
                    # index snapshot of the job's creation, converter cache as it is when the body runs
                    pc = next((lines[lj]["state"]["cache"] for lj in range(li - 1, -1, -1) if lines[lj].get("state")), {})
                    sstreams = {sid: dict(o, conv={c: m.get(str(sid)) for c, m in pc.items()}) for sid, o in sstreams.items()}
                    asts = {}
                    for tn, t in sst["tags"].items():
                        asts[tn] = parse_mark_def(t["def"]) if (tn.startswith("mark/") or tn.startswith("generated/")) else defs.get(t["def"])

                    def val(tn):
                        return set(sst["tags"][tn]["m"]) if tn in sst["tags"] else set()
                    for tn, d in asts.items():
                        if d is None:
                            continue
                        tab.append("%d=%d" % (rank(tn), bits(sid for sid in sstreams if eval_def(d, sid, sstreams, val))))
                a = "btag " + (";".join(tab) or "-")
            elif res == "convert.start":
                # conversions that fail (discarded after the second attempt): by the payload of the job's index snapshot
                bad = []
                if conv_snap is not None:
                    for ci, c in enumerate(convs):
                        for sid, o in conv_snap.items():
                            if conv_bad(c, o):
                                bad.append("%d:%d" % (ci, sid))
                a = "bconv " + (",".join(bad) or "-")
            elif res == "merge.start":
                a = "bmerge"
            elif res.endswith(".done"):
                a = "complete " + res[:-5]
        elif k == "settle":
            a = "nop"
        elif k == "viewopen":
            a = "vopen %d" % act[1]
        elif k == "viewdata":
            if res == "ok" and act[3] in convs:
                a = "vdata %d %d %d" % (act[1], convs.index(act[3]), act[2])
            # the process pool of a converter that is only used on demand (no converter job so far): the extracted pool
            # model (kill rule) answers the same requests
            if scn.get("pool") == act[3] and pool_live and act[2] in streams and (res == "ok" or res.startswith("err:converter")):
                prev = next((lines[lj]["state"]["cache"] for lj in range(li - 1, -1, -1) if lines[lj].get("state")), {})
                if str(act[2]) not in prev.get(act[3], {}):
                    o = streams[act[2]]
                    req = "0:99,1:%d" % (2 * act[2] + 1) if conv_bad(act[3], o) else "1:%d" % (2 * act[2])
                    got = "E"
                    if res == "ok":
                        vout = ln["info"]["out"]
                        got = "X"
                        # (two streams may carry the same payload: the requested stream is tried last = wins)
                        for sid2, o2 in sorted(streams.items(), key=lambda kv: kv[0] == act[2]):
                            if vout == conv_expected(act[3], o2):
                                got = str(2 * sid2)
                            elif vout == "LEFTOVER#" + conv_expected(act[3], o2):
                                got = str(2 * sid2 + 1)
                    out_lines.append("P %s %s || %s" % (act[3], req, got))
                    idxs.append(li)
        elif k == "viewclose":
            a = "vclose %d" % act[1]
        out.append("A %s || %s" % (exp, a))
        idxs.append(li)
        jobs = st["jobs"]
        if "tag:0" in jobs and ("tag:0" not in prev_jobs or res == "tag.done"):
            tag_snap = (st, streams)
        if "convert:0" in jobs and ("convert:0" not in prev_jobs or res == "convert.done"):
            conv_snap = streams
        if "import:0" in jobs and ("import:0" not in prev_jobs or res == "import.done"):
            # the job took the whole queue when it was started by a completion, or the files of the first ImportPcaps call
            if k == "import":
                imp_taken = list(act[1])
            else:
                imp_taken = list(st["queue"])
        prev_jobs = jobs
    return out, idxs


def run_model(exe, text, tag):
    os.makedirs(RUNDIR, exist_ok=True)
    tag = "%s_p%d" % (tag, os.getpid())      # see run_harness
    cf = os.path.join(RUNDIR, "model_%s.txt" % tag)
    of = os.path.join(RUNDIR, "model_%s.out" % tag)
    open(cf, "w").write("\n".join(text) + "\n")
    rc, out, _ = run([exe, cf, of], timeout=600)
    if rc != 0:
        return None, "model driver rc=%d: %s (input kept: %s)" % (rc, out[-800:], cf)
    lines = [l.rstrip("\n") for l in open(of)]
    if not os.environ.get("VERIF_C06_KEEP"):
        os.remove(cf)
        os.remove(of)
    return lines, ""


# ---------------------------------------------------------------------------- known findings
KF_PROP = {"lost-inherited-invalidation": "C06", "idonly-added-streams": "C06", "reset-not-invalidated": "C16",
           "inflight-update": "C16", "stale-view-store": "C16", "merge-not-restarted-after-convert": "C09",
           "detach-reset-data-tags": "C06"}
OTHER_KNOWN = {"view-time-reftime": "C06", "convert-missing-stream-hang": "C09", "neg-unsat-tag-inline": "C06", "neg-subquery-tag-inline": "C06", "subquery-tag-inline": "C06"}


def load_known(prop=None):
    """ids of the known findings of C06/C16/C09 (KNOWN_FINDINGS.txt + the development copy notes/C06.known.local)"""
    ids, fixed = {}, []
    if os.environ.get("VERIF_C06_KNOWN") is not None:      # development / mutation runs: exactly these ids
        return {k: (KF_PROP.get(k) or OTHER_KNOWN.get(k)) for k in os.environ["VERIF_C06_KNOWN"].split(",") if k}, []
    for pr in ("C06", "C16", "C09"):
        kn, fx = known_findings(pr)
        for k in kn:
            ids[k.get("id")] = pr
        if pr == prop:
            fixed = fx
    if os.path.exists(LOCAL_KNOWN) and not os.environ.get("VERIF_NO_LOCAL_KNOWN"):
        for line in open(LOCAL_KNOWN):
            line = line.strip()
            if line.startswith("known:"):
                kv = dict(re.findall(r"(\w+)=(\S+)", line))
                ids.setdefault(kv.get("id"), kv.get("property"))
    return ids, fixed


# ---------------------------------------------------------------------------- shared run
def scenarios_for(tier, seed):
    rng = random.Random(seed * 7919 + 6)
    n = 500 if tier == "quick" else 3000
    n = int(os.environ.get("VERIF_C06_N", n))      # development only
    out = []
    cdir = os.path.join(ROOT, "corpus")
    for prop in ("C06", "C16", "C09"):
        d = os.path.join(cdir, prop)
        if os.path.isdir(d):
            for fn in sorted(os.listdir(d)):
                if fn.endswith(".json"):
                    s = json.load(open(os.path.join(d, fn)))["scenario"]
                    s["name"] = "corpus-%s-%s" % (prop, fn[:-5])
                    out.append(s)
    for i in range(n):
        out.append(gen_scenario(rng, "g%04d" % i, rng.choice([12, 20, 30, 40])))
    for i in range(n // 3):
        out.append(gen_template(rng, "t%04d" % i))
    return out


def to_ast(x):
    if isinstance(x, list):
        if x and isinstance(x[0], str) and x[0] in ("id", "cport", "sport"):
            return (x[0], list(x[1]))
        return tuple(to_ast(y) for y in x)
    return x


def shared_run(tier, seed):
    """runs (or loads) the scenario run shared by C06, C16 and C09"""
    os.makedirs(RUNDIR, exist_ok=True)
    key = "%s_%d_%s%s" % (tier, seed, tree_state(), os.environ.get("VERIF_C06_N", ""))
    cache = os.path.join(RUNDIR, "shared_%s.json" % key)
    with Lock("c06run"):
        if os.path.exists(cache) and time.time() - os.path.getmtime(cache) < 3600:
            return json.load(open(cache))
        t0 = time.time()
        scns = scenarios_for(tier, seed)
        res, note, dt = run_sharded(scns, "main", 6 if tier == "quick" else 12, timeout=600 if tier == "quick" else 3000)
        out = {"scenarios": scns, "results": res, "note": note, "go_s": dt, "wall_s": time.time() - t0, "key": key}
        tmp = "%s.%d.tmp" % (cache, os.getpid())
        json.dump(out, open(tmp, "w"))
        os.replace(tmp, cache)
        for fn in os.listdir(RUNDIR):   # keep the directory small
            pth = os.path.join(RUNDIR, fn)
            if fn.startswith("shared_") and pth != cache and time.time() - os.path.getmtime(pth) > 7200:
                os.remove(pth)
        return json.load(open(cache))


def model_exe():
    return build_model("C06", "ExtractC06.v", os.path.join(ROOT, "ocaml/c06"), ["theories/Tags.v", "theories/TagsC16P.v"])[0]


def setup():
    """bin/check --setup: extraction + OCaml driver of the shared manager model (C06, C16, C09) and a warm Go test build"""
    model_exe()
    run_harness([], "setup", timeout=900)
    return 0


def model_divergence(exe, scns, results, per_lines, kfs, tag):
    """first diverging line index per scenario (None = the model follows the implementation to the end)"""
    text, maps = [], []
    for s in scns:
        t, idxs = model_cases(s, results.get(s["name"], []), kfs, per_lines[s["name"]])
        text += t
        maps.append((s["name"], idxs))
    out, err = run_model(exe, text, tag)
    if out is None:
        raise RuntimeError(err)
    by, cur = {}, None
    for l in out:
        if l.startswith("S "):
            cur = l[2:]
            by[cur] = []
        elif cur is not None:
            by[cur].append(l)
    div, detail, oks = {}, {}, 0
    for name, idxs in maps:
        div[name] = None
        for j, l in enumerate(by.get(name, [])):
            if l.startswith("OK"):
                oks += 1
            if l.startswith("DIVERGE"):
                div[name] = idxs[j]
                detail[name] = l
                break
    return div, detail, oks


def diverging_fields(line):
    e = line.split(" got=")[0][len("DIVERGE expected="):]
    g = line.split(" got=")[1].split(" ;; ")[0]
    fe = dict(x.split("=", 1) for x in e.split("|"))
    fg = dict(x.split("=", 1) for x in g.split("|")) if "=" in g else {}
    return sorted(k for k in fe if fe.get(k) != fg.get(k))


def divergence_owner(fields):
    """a divergence is reported once, by the property that owns the most upstream field that differs"""
    for pr in ("C06", "C16", "C09"):
        if any(FIELD_PROP.get(k, "C06") == pr for k in fields):
            return pr
    return "C06"


FIELD_PROP = {"tags": "C06", "next": "C06", "tc": "C16", "ca": "C16", "pool": "C16", "j": "C09", "q": "C09", "ix": "C09", "me": "C09"}


def analyse(shared, exe):
    """oracle findings + model correspondence + attribution to known findings for the whole run"""
    scns = shared["scenarios"]
    for s in scns:
        s["defs"] = {k: to_ast(v) for k, v in s.get("defs", {}).items()}
    known, _ = load_known()
    K = {k for k in known if k in KF_PROP}
    allF, total, per_lines = [], {}, {}
    for s in scns:
        lines = shared["results"].get(s["name"], [])
        if not lines:
            allF.append(Finding("GT", "scenario-not-run", s["name"], -1, shared["note"][-400:]))
            per_lines[s["name"]] = {}
            continue
        F, stats = check_scenario(s, lines)
        per_lines[s["name"]] = check_scenario.per_line
        allF += F
        for k, v in stats.items():
            total[k] = total.get(k, 0) + v
    div, detail, oks = model_divergence(exe, scns, shared["results"], per_lines, K, "main")
    failing = {f.scn for f in allF}
    sub = [s for s in scns if s["name"] in failing]
    without = {}
    for kid in sorted(K):
        without[kid], _, _ = model_divergence(exe, sub, shared["results"], per_lines, K - {kid}, "wo")
    byscn = {}
    for f in allF:
        byscn.setdefault(f.scn, []).append(f)
    res = {"known": {}, "viol": [], "gt": [f for f in allF if f.prop == "GT"], "div": div, "detail": detail, "oks": oks,
           "total": total, "K": sorted(K), "known_ids": known}

    def attribute(f):
        """id of the known finding that explains f, or None"""
        d = div.get(f.scn)
        if f.kind in ("stale-decided", "stale-output", "queued-after-detach", "dequeued-although-matched", "missing-output-at-quiescence", "converter-work-undone-at-rest", "eligible-merge-not-started"):
            if d is not None and d <= f.li:
                return None         # the model does not explain this state
            resp = [kid for kid in sorted(K) if KF_PROP[kid] == f.prop and without[kid].get(f.scn) is not None and without[kid][f.scn] <= f.li]
            return resp[0] if resp else None
        if f.kind == "view-search":
            sh = f.detail.get("shape") or []
            return sh[0] if sh and all(x in known for x in sh) else None
        if f.kind == "view-hastag":
            lines = shared["results"][f.scn]
            st = lines[f.li]["state"]
            sid = f.detail["stream"]
            stale = {x.detail["tag"]: attribute(x) for x in byscn[f.scn] if x.kind == "stale-decided" and x.li == f.li}
            cause = None
            for T in set(f.detail["has"]) ^ set(f.detail["truth"]):
                c = root_cause(T, st, stale, ())
                if c is None:
                    return None
                cause = cause or c
            return cause if cause in known else None
        if f.kind == "hang-or-panic" and "convert-missing-stream-hang" in known:
            lines = shared["results"][f.scn]
            prev = [l for l in lines[:f.li + 1] if l.get("state")]
            if "HANG job body convert" in str(f.detail) and prev:
                st = prev[-1]["state"]
                if any(t["conv"] and any(i >= st["next"] for i in t["m"]) for t in st["tags"].values()):
                    return "convert-missing-stream-hang"
        return None

    def root_cause(T, st, stale, seen):
        t = st["tags"].get(T)
        if t is None or T in seen:
            return None
        if T in stale:
            return stale[T]          # the view shows what the manager decided (wrongly): same cause
        if "ltime" in t["def"] and t["u"]:
            return "view-time-reftime"
        for r in t["mt"] + t["st"]:
            c = root_cause(r, st, stale, seen + (T,))
            if c:
                return c
        return None
    for f in allF:
        if f.prop == "GT":
            continue
        kid = attribute(f)
        if kid:
            res["known"].setdefault((f.prop, kid), []).append(f)
        else:
            res["viol"].append(f)
    return res, {s["name"]: s for s in scns}


def main_for(PROP, tier, seed, replay=None):
    t0 = time.time()
    sys.setrecursionlimit(10000)
    proof = Proof(PROP, tier=tier) if os.path.exists(os.path.join(COQ, "props", PROP + ".v")) else None
    exe = model_exe()
    if replay:
        return do_replay(PROP, replay, exe)
    shared = shared_run(tier, seed)
    res, scns = analyse(shared, exe)
    nviol = 0
    _, fixed = load_known(PROP)
    for (pr, kid), fs in sorted(res["known"].items()):
        if pr == PROP:
            print("KNOWN-FINDING: property=%s id=%s %s (%d observations in %d scenarios, first: scenario %s step %d)" %
                  (PROP, kid, fs[0].kind, len(fs), len({f.scn for f in fs}), fs[0].scn, fs[0].step), flush=True)
    mine = [f for f in res["viol"] if f.prop == PROP]
    # a scenario where the model stops following the implementation, attributed by the projection field that differs
    mdiv = [(n, l) for n, l in sorted(res["detail"].items()) if PROP == divergence_owner(diverging_fields(l))]
    if mine:
        f = mine[0]
        small = minimise(scns[f.scn], f, PROP, exe)
        violation(PROP, {"property": PROP, "finding": f.as_dict(), "scenario": small, "seed": seed,
                         "model": res["detail"].get(f.scn, "model follows the implementation on this scenario")[:1500],
                         "others": [x.as_dict() for x in mine[1:6]], "n_failing": len(mine),
                         "replay_cmd": "bin/check %s --replay <this file>" % PROP})
        nviol += 1
    elif res["gt"] or shared["note"]:
        f = res["gt"][0] if res["gt"] else None
        violation(PROP, {"property": PROP, "broken": "scenario harness could not run / ground truth unusable on this tree",
                         "note": shared["note"][-1500:], "first": f.as_dict() if f else None,
                         "scenario": scns.get(f.scn) if f else None}, no_input=True)
        nviol += 1
    elif mdiv and targeted_search(PROP, mdiv, seed, exe):
        nviol += 1
    elif mdiv:
        n, l = mdiv[0]
        violation(PROP, {"property": PROP, "broken": "correspondence: the extracted model (theories/Tags.v, switches %s) does not follow the implementation although no oracle fails; the theorems of props/%s.v no longer cover this tree" % (res["K"], PROP),
                         "scenario": scns[n], "divergence": l[:3000], "fields": diverging_fields(l), "n_diverging": len(mdiv)}, no_input=True)
        nviol += 1
    if proof is not None and not proof.good() and nviol == 0:
        violation(PROP, {"property": PROP, "broken": proof.failure_text(), "searched_scenarios": len(scns)}, no_input=True)
        nviol += 1
    cov = proof.coverage() if proof is not None else {"obligations": 0, "discharged": 0, "checker_cmd": "(Coq part not built yet)"}
    acts = {}
    for s in scns.values():
        for a in s["actions"]:
            acts[a[0]] = acts.get(a[0], 0) + 1
    cov.update({
        "trusted_base": TRUSTED_COMMON + [
            "gate hook verifGate in manager.go (commit 913d8a0), gate controller + forwarding job channel of harness/c06 (closures are attributed to jobs by the name of their enclosing function)",
            "ground truth = generator's UDP flows (client = sender of the earliest packet, payload = concatenation per direction); checked against the implementation's streams at every step",
            "tag definitions restricted to the generated family (id, port, host, data, ltime, main-tag reference, sub-query reference, not/and/or); mark tags only over existing streams",
            "deterministic converter script (python3) written by the harness: output = name#hex(clientbytes)#hex(serverbytes)",
            "model responses (import result masks, search result of a tagging job) are computed by the Python side from the ground truth and the job's snapshot dump"],
        "evaluations": res["total"].get("steps", 0),
        "distinct_nontrivial": len({json.dumps(s["actions"]) for s in scns.values() if len(s["actions"]) >= 8}),
        "rule": "seeded scenarios (12-40 actions + final settle) on a real Manager with every background job parked at its start/done gates; non-trivial = >= 8 actions, distinct by action list; three oracles after every action; extracted model replayed action by action (set simulation over the tagging-job choice)",
        "scenarios": len(scns),
        "action_distribution": acts,
        "oracle_stats": res["total"],
        "model_steps_equal": res["oks"],
        "model_diverging_scenarios": len(res["detail"]),
        "model_switches_faithful": res["K"],
        "known_findings_hit": {"%s/%s" % k: len(v) for k, v in res["known"].items()},
        "fixed_findings": fixed,
        "harness_wall_s": shared["wall_s"],
        "samples": [list(scns.values())[-1]["actions"][:12]],
        "disagreements": nviol,
    })
    write_evidence(PROP, tier, seed, cov,
                   ["job bodies terminate (converter processes answer, query parsing terminates)",
                    "no goroutine preemption inside a service-loop closure matters (C20)",
                    "the reference graph of tags respects a fixed ranking of tag names (model); C11 owns acyclicity"],
                   time.time() - t0, nviol)
    return 1 if nviol else 0


def targeted_search(PROP, mdiv, seed, exe):
    """the model stopped following the implementation but no oracle failed: look for a failing input in the scenario
    families that exercise the first diverging field (thorough budget), plus mutations of the diverging scenario"""
    fields = diverging_fields(mdiv[0][1])
    fams = []
    for k in fields:
        for f in FAMILY_OF_FIELD.get(k, []):
            if f not in fams:
                fams.append(f)
    fams = fams or ["tagjob-import", "tagjob-refchg", "convjob-2imp", "view-import"]
    rng = random.Random(seed * 104729 + 17)
    scns = [gen_template(rng, "s%04d" % i, fams[i % len(fams)]) for i in range(1200)]
    res, note, dt = run_sharded(scns, "search", 8, timeout=900)
    shared = {"scenarios": scns, "results": res, "note": note, "wall_s": dt}
    r2, smap = analyse(shared, exe)
    mine = [f for f in r2["viol"] if f.prop == PROP]
    log("targeted search (%s; families %s): %d scenarios, %d unexplained findings for %s" % (fields, fams, len(scns), len(mine), PROP))
    if not mine:
        return False
    f = min(mine, key=lambda x: len(smap[x.scn]["actions"]))
    small = minimise(smap[f.scn], f, PROP, exe)
    violation(PROP, {"property": PROP, "finding": f.as_dict(), "scenario": small, "seed": seed,
                     "found_by": "targeted search after a model divergence in fields %s (families %s)" % (fields, fams),
                     "model": mdiv[0][1][:1500], "n_failing": len(mine), "others": [x.as_dict() for x in mine[1:6]],
                     "replay_cmd": "bin/check %s --replay <this file>" % PROP})
    return True


def analyse_one(scn, exe, tag):
    res, note, _ = run_harness([scn], tag, timeout=180)
    shared = {"scenarios": [scn], "results": res, "note": note, "wall_s": 0}
    return analyse(shared, exe), shared


def do_replay(PROP, replay, exe):
    obj = json.load(open(replay))
    scn = obj["scenario"]
    scn["name"] = scn.get("name", "replay")
    (res, scns), shared = analyse_one(scn, exe, "replay")
    lines = shared["results"].get(scn["name"], [])
    for ln in lines:
        print(json.dumps({k: ln.get(k) for k in ("i", "act", "res", "info")}))
        if ln.get("state"):
            print("   impl: tags", {k: (v["def"], v["m"], v["u"], v["conv"]) for k, v in ln["state"]["tags"].items()},
                  "toconv", ln["state"]["toconv"], "cache", ln["state"]["cache"], "jobs", ln["state"]["jobs"])
    print("model (faithful switches %s): %s" % (res["K"], res["detail"].get(scn["name"], "follows the implementation on every step")))
    per = {scn["name"]: check_scenario.per_line}
    d2, det2, _ = model_divergence(exe, [scn], shared["results"], per, set(), "replay_rep")
    print("model (repaired, all switches off): %s" % (det2.get(scn["name"], "follows the implementation on every step")[:600]))
    for (pr, kid), fs in sorted(res["known"].items()):
        print("KNOWN-FINDING: property=%s id=%s %s x%d" % (pr, kid, fs[0].kind, len(fs)))
    bad = [f for f in res["viol"] if f.prop == PROP] + res["gt"]
    for f in bad[:10]:
        print("FINDING", json.dumps(f.as_dict()))
    return 1 if bad else 0


def minimise(scn, f, prop, exe):
    """ddmin over the action list (the final settle is kept); an unexplained finding of the same property + kind must remain"""
    acts = scn["actions"]

    def build(sub):
        s = dict(scn)
        s["actions"] = list(sub) + ([acts[-1]] if (not sub or sub[-1][0] != "settle") else [])
        s["name"] = "min"
        return s

    def fails(sub):
        try:
            (res, _), _ = analyse_one(build(sub), exe, "min")
        except Exception:
            return False
        return any(x.prop == prop and x.kind == f.kind for x in res["viol"])
    try:
        small = ddmin(list(acts), fails, max_tests=40)
    except Exception:
        small = acts
    s = build(small)
    s["name"] = scn["name"] + "-min"
    return s


def main(tier, seed, replay=None):
    return main_for("C06", tier, seed, replay)
