"""C06 / C16 / C09 -- tags, uncertainty, converters, settling of the manager's service loop.

One gated scenario run (harness/c06, overlay in package manager, build tag verif) is shared by
the three checks (cached under build/run/c06 keyed by seed + tier + tree state):

  * scenarios = seeded histories of API calls (ImportPcaps, AddTag, UpdateTag query / mark add /
    mark del / set converters, DelTag, view open/read/data/close) interleaved with single gate
    steps of the parked background jobs, ending with "API calls stop; release everything in a
    seeded random order" (settle);
  * direct oracles on the REAL code, independent of any model (ground truth from the generator):
      C06  decided(tag, id) => (id in Matches <-> truth of the tag's current definition on the
           stream's current version), after every action; plus HasTag/AllTags and tag searches of
           a fresh view;
      C16  cached converter output = f(current payload) unless queued / a converter job in flight;
           at quiescence: every stream matching a tag with an attached converter has current output;
           unattached converter => nothing queued;
      C09  settle reaches quiescence within the completion budget (watchdog for hangs), quiescent
           state has empty queue, no uncertain stream, no flag, nothing queued, no eligible merge;
  * the extracted Coq model (theories/Tags.v) replays every history action by action and its
    projected state is compared with the dumps.
"""
import hashlib
import json
import os
import random
import re
import sys
import time

from vplib import *

HARNESS = os.path.join(ROOT, "harness/c06/zz_verif_c06_test.go")
RUNDIR = os.path.join(BUILD, "run", "c06")
WORDS = ["foo", "bar", "baz", "flagX", "GET", "MORE", "qux", "EARLY"]
LOCAL_KNOWN = os.path.join(ROOT, "notes", "C06.known.local")   # development copy of known lines (see notes)


# ---------------------------------------------------------------------------- definitions
# AST: ("id",[..]) ("cport",[..]) ("sport",[..]) ("chost",ip) ("cdata",w) ("sdata",w) ("data",w)
#      ("ltime",sec) ("ref",fullname) ("not",x) ("and",x,y) ("or",x,y) ("sub",fullname,"sport"|"cport")
def render(d, top=True):
    k = d[0]
    if k == "id":
        return "id:" + ",".join(map(str, d[1]))
    if k in ("cport", "sport"):
        return "%s:%s" % (k, ",".join(map(str, d[1])))
    if k == "chost":
        return "chost:" + d[1]
    if k in ("cdata", "sdata", "data"):
        return '%s:"%s"' % (k, d[1])
    if k == "ltime":
        return 'ltime:"2020-01-01 12%02d%02d:"' % (d[1] // 60, d[1] % 60)
    if k == "ref":
        typ, name = d[1].split("/")
        return "%s:%s" % (typ, name)
    if k == "not":
        return "-" + render(d[1], False)
    if k == "and":
        s = render(d[1], False) + " " + render(d[2], False)
        return s if top else "(" + s + ")"
    if k == "or":
        s = render(d[1], False) + " or " + render(d[2], False)
        return s if top else "(" + s + ")"
    if k == "sub":
        typ, name = d[1].split("/")
        return "@s:%s:%s %s:@s:%s@" % (typ, name, d[2], d[2])
    raise ValueError(d)


def refs(d):
    k = d[0]
    if k in ("ref", "sub"):
        return {d[1]}
    if k == "not":
        return refs(d[1])
    if k in ("and", "or"):
        return refs(d[1]) | refs(d[2])
    return set()


def klass(d):
    """feature class of a definition (which branch of invalidateTags it takes)"""
    k = d[0]
    if k == "sub":
        return {"sub"}
    if k == "id":
        return {"id"}
    if k in ("cport", "sport", "chost"):
        return {"porthost"}
    if k in ("cdata", "sdata", "data"):
        return {"data"}
    if k == "ltime":
        return {"time"}
    if k == "ref":
        return {"ref"}
    if k == "not":
        return klass(d[1])
    return klass(d[1]) | klass(d[2])


class Truth:
    """ground truth: streams = flows restricted to the completed capture files"""

    def __init__(self, scn):
        self.scn = scn
        self.done = []          # completed file indexes

    def flows(self):
        """flow index -> dict(cp, sp, ch, sh, c, s, ft, lt) for the completed files"""
        out = {}
        pk = []
        for fi in self.done:
            for p in self.scn["files"][fi]:
                pk.append(p)
        pk.sort(key=lambda p: p["t"])
        for p in pk:
            f = self.scn["flows"][p["flow"]]
            a, b = f["a"], f["b"]
            if p["dir"] == 1:
                a, b = b, a
            o = out.get(p["flow"])
            if o is None:
                ah, ap = a.rsplit(":", 1)
                bh, bp = b.rsplit(":", 1)
                o = out[p["flow"]] = dict(ch=ah, cp=int(ap), sh=bh, sp=int(bp), c="", s="", ft=p["t"], lt=p["t"], cl=a)
            if a == o["cl"]:
                o["c"] += p["data"]
            else:
                o["s"] += p["data"]
            o["lt"] = p["t"]
        return out


def eval_def(d, sid, streams, tagtruth):
    """streams: id -> truth dict; tagtruth(fullname) -> set of ids"""
    k = d[0]
    s = streams[sid]
    if k == "id":
        return sid in d[1]
    if k == "cport":
        return s["cp"] in d[1]
    if k == "sport":
        return s["sp"] in d[1]
    if k == "chost":
        return s["ch"] == d[1]
    if k == "cdata":
        return d[1] in s["c"]
    if k == "sdata":
        return d[1] in s["s"]
    if k == "data":
        return d[1] in s["c"] or d[1] in s["s"]
    if k == "ltime":
        return s["lt"] >= d[1] * 1000
    if k == "ref":
        return sid in tagtruth(d[1])
    if k == "not":
        return not eval_def(d[1], sid, streams, tagtruth)
    if k == "and":
        return eval_def(d[1], sid, streams, tagtruth) and eval_def(d[2], sid, streams, tagtruth)
    if k == "or":
        return eval_def(d[1], sid, streams, tagtruth) or eval_def(d[2], sid, streams, tagtruth)
    if k == "sub":
        key = "sp" if d[2] == "sport" else "cp"
        return any(streams[o][key] == s[key] for o in tagtruth(d[1]) if o in streams)
    raise ValueError(d)


def parse_mark_def(s):
    if s == "id:-1":
        return ("id", [])
    m = re.fullmatch(r"id:([0-9,]+)", s)
    if not m:
        return None
    return ("id", sorted({int(x) for x in m.group(1).split(",")}))


# ---------------------------------------------------------------------------- generator
TAGNAMES = ["mark/m", "mark/n", "generated/g", "tag/a", "tag/b", "tag/c", "tag/d", "service/s"]


def gen_def(rng, scn, name, existing, rank):
    """random definition for tag `name`; may reference existing tags of lower rank only (no cycles)."""
    if name.startswith("mark/") or name.startswith("generated/"):
        n = rng.choice([0, 1, 1, 2])
        return ("id", sorted(rng.sample(range(0, len(scn["flows"])), n))) if n else ("id", [0])
    cports = [int(f["a"].rsplit(":", 1)[1]) for f in scn["flows"]]
    sports = sorted({int(f["b"].rsplit(":", 1)[1]) for f in scn["flows"]})
    lower = [t for t in existing if rank[t] < rank[name]]

    def atom(allow_ref=True):
        r = rng.random()
        if allow_ref and lower and r < 0.38:
            t = rng.choice(lower)
            if rng.random() < 0.25:
                return ("sub", t, rng.choice(["sport", "cport"]))
            return ("ref", t)
        r = rng.random()
        if r < 0.12:
            return ("id", sorted(rng.sample(range(0, len(scn["flows"])), rng.choice([1, 2]))))
        if r < 0.34:
            return ("cport", sorted(rng.sample(cports, rng.choice([1, 2]))))
        if r < 0.50:
            return ("sport", [rng.choice(sports)])
        if r < 0.58:
            return ("chost", rng.choice(scn["flows"])["a"].rsplit(":", 1)[0])
        if r < 0.86:
            return (rng.choice(["cdata", "sdata", "data"]), rng.choice(WORDS))
        return ("ltime", rng.choice([1, 5, 20, 40, 70]))
    a = atom()
    r = rng.random()
    if a[0] == "sub" or r < 0.5:
        return a
    if r < 0.62:
        return ("not", a)
    b = atom()
    if b[0] == "sub":
        return a
    return (rng.choice(["and", "and", "or"]), a, b)


def gen_scenario(rng, name, nact):
    nfl = rng.choice([2, 3, 4, 5])
    sports = [4321, 80]
    flows = []
    for i in range(nfl):
        flows.append({"a": "10.0.0.%d:%d" % (1 + i % 3, 1001 + i), "b": "10.0.1.1:%d" % rng.choice(sports)})
    nfiles = rng.choice([2, 3, 3, 4, 5])
    used = set()

    def ts(lo, hi):
        for _ in range(1000):
            t = rng.randrange(lo, hi)
            if t not in used:
                used.add(t)
                return t
        raise RuntimeError("ts")
    files = []
    for fi in range(nfiles):
        pk = []
        for _ in range(rng.choice([1, 1, 2, 3])):
            fl = rng.randrange(nfl)
            # later files mostly extend (later time), sometimes precede (reset) the flow
            if fi > 0 and rng.random() < 0.2:
                t = ts(0, 10000)
            else:
                t = ts(10000 + fi * 15000, 10000 + (fi + 1) * 15000)
            pk.append({"flow": fl, "dir": 0 if rng.random() < 0.7 else 1, "t": t, "data": rng.choice(WORDS)})
        files.append(pk)
    scn = {"name": name, "flows": flows, "files": files, "converters": ["cva"] if rng.random() < 0.7 else ["cva", "cvb"],
           "searches": [], "actions": [], "defs": {}}
    rank = {t: i for i, t in enumerate(TAGNAMES)}
    existing = {}      # name -> def AST (generator's belief; errors do not matter much)
    imported = []
    views = set()
    acts = scn["actions"]

    def add_def(d):
        s = render(d)
        scn["defs"][s] = d
        return s
    # a prelude that usually creates some streams and tags quickly
    if rng.random() < 0.8:
        acts.append(["import", [0]])
        imported.append(0)
        if rng.random() < 0.7:
            acts.append(["settle", rng.randrange(1 << 20)])
    while len(acts) < nact:
        r = rng.random()
        if r < 0.34:
            acts.append(["step", rng.randrange(6)])
        elif r < 0.44:
            rest = [i for i in range(nfiles) if i not in imported]
            if rest:
                k = 1 if rng.random() < 0.8 else min(2, len(rest))
                # mostly in file order, sometimes out of order
                pick = rest[:k] if rng.random() < 0.75 else rng.sample(rest, k)
                imported += pick
                acts.append(["import", pick])
        elif r < 0.60:
            cand = [t for t in TAGNAMES if t not in existing]
            if cand:
                t = rng.choice(cand)
                d = gen_def(rng, scn, t, list(existing), rank)
                existing[t] = d
                if d[0] == "id" and (t.startswith("mark/") or t.startswith("generated/")):
                    acts.append(["addmark", t, d[1]])
                else:
                    acts.append(["addtag", t, add_def(d)])
        elif r < 0.68:
            cand = [t for t in existing if not t.startswith("mark/") and not t.startswith("generated/")]
            if cand:
                t = rng.choice(cand)
                d = gen_def(rng, scn, t, list(existing), rank)
                existing[t] = d
                acts.append(["query", t, add_def(d)])
        elif r < 0.80:
            cand = [t for t in existing if t.startswith("mark/") or t.startswith("generated/")]
            if cand:
                t = rng.choice(cand)
                ids = sorted(rng.sample(range(0, nfl + 1), rng.choice([1, 1, 2])))
                acts.append([rng.choice(["markadd", "markadd", "markdel"]), t, ids])
        elif r < 0.88:
            if existing:
                t = rng.choice(sorted(existing))
                cs = rng.choice([[], ["cva"], ["cva"], scn["converters"]])
                acts.append(["setconv", t, cs])
        elif r < 0.91:
            cand = [t for t in existing if not any(t in refs(d) for d in existing.values())]
            if cand:
                t = rng.choice(sorted(cand))
                del existing[t]
                acts.append(["deltag", t])
        elif r < 0.97:
            v = rng.randrange(2)
            if v not in views:
                views.add(v)
                acts.append(["viewopen", v])
            else:
                q = rng.random()
                if q < 0.4:
                    acts.append(["viewread", v])
                elif q < 0.7 and scn.get("viewdata", True):
                    acts.append(["viewdata", v, rng.randrange(nfl), rng.choice(scn["converters"])])
                else:
                    views.discard(v)
                    acts.append(["viewclose", v])
        else:
            acts.append(["settle", rng.randrange(1 << 20)])
    acts.append(["settle", rng.randrange(1 << 20)])
    scn["searches"] = []
    return scn


# ---------------------------------------------------------------------------- running the harness
def tree_state():
    rc, head, _ = run(["git", "-C", REPO, "rev-parse", "HEAD"])
    rc, diff, _ = run(["git", "-C", REPO, "diff", "HEAD", "--", "internal", "go.mod"])
    h = hashlib.sha256()
    h.update(head.encode())
    h.update(diff.encode())
    h.update(open(HARNESS, "rb").read())
    h.update(open(__file__.replace(".pyc", ".py"), "rb").read())
    return h.hexdigest()[:16]


def run_harness(scenarios, tag, timeout=900):
    os.makedirs(RUNDIR, exist_ok=True)
    cf = os.path.join(RUNDIR, "cases_%s.json" % tag)
    of = os.path.join(RUNDIR, "impl_%s.out" % tag)
    json.dump({"scenarios": [{k: v for k, v in s.items() if k != "defs"} for s in scenarios]}, open(cf, "w"))
    if os.path.exists(of):
        os.remove(of)
    ov = go_overlay({"internal/index/manager/zz_verif_c06_test.go": HARNESS}, "c06_" + tag)
    rc, out, dt = go_test("./internal/index/manager/", ov, "^TestVerifC06$", {"VERIF_CASES": cf, "VERIF_OUT": of}, timeout=timeout)
    note = "" if rc == 0 else "go harness rc=%d: %s" % (rc, out[-2500:])
    res = {}
    if os.path.exists(of):
        for line in open(of):
            try:
                d = json.loads(line)
            except ValueError:
                continue
            res.setdefault(d["scn"], []).append(d)
    return res, note, dt


def run_sharded(scenarios, tag, shards, timeout=900):
    """several `go test` processes in parallel (one manager per process at a time: VerifGate is global)"""
    if shards <= 1 or len(scenarios) < 2 * shards:
        return run_harness(scenarios, tag, timeout)
    import threading
    parts = [scenarios[i::shards] for i in range(shards)]
    out = [None] * shards
    # build once (warm cache) with an empty case list
    run_harness([], tag + "_warm", timeout)

    def work(i):
        out[i] = run_harness(parts[i], "%s_%d" % (tag, i), timeout)
    th = [threading.Thread(target=work, args=(i,)) for i in range(shards)]
    for t in th:
        t.start()
    for t in th:
        t.join()
    res, notes, dt = {}, [], 0
    for r, n, d in out:
        res.update(r)
        if n:
            notes.append(n)
        dt = max(dt, d)
    return res, "; ".join(notes), dt


# ---------------------------------------------------------------------------- oracles
class Finding:
    def __init__(self, prop, kind, scn, step, detail):
        self.prop, self.kind, self.scn, self.step, self.detail = prop, kind, scn, step, detail

    def as_dict(self):
        return {"property": self.prop, "kind": self.kind, "scenario": self.scn, "step": self.step, "detail": self.detail}


def tag_truth_sets(state, defs, streams):
    """truth set of every tag of the dumped state (definitions resolved through `defs`); None when a
    definition is not from the family"""
    asts = {}
    for tn, t in state["tags"].items():
        d = parse_mark_def(t["def"]) if (tn.startswith("mark/") or tn.startswith("generated/")) else defs.get(t["def"])
        asts[tn] = d
    memo = {}

    def tt(tn):
        if tn in memo:
            return memo[tn]
        memo[tn] = set()     # cycle guard (the generator never builds cycles)
        d = asts.get(tn)
        if d is None:
            memo[tn] = None
            return set()
        memo[tn] = {sid for sid in streams if eval_def(d, sid, streams, tt)}
        return memo[tn]
    return {tn: (tt(tn) if asts[tn] is not None else None) for tn in asts}, asts


def conv_expected(cname, s):
    return "%s#%s#%s\x00" % (cname, s["c"], s["s"])


def check_scenario(scn, lines):
    """returns (findings, stats, trace) ; findings for C06, C16, C09 and 'GT' (ground truth unusable)"""
    F = []
    stats = {"steps": 0, "decided_checks": 0, "undecided": 0, "cache_checks": 0, "inflight_steps": 0, "completions": 0,
             "view_checks": 0, "stale_allowed": 0}
    truth = Truth(scn)
    defs = scn["defs"]
    prev_queue = []
    name = scn["name"]
    detached_at = {}
    for ln in lines:
        i = ln["i"]
        if i == -2:
            break
        res = ln.get("res", "")
        if res.startswith("PANIC") or res.startswith("HANG") or res.startswith("MARSHAL") or i == -1:
            F.append(Finding("C09", "hang-or-panic", name, i, res))
            break
        st = ln.get("state")
        if st is None:
            F.append(Finding("GT", "no-state", name, i, res))
            break
        stats["steps"] += 1
        act = ln["act"]
        # completed imports: the queue lost a prefix
        if len(st["queue"]) < len(prev_queue) or (act[0] in ("step", "stepkind", "settle")):
            # files that left the queue are completed (queue only shrinks at import completion)
            q, pq = st["queue"], prev_queue
            k = 0
            while k < len(pq) and pq[k:] != q[:len(pq) - k] :
                k += 1
            # pq[k:] is a prefix of q  => pq[:k] completed
            for fi in pq[:k]:
                if fi not in truth.done:
                    truth.done.append(fi)
        prev_queue = list(st["queue"])
        if act[0] == "settle":
            stats["completions"] += ln["info"]["completions"]
        flows = truth.flows()
        # map implementation streams to flows by the 4-tuple
        fresh = ln.get("fresh") or {}
        if fresh.get("err"):
            F.append(Finding("GT", "view-error", name, i, fresh["err"]))
            break
        streams = {}
        gt_ok = True
        seen = set()
        for s in fresh.get("streams", []):
            hit = None
            for fl, o in flows.items():
                if (o["cp"], o["sp"], o["ch"], o["sh"]) == (s["cp"], s["sp"], s["ch"], s["sh"]):
                    hit = fl
            if hit is None or hit in seen:
                # the reset case may keep client/server of the old first packet? report
                gt_ok = False
                F.append(Finding("GT", "stream-not-in-ground-truth", name, i, s))
                break
            seen.add(hit)
            o = flows[hit]
            if (o["c"], o["s"]) != (s["c"], s["s"]) or o["lt"] != s["lt"] or o["ft"] != s["ft"]:
                gt_ok = False
                F.append(Finding("GT", "payload-differs-from-ground-truth", name, i, {"impl": s, "truth": o}))
                break
            streams[s["id"]] = o
        if gt_ok and len(seen) != len(flows):
            gt_ok = False
            F.append(Finding("GT", "stream-missing", name, i, {"have": sorted(seen), "want": sorted(flows)}))
        if not gt_ok:
            break
        if set(streams) != set(range(st["next"])):
            F.append(Finding("GT", "ids-not-dense", name, i, sorted(streams)))
            break
        tsets, asts = tag_truth_sets(st, defs, streams)
        # ---- C06: decided => matches == truth
        for tn, t in st["tags"].items():
            tr = tsets[tn]
            if tr is None:
                continue
            U, M = set(t["u"]), set(t["m"])
            for sid in streams:
                if sid in U:
                    stats["undecided"] += 1
                    continue
                stats["decided_checks"] += 1
                if (sid in M) != (sid in tr):
                    F.append(Finding("C06", "stale-decided", name, i,
                                     {"tag": tn, "def": t["def"], "stream": sid, "in_matches": sid in M, "truth": sid in tr,
                                      "stream_truth": {k: v for k, v in streams[sid].items() if k != "cl"},
                                      "refs": sorted(refs(asts[tn])) if asts[tn] else []}))
        # ---- C06 (view): HasTag / AllTags of a fresh view with all tags prefetched
        for s in fresh.get("streams", []):
            want = sorted(tn for tn, tr in tsets.items() if tr is not None and s["id"] in tr)
            known = [tn for tn in s["has"] if tsets.get(tn) is not None]
            stats["view_checks"] += 1
            if known != want or sorted(t for t in s["tags"] if tsets.get(t) is not None) != want:
                F.append(Finding("C06", "view-hastag", name, i, {"stream": s["id"], "has": s["has"], "alltags": s["tags"], "truth": want}))
        # ---- C16: cache version
        inflight = st["fconv"]
        if inflight:
            stats["inflight_steps"] += 1
        attached = {}
        for tn, t in st["tags"].items():
            for c in t["conv"]:
                attached.setdefault(c, []).append(tn)
        for c, m in st["cache"].items():
            for sid_s, out in m.items():
                sid = int(sid_s)
                stats["cache_checks"] += 1
                if sid not in streams:
                    F.append(Finding("C16", "cache-unknown-stream", name, i, {"conv": c, "stream": sid}))
                    continue
                if out != conv_expected(c, streams[sid]):
                    if inflight or sid in st["toconv"].get(c, []):
                        stats["stale_allowed"] += 1
                        continue
                    F.append(Finding("C16", "stale-output", name, i,
                                     {"conv": c, "stream": sid, "cached": out, "want": conv_expected(c, streams[sid]),
                                      "attached_to": attached.get(c, [])}))
        for c in st["toconv"]:
            if c not in attached and not inflight and st["toconv"][c]:
                F.append(Finding("C16", "queued-after-detach", name, i, {"conv": c, "queued": st["toconv"][c]}))
        # ---- quiescence (C09) + C16 completeness
        if act[0] == "settle":
            info = ln["info"]
            quiet = (not st["queue"] and not st["fmerge"] and not st["ftag"] and not st["fconv"] and not st["jobs"]
                     and all(not v for v in st["toconv"].values()) and all(not t["u"] for t in st["tags"].values()))
            if res != "quiescent":
                F.append(Finding("C09", "budget-overrun", name, i, info))
            elif not quiet:
                F.append(Finding("C09", "not-quiescent", name, i,
                                 {"queue": st["queue"], "flags": [st["fmerge"], st["ftag"], st["fconv"]], "toconv": st["toconv"],
                                  "uncertain": {tn: t["u"] for tn, t in st["tags"].items() if t["u"]}, "jobs": st["jobs"]}))
            elif st["mergeEligible"]:
                F.append(Finding("C09", "eligible-merge-not-started", name, i, {"idxcnt": st["idxcnt"], "unmerge": st["unmerge"]}))
            budget = completion_budget(scn, st)
            if info["completions"] > budget:
                F.append(Finding("C09", "too-many-completions", name, i, {"completions": info["completions"], "budget": budget}))
            if quiet:
                for c, tns in attached.items():
                    need = set()
                    for tn in tns:
                        need |= set(st["tags"][tn]["m"])
                    miss = sorted(sid for sid in need if str(sid) not in st["cache"].get(c, {}))
                    if miss:
                        F.append(Finding("C16", "missing-output-at-quiescence", name, i, {"conv": c, "streams": miss, "tags": tns}))
    return F, stats


def completion_budget(scn, st):
    """generous bound on the completions one settle may need (the Coq measure is the exact one):
    imports + per import a re-tag of every tag at every reference depth + converter runs + merges"""
    nt = len(st["tags"]) + 1
    return 4 + len(scn["files"]) * 2 + 3 * nt * (nt + 1) + 4 * (len(scn["converters"]) + 1) * nt + 2 * (st["nidx"] + len(scn["files"]))


# ---------------------------------------------------------------------------- known findings
def load_known(prop):
    known, fixed = known_findings(prop)
    if os.path.exists(LOCAL_KNOWN):
        for line in open(LOCAL_KNOWN):
            line = line.strip()
            if line.startswith("known:") and ("property=%s " % prop) in line + " ":
                kv = dict(re.findall(r"(\w+)=(\S+)", line))
                kv["text"] = line
                if not any(k.get("id") == kv.get("id") for k in known):
                    known.append(kv)
    return known, fixed


# ---------------------------------------------------------------------------- shared run
def scenarios_for(tier, seed):
    rng = random.Random(seed * 7919 + 6)
    n = 120 if tier == "quick" else 2500
    out = []
    cdir = os.path.join(ROOT, "corpus")
    for prop in ("C06", "C16", "C09"):
        d = os.path.join(cdir, prop)
        if os.path.isdir(d):
            for fn in sorted(os.listdir(d)):
                if fn.endswith(".json"):
                    s = json.load(open(os.path.join(d, fn)))["scenario"]
                    s["name"] = "corpus-%s-%s" % (prop, fn[:-5])
                    s["defs"] = {k: to_ast(v) for k, v in s.get("defs", {}).items()}
                    out.append(s)
    for i in range(n):
        out.append(gen_scenario(rng, "g%04d" % i, rng.choice([12, 20, 30, 40])))
    return out


def to_ast(x):
    if isinstance(x, list):
        if x and isinstance(x[0], str) and x[0] in ("id", "cport", "sport"):
            return (x[0], list(x[1]))
        return tuple(to_ast(y) for y in x)
    return x


def shared_run(tier, seed):
    """runs (or loads) the scenario run shared by C06, C16 and C09"""
    os.makedirs(RUNDIR, exist_ok=True)
    key = "%s_%d_%s" % (tier, seed, tree_state())
    cache = os.path.join(RUNDIR, "shared_%s.json" % key)
    with Lock("c06run"):
        if os.path.exists(cache) and time.time() - os.path.getmtime(cache) < 3600:
            return json.load(open(cache))
        t0 = time.time()
        scns = scenarios_for(tier, seed)
        res, note, dt = run_sharded(scns, "main", 6 if tier == "quick" else 12, timeout=600 if tier == "quick" else 3000)
        out = {"scenarios": scns, "results": res, "note": note, "go_s": dt, "wall_s": time.time() - t0, "key": key}
        json.dump(out, open(cache, "w"))
        for fn in os.listdir(RUNDIR):   # keep the directory small
            p = os.path.join(RUNDIR, fn)
            if fn.startswith("shared_") and p != cache and time.time() - os.path.getmtime(p) > 7200:
                os.remove(p)
        return json.load(open(cache))


def main_for(PROP, tier, seed, replay=None):
    t0 = time.time()
    sys.setrecursionlimit(10000)
    proof = None
    if os.path.exists(os.path.join(COQ, "props", PROP + ".v")):
        proof = Proof(PROP)
    if replay:
        obj = json.load(open(replay))
        scn = obj["scenario"]
        scn["defs"] = {k: to_ast(v) for k, v in scn.get("defs", {}).items()}
        res, note, _ = run_harness([scn], "replay")
        lines = res.get(scn["name"], [])
        F, stats = check_scenario(scn, lines)
        for ln in lines:
            print(json.dumps({k: ln.get(k) for k in ("i", "act", "res", "info")}))
            if ln.get("state"):
                print("   tags", {k: (v["def"], v["m"], v["u"], v["conv"]) for k, v in ln["state"]["tags"].items()},
                      "toconv", ln["state"]["toconv"], "cache", ln["state"]["cache"], "jobs", ln["state"]["jobs"])
        for f in F:
            print("FINDING", json.dumps(f.as_dict()))
        return 1 if any(f.prop in (PROP, "GT") for f in F) else 0
    shared = shared_run(tier, seed)
    scns = {s["name"]: s for s in shared["scenarios"]}
    for s in scns.values():
        s["defs"] = {k: to_ast(v) for k, v in s["defs"].items()}
    allF, total = [], {}
    for name, s in scns.items():
        lines = shared["results"].get(name, [])
        if not lines:
            allF.append(Finding("GT", "scenario-not-run", name, -1, shared["note"][-400:]))
            continue
        F, stats = check_scenario(s, lines)
        allF += F
        for k, v in stats.items():
            total[k] = total.get(k, 0) + v
    known, fixed = load_known(PROP)
    nviol = 0
    mine = [f for f in allF if f.prop == PROP]
    gt = [f for f in allF if f.prop == "GT"]
    # classify
    known_hits = {}
    viol = []
    for f in mine:
        kid = classify_known(f, scns[f.scn], shared["results"].get(f.scn, []), known)
        if kid:
            known_hits.setdefault(kid, []).append(f)
        else:
            viol.append(f)
    for kid, fs in sorted(known_hits.items()):
        print("KNOWN-FINDING: property=%s id=%s %s (%d occurrences, first: scenario %s step %d)" %
              (PROP, kid, fs[0].kind, len(fs), fs[0].scn, fs[0].step), flush=True)
    if viol:
        f = viol[0]
        scn = scns[f.scn]
        small = minimise(scn, f, PROP, known)
        violation(PROP, {"property": PROP, "finding": f.as_dict(), "scenario": strip_scn(small), "seed": seed,
                         "others": [x.as_dict() for x in viol[1:6]], "n_failing": len(viol),
                         "replay_cmd": "bin/check %s --replay <this file>" % PROP})
        nviol += 1
    elif gt or shared["note"]:
        f = gt[0] if gt else None
        violation(PROP, {"property": PROP, "broken": "scenario harness could not run / ground truth unusable on this tree",
                         "note": shared["note"][-1500:], "first": f.as_dict() if f else None,
                         "scenario": strip_scn(scns[f.scn]) if f and f.scn in scns else None}, no_input=True)
        nviol += 1
    if proof is not None and not proof.good() and nviol == 0:
        violation(PROP, {"property": PROP, "broken": proof.failure_text(), "searched_scenarios": len(scns)}, no_input=True)
        nviol += 1
    cov = proof.coverage() if proof is not None else {"obligations": 0, "discharged": 0, "checker_cmd": "(Coq part not built yet)"}
    acts = {}
    for s in scns.values():
        for a in s["actions"]:
            acts[a[0]] = acts.get(a[0], 0) + 1
    cov.update({
        "trusted_base": TRUSTED_COMMON + [
            "gate hook verifGate in manager.go (commit 913d8a0), gate controller + forwarding job channel of harness/c06 (closures are attributed to jobs by the name of their enclosing function)",
            "ground truth = generator's UDP flows (client = sender of the earliest packet, payload = concatenation per direction); checked against the implementation's streams at every step",
            "tag definitions restricted to the generated family (id, port, host, data, ltime, main-tag reference, sub-query reference, not/and/or)",
            "deterministic converter script (python3) written by the harness: output = name#clientbytes#serverbytes"],
        "evaluations": total.get("steps", 0),
        "distinct_nontrivial": len({json.dumps(s["actions"]) for s in scns.values() if len(s["actions"]) >= 8}),
        "rule": "seeded scenarios (12-40 actions + final settle) on a real Manager with every background job parked at its start/done gates; non-trivial = >= 8 actions, distinct by action list; oracles evaluated after every action",
        "scenarios": len(scns),
        "action_distribution": acts,
        "oracle_stats": total,
        "known_findings_hit": {k: len(v) for k, v in known_hits.items()},
        "fixed_findings": fixed,
        "harness_wall_s": shared["wall_s"],
        "samples": [strip_scn(list(scns.values())[-1])["actions"][:12]],
        "disagreements": nviol,
    })
    write_evidence(PROP, tier, seed, cov,
                   ["job bodies terminate (converter processes answer, query parsing terminates)",
                    "no goroutine preemption inside a service-loop closure matters (C20)"],
                   time.time() - t0, nviol)
    return 1 if nviol else 0


def strip_scn(s):
    return {k: v for k, v in s.items()}


def classify_known(f, scn, lines, known):
    """a finding is attributed to a known finding only by its specific shape (see notes/C06.md, C16.md, C09.md)"""
    ids = {k.get("id") for k in known}
    if f.prop == "C06" and f.kind in ("stale-decided", "view-hastag") and "lost-inherited-invalidation" in ids:
        if f.kind == "stale-decided" and lost_inherited_shape(f, scn, lines):
            return "lost-inherited-invalidation"
    if f.prop == "C16" and f.kind == "stale-output":
        k = stale_output_shape(f, scn, lines)
        if k and k in ids:
            return k
    if f.prop == "C09" and f.kind == "eligible-merge-not-started" and "merge-not-restarted-after-convert" in ids:
        return "merge-not-restarted-after-convert"
    return None


def lost_inherited_shape(f, scn, lines):
    """the stale tag references another tag, and at the step where it became stale a tagging job completion
    published it while (during that job) a referenced tag changed (mark add/del, query update)"""
    d = f.detail
    if not d.get("refs"):
        return False
    # find first step at which this (tag, stream) is decided-and-wrong ; must be a tag.done step
    for ln in lines:
        if ln["i"] == f.step:
            act, res = ln["act"], ln["res"]
            if act[0] in ("step", "stepkind") and res == "tag.done":
                return True
            if act[0] == "settle" and "tag.done" in (ln.get("info") or {}).get("order", []):
                return True
            # still stale from an earlier step: follow back
            return stale_since_tag_done(f, lines)
    return False


def stale_since_tag_done(f, lines):
    d = f.detail
    first = None
    for ln in lines:
        st = ln.get("state")
        if not st or ln["i"] > f.step:
            break
        t = st["tags"].get(d["tag"])
        if t is None or t["def"] != d["def"]:
            first = None
            continue
        bad = d["stream"] not in t["u"] and ((d["stream"] in t["m"]) == d["in_matches"])
        if bad and first is None:
            first = ln
        if not bad:
            first = None
    if first is None:
        return False
    act, res = first["act"], first["res"]
    return (act[0] in ("step", "stepkind") and res == "tag.done") or (act[0] == "settle" and "tag.done" in (first.get("info") or {}).get("order", []))


def stale_output_shape(f, scn, lines):
    return None


def minimise(scn, f, prop, known):
    """ddmin over the action list (the final settle is kept); same property + same kind must fail"""
    acts = scn["actions"]

    def fails(sub):
        s = dict(scn)
        s["actions"] = list(sub) + ([acts[-1]] if (not sub or sub[-1][0] != "settle") else [])
        s["name"] = "min"
        res, note, _ = run_harness([s], "min", timeout=120)
        F, _ = check_scenario(s, res.get("min", []))
        return any(x.prop == prop and x.kind == f.kind and not classify_known(x, s, res.get("min", []), known) for x in F)
    try:
        small = ddmin(list(acts), fails, max_tests=60)
    except Exception:
        small = acts
    s = dict(scn)
    s["actions"] = list(small) + ([acts[-1]] if (not small or small[-1][0] != "settle") else [])
    return s


def main(tier, seed, replay=None):
    return main_for("C06", tier, seed, replay)
