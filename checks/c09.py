"""C09 -- background work always settles (shares the scenario run of checks/c06.py)."""
import c06


def main(tier, seed, replay=None):
    return c06.main_for("C09", tier, seed, replay)
