"""setup: full Coq build (all theorems), all model drivers, warm Go build cache."""
import os, sys, time
from vplib import *

MODELS = {
    "C17": ("ExtractC17.v", "ocaml/c17", ["theories/Bitmask.v"]),
}

def main():
    t0 = time.time()
    coq_makefile()
    ok, out, dt = coq_make([], timeout=3400)
    print(out[-3000:])
    if not ok:
        print("SETUP: coq build failed")
        return 1
    for prop, (ev, dd, deps) in MODELS.items():
        build_model(prop, ev, os.path.join(ROOT, dd), deps)
    rc, out, _ = run(["go", "build", "./..."], cwd=REPO, env=go_env(), timeout=1200)
    print(out[-2000:])
    rc2, out2, _ = run(["go", "test", "-count=1", "-vet=off", "-run", "^$", "./..."], cwd=REPO, env=go_env(), timeout=1200)
    print(out2[-2000:])
    print("setup done in %.0fs" % (time.time() - t0))
    return 0 if rc == 0 and rc2 == 0 else 1
