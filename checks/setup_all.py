"""setup: full Coq build (all theorems of all properties), every property's own setup()
(model extraction + OCaml driver, translators, ...), warm Go build cache.
A property module checks/cNN.py may define `setup()`; it is called here."""
import glob, importlib, os, sys, time, traceback
from vplib import *


def main():
    t0 = time.time()
    coq_makefile()
    # -k: a file that does not build must not hide the others; every check re-makes its own target anyway
    with Lock("coq"):
        rc, out, dt = run(["make", "-k", "-j16"], cwd=COQ, timeout=3400)
    print(out[-3000:])
    print("SETUP: coq build rc=%d in %.0fs" % (rc, dt))
    bad = 0
    for f in sorted(glob.glob(os.path.join(ROOT, "checks", "c[0-9][0-9].py"))):
        name = os.path.basename(f)[:-3]
        try:
            mod = importlib.import_module(name)
            if hasattr(mod, "setup"):
                mod.setup()
                print("SETUP: %s ok" % name)
        except Exception:
            bad += 1
            print("SETUP: %s failed\n%s" % (name, traceback.format_exc()))
    rc1, out1, _ = run(["go", "build", "./internal/..."], cwd=REPO, env=go_env(), timeout=1200)
    print(out1[-2000:])
    rc2, out2, _ = run(["go", "test", "-count=1", "-vet=off", "-tags", "verif", "-run", "^$", "./internal/..."], cwd=REPO, env=go_env(), timeout=1200)
    print(out2[-2000:])
    print("setup done in %.0fs (coq rc=%d, property setups failed=%d, go rc=%d/%d)" % (time.time() - t0, rc, bad, rc1, rc2))
    return 0 if rc1 == 0 and rc2 == 0 else 1
