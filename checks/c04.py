"""C04 -- payload filters agree with plain regular-expression matching.

Coq: theories/RegexProg.v (programs), Regex.v (leftmost-first matcher on programs), DataFilter.v (find with its
shortcuts, sequence progress, group loop, data sources), *Proofs.v, props/C04.v.
Tie: generated cases = a few streams (payload chunks in both directions, converter outputs) x a disjunction of conjunctions
of data conditions (alone, negated, sharing expressions, THEN-chained, captures and @var@ uses) built directly as
query.DataCondition values. The Go harness (harness/c04, overlay in package index) builds an index file, runs
index.SearchStreams, runs a deliberately naive evaluation (binaryregexp over the whole remaining buffer, no shortcuts)
and dumps every compiled program with the prefix / suffix / length facts the implementation derives. The extracted
model evaluates the same case on the dumped programs. Compared: selected stream ids, three ways.
"""
import os
import shutil
import random
import time

from vplib import *

PROP = "C04"

WORDS = ["foo", "bar", "ab", "abc", "a", "b", "c", "needle", "x", "ba", "oo", "foo3", "1", "22", "a1", "b2", " ", "\n", "fo", "ob", "a\nb", "xa\nb", "000", ";;;", "aaa", "bbb", "ooo", "0", ";", "abab"]
# (regex, tags)  -- shapes chosen after the code paths of progressVariant.find
REGEX_SAMPLES = {
    "foo": ["foo"], "bar": ["bar"], "ab": ["ab"], "a": ["a"], "b": ["b"], "abc": ["abc"], "needle": ["needle"], "ne*dle": ["ndle", "neeedle"],
    "fo+": ["fo", "foo"], "foo[0-9]": ["foo3", "foo7"], "foo[0-9]+bar": ["foo12bar", "foo3bar"], "a.b": ["axb", "a b"], "ab*c": ["ac", "abbc"],
    "(?:ab|ba)c": ["abc", "bac"], "x?a+": ["xaa", "a"], "b?b+": ["b", "bbb"], "-?[0-9]+": ["-7", "42"], "[a-c]{2}x": ["abx", "ccx"],
    ".{2}b": ["xyb", "aab"], "..bar": ["zzbar", "obar"], "[ab]b": ["ab", "bb"], ".b": ["xb"], "[0-9]b": ["3b"], "a[0-9]": ["a1"],
    "(a)(b)?": ["ab", "a"], "(a|b)+c": ["abac", "bc"], "a*": ["aaa", ""], "b*?a": ["bba", "a"], "(?i)foo": ["FOO", "fOo"], "(?i:ab)c": ["ABc", "abc"],
    "fo{1,2}": ["fo", "foo"], "(?:foo|bar)+": ["foobar", "barbar"], "o+b": ["oob", "ob"], "a.*b": ["a--b", "ab"], "a.*?b": ["a-b-b"],
    "[^a]b": ["xb", "bb"], "foo|bar": ["foo", "bar"], "ab|abc": ["abc"], "abc|ab": ["abc", "ab"], "(?:a|ab)(?:c|bcd)": ["abcd", "ac"],
    "(?s)a.b": ["a\nb"], "\\d+": ["123"], "\\w+ ": ["word "], "ba?r": ["br", "bar"], "[a-c]+[0-9]": ["abc1", "c9"], "o{2}": ["oo"], "a{2,3}": ["aa", "aaa"],
    "(?:ab){2}": ["abab"], "": [""], "(?:)": [""], "x*": ["xx", ""], "[a-z]+[0-9][a-z]": ["ab1c"], "..": ["zz"], ".": ["z"], "(?:a|b)(?:a|b)b": ["abb", "bab"],
    # fixed length, no prefix, constant suffix that overlaps itself: the window loop has to move on by one byte
    "[0-9a-f]00": ["x000", "a00", "0000"], "[^0-9];;": ["1;;;", "a;;", ";;;;"], ".aa": ["baaa", "aaaa"], "[ab]bb": ["cbbb", "abbb"],
    "..oo": ["xoooo", "foooo"], "[^a]abab": ["aababab", "xabab"], ".{2};;": ["1;;;;", ";;;"],
    # literal text around a counted group of alternations large enough to exhaust the budget of ConstantSuffix (2^18 calls):
    # the analysis must then claim no suffix at all
    "FLAG_(?:[a-z]|%[0-9]{2}){18}": ["FLAG_" + "ab%12c" * 3 + "abcabc", "FLAG_" + "x" * 18, "FLAG_" + "%07" * 18 + "!"],
    "id=(?:ab|c){18};": ["id=" + "c" * 18 + ";", "id=" + "abc" * 9 + ";", "id=" + "ab" * 18 + ";x"],
    "x(?:aa|b){19}": ["x" + "b" * 19, "x" + "aab" * 9 + "b"],
    # alternation whose branches share the minimum length but differ in the maximum, no literal prefix, constant suffix:
    # the fixed-length window must not be taken (payloads with only the long form / only the short form / both)
    "(?:[ab][0-9]{1,2}|cc)end": ["a12end", "b7end", "ccend", "xa12endccend"], "(?:cc|[ab][0-9]{1,2})end": ["a12end", "ccend", "b3end"],
    "(?:[0-9]{2}|[ab]{2,3}|x.)z": ["abaz", "12z", "x-z", "aabz12z"], "(?:a?b|[0-9])oo": ["aboo", "boo", "7oo", "xaboo"],
    "(?:[a-c]|[0-9]{1,3})x": ["123x", "ax", "12x", "9x"], "(?:.b?|aa)\\.": ["ab.", "a.", "aa.", "zb."],
    "a[a-c]?b": ["ab", "acb"], "ab?": ["a", "ab"], "fo*3": ["f3", "foo3"], "[fb]oo": ["boo", "foo"], "(?:fo|f)o3": ["foo3", "fo3"], "oo3|ar": ["oo3", "ar"],
}
BUDGET_REGEXES = [r for r in REGEX_SAMPLES if "){18}" in r or "){19}" in r]   # exhaust ConstantSuffix's budget: expensive to prepare
REGEXES = sorted(r for r in REGEX_SAMPLES if r not in BUDGET_REGEXES)
ASSERT_REGEXES = ["^foo", "foo3$", "bar$", "\\bfoo\\b", "foo\\z", "\\Aa", "^$", "\\Bx?", "(?m:^)ab", "a$", "^", "$", "\\bb", "o\\b", "(?m:a$)", "^a*$", "\\Bb"]
CAPTURE_REGEXES = ["(?P<v>a\\n?b)", "(?P<v>[^ ]+)", "(?P<v>.\\n.)", "(?P<v>[a-z])", "(?P<v>[a-z]+)[0-9]", "(?P<v>a|b)", "(?P<v>a)?b", "(?P<v>fo+)", "x(?P<v>.)", "(?P<v>[0-9]+)"]
# two captures in one expression, and uses of two or three variables (also the same one twice) in one element
CAPTURE2_REGEXES = ["(?P<u>[a-z]+)=(?P<t>[0-9]+)", "(?P<u>..);(?P<t>.)", "(?P<u>a|b)(?P<t>[0-9]*)", "(?P<u>fo+)(?P<t>[0-9]?)"]
VAR2_USES = [(":", [(0, "u"), (1, "t")]), ("", [(0, "t"), (0, "u")]), ("x-", [(1, "u"), (2, "u")]), ("=;", [(0, "u"), (1, "t"), (2, "u")]),
             (" ", [(0, "t"), (1, "t")]), ("[0-9]", [(0, "u"), (5, "t")])]
VAR_USES = [("", 0), ("x", 1), (" ", 0), ("[0-9]", 0), ("a", 0), ("$", 0), ("+", 0)]   # (regex with the use removed, position)


def hx(s):
    return s.encode("latin-1").hex()


def gen_payload(rng, nchunks, vocab=WORDS):
    chunks = []
    for _ in range(nchunks):
        n = rng.choice([0, 1, 1, 2, 2, 3, 4, 6])
        data = "".join(rng.choice(vocab) for _ in range(n))
        if rng.random() < 0.1:
            data = data[:rng.randrange(0, len(data) + 1)]
        chunks.append([rng.randrange(2), data])
    return chunks


def merge_raw(chunks):
    """what the index stores: empty chunks vanish, neighbours of one direction are one chunk"""
    out = []
    for d, x in chunks:
        if not x:
            continue
        if out and out[-1][0] == d:
            out[-1][1] += x
        else:
            out.append([d, x])
    return out


def gen_case(rng, idx, allow_assert, allow_vars):
    nconv = rng.choice([0, 0, 0, 1, 2])
    conv = rng.choice(["", "", "", "none"] + ["c%d" % i for i in range(nconv)])
    pool = [rng.choice(REGEXES) for _ in range(rng.choice([1, 2, 3]))]
    if rng.random() < 0.006:
        pool = [rng.choice(BUDGET_REGEXES)] * 3 + pool[:1]
    if allow_assert and rng.random() < 0.35:
        pool.append(rng.choice(ASSERT_REGEXES))
    uses_vars = allow_vars and rng.random() < 0.2
    two_vars = uses_vars and rng.random() < 0.4
    big = rng.random() < 0.03          # index data section larger than the reader's buffer, streams skipped by a port filter
    vocab = [w for r in pool for w in REGEX_SAMPLES.get(r, [])] * 3 + WORDS
    if two_vars:
        vocab = vocab + ["ab=12", "foo=3", "xy;z", "a7", "b", "ab:12", "12ab", "x-abab", "foo3", "ab=12;ab", "3 3", "ab", "12"] * 2
    streams = []
    for _ in range(rng.choice([4, 5, 6]) if big else rng.choice([1, 2, 3, 4])):
        raw = [c for c in gen_payload(rng, rng.choice([0, 1, 1, 2, 3, 4, 5]), vocab) if c[1]]
        convs = []
        for _ in range(nconv):
            convs.append(gen_payload(rng, rng.choice([0, 1, 2, 3, 4]), vocab) if rng.random() < 0.6 else None)
        st = {"raw": raw, "conv": convs}
        if big:
            st["sport"] = rng.choice([80, 80, 81])
            if rng.random() < 0.7:
                pad = rng.choice(["\x01", "z", "."]) * rng.choice([2500, 3000, 4090, 4096, 4100, 5000, 8190, 8200])
                st["raw"] = [[rng.randrange(2), pad]] + raw if rng.random() < 0.5 else raw + [[rng.randrange(2), pad]]
        streams.append(st)

    keys = []   # over all conjunctions: the normaliser also absorbs across the disjunction

    def conj():
        conds = []
        for _ in range(rng.choice([1, 1, 1, 1, 2, 2, 3])):
            elems = []
            n = rng.choice([1, 1, 1, 1, 2, 2, 3, 4])
            have_v = False
            for k in range(n):
                d = rng.randrange(2)
                if uses_vars and two_vars and not have_v and k < n - 1 and rng.random() < 0.7:
                    elems.append({"d": d, "re": rng.choice(CAPTURE2_REGEXES), "vars": []})
                    have_v = True
                elif uses_vars and two_vars and have_v and rng.random() < 0.7:
                    rest, uses = rng.choice(VAR2_USES)
                    elems.append({"d": d, "re": rest, "vars": [{"pos": pos, "name": nm} for pos, nm in uses]})
                elif uses_vars and not two_vars and not have_v and k < n - 1 and rng.random() < 0.6:
                    elems.append({"d": d, "re": rng.choice(CAPTURE_REGEXES), "vars": []})
                    have_v = True
                elif uses_vars and not two_vars and have_v and rng.random() < 0.6:
                    rest, pos = rng.choice(VAR_USES)
                    elems.append({"d": d, "re": rest, "vars": [{"pos": pos, "name": "v"}]})
                else:
                    elems.append({"d": d, "re": rng.choice(pool) if rng.random() < 0.85 else rng.choice(REGEXES), "vars": []})
            key = [(e["d"], e["re"], json.dumps(e["vars"])) for e in elems]
            # the normaliser inside SearchStreams (C03) rewrites conditions that are prefixes of each other: keep C04 independent of it
            if any(k[:len(key)] == key or key[:len(k)] == k for k in keys):
                continue
            keys.append(key)
            conds.append({"inv": rng.random() < 0.3, "elems": elems})
        return conds
    ors = [conj()]
    if rng.random() < 0.1:
        c2 = conj()
        if c2:
            ors.append(c2)
    case = {"nconv": nconv, "conv": conv, "streams": streams, "or": ors}
    if big:
        case["sport"] = 80
    return case


def seq_conditions(seq):
    """the conjunction of sequences a THEN text with negated elements means (derived here, not taken from the parser):
    every negated element closes an inverted sequence of the elements that had to match before it; the elements that have to
    match form a sequence of their own unless a negated element comes after the last of them"""
    conds, pos = [], []
    for e in seq:
        el = {"d": e["d"], "re": e["re"], "vars": []}
        if e["neg"]:
            conds.append({"inv": True, "elems": pos + [el]})
        else:
            pos = pos + [el]
    if pos and not seq[-1]["neg"]:
        conds.append({"inv": False, "elems": pos})
    elif pos and not any(c["elems"][:-1] == pos for c in conds):
        conds.append({"inv": False, "elems": pos})
    return conds


def gen_text_case(rng):
    """a THEN sequence with negated elements as query TEXT (goes through query.Parse and Conditions.then)"""
    plain = [r for r in REGEXES if r and "\\" not in r and '"' not in r]
    n = rng.choice([2, 3, 3, 4, 5])
    seq, used = [], set()
    while len(seq) < n:
        d, r = rng.randrange(2), rng.choice(plain)
        if (d, r) in used:
            continue
        used.add((d, r))
        seq.append({"neg": rng.random() < 0.45, "d": d, "re": r})
    if not any(e["neg"] for e in seq):
        seq[rng.randrange(len(seq))]["neg"] = True
    text = " then ".join(("-" if e["neg"] else "") + ("sdata" if e["d"] else "cdata") + ':"' + e["re"] + '"' for e in seq)
    vocab = [w for e in seq for w in REGEX_SAMPLES.get(e["re"], [])] * 3 + WORDS
    streams = []
    for _ in range(rng.choice([2, 3, 4])):
        streams.append({"raw": [c for c in gen_payload(rng, rng.choice([1, 2, 3, 4, 5]), vocab) if c[1]], "conv": []})
    return {"nconv": 0, "conv": "", "streams": streams, "or": [seq_conditions(seq)], "text": text + " sort:id", "seq": seq}


def to_wire(case, cid):
    return {"id": cid, "nconv": case["nconv"], "conv": case["conv"], "sport": case.get("sport", 0),
            "text": case.get("text", ""), "seq": case.get("seq", []),
            "streams": [{"sport": s.get("sport", 0), "raw": [{"d": d, "x": hx(x)} for d, x in s["raw"]],
                         "conv": [None if c is None else [{"d": d, "x": hx(x)} for d, x in c] for c in s["conv"]]} for s in case["streams"]],
            "or": case["or"]}


def has_vars(case):
    return any(e["vars"] or "(?P<" in e["re"] for cj in case["or"] for cd in cj for e in cd["elems"])


def pre_string(e):
    """the precondition finalize() compiles for an element with variables (after fixes/C04-4)"""
    re_ = e["re"]
    for v in reversed(e["vars"]):
        re_ = re_[:v["pos"]] + "(?:(?s:.*))" + re_[v["pos"]:]
    return re_


def model_text(case, cid, progs, subs):
    """case file of the model driver; None if some program is missing"""
    keys, names = {}, {}
    lines = ["CASE %d %d %s" % (cid, case["nconv"], case["conv"] or "-")]

    def name_id(n):
        return names.setdefault(n, len(names))

    def rx(restr):
        if restr in keys:
            return keys[restr]
        pr = progs.get(restr)
        if pr is None or pr.startswith("ERR"):
            raise KeyError(restr)
        fields = pr.rsplit(" ", 1)
        ids = ",".join("-" if n == "-" else str(name_id(n)) for n in fields[1].split(","))
        keys[restr] = len(keys)
        lines.append("REGEX %d %s %s" % (keys[restr], fields[0], ids))
        return keys[restr]

    def elem_text(e):
        if not e["vars"]:
            return "F:%d:%d" % (rx(e["re"]), e["d"])
        vkey = json.dumps(e["vars"], separators=(",", ":"))
        entries = {}
        for sb in subs or []:
            if sb["re"] == e["re"] and sb["vars"] == vkey:
                entries[".".join(v or "-" for v in sb["vals"])] = rx(sb["expr"])
        table = ";".join("%s=%d" % (k, v) for k, v in entries.items())
        return "S:%d:%d:%s:%s" % (rx(pre_string(e)), e["d"], ".".join(str(name_id(v["name"])) for v in e["vars"]), table)
    try:
        conds = []
        for cj in case["or"]:
            conds.append("OR")
            for cd in cj:
                conds.append("COND %d %s" % (1 if cd["inv"] else 0, " ".join(elem_text(e) for e in cd["elems"])))
    except KeyError:
        return None
    lines += conds
    for s in case["streams"]:
        lines.append("STREAM")
        lines.append("RAW " + (",".join("%d:%s" % (d, hx(x)) for d, x in merge_raw(s["raw"])) or "-"))
        for c in s["conv"]:
            lines.append("CONV none" if c is None else "CONV " + (",".join("%d:%s" % (d, hx(x) or "") for d, x in c) or "-"))
    lines.append("END")
    return "\n".join(lines) + "\n"


def execute(cases, exe, tag, with_model=True):
    d = os.path.join(BUILD, "run", "c04", str(os.getpid()))
    os.makedirs(d, exist_ok=True)
    cf, iout = os.path.join(d, "cases_%s.txt" % tag), os.path.join(d, "impl_%s.out" % tag)
    mcf, mout = os.path.join(d, "mcases_%s.txt" % tag), os.path.join(d, "model_%s.out" % tag)
    with open(cf, "w") as f:
        for i, c in enumerate(cases):
            f.write(json.dumps(to_wire(c, i)) + "\n")
    for p in (iout, mout):
        if os.path.exists(p):
            os.remove(p)
    ov = go_overlay({"internal/index/zz_verif_c04_test.go": os.path.join(ROOT, "harness/c04/zz_verif_c04_test.go")}, "c04_%d" % os.getpid())
    rc, out, gosec = go_test("./internal/index/", ov, "^TestVerifC04$", {"VERIF_CASES": cf, "VERIF_OUT": iout}, timeout=900)
    note = "" if rc == 0 else "go harness rc=%d: %s" % (rc, out[-1500:])
    impl, begun = {}, None
    if os.path.exists(iout):
        for line in open(iout, errors="replace"):
            try:
                o = json.loads(line)
            except ValueError:
                continue
            if "begin" in o:
                begun = o["begin"]
            else:
                impl[o["id"]] = o
    if begun is not None and begun not in impl:
        impl[begun] = {"id": begun, "impl": "HANG", "naive": "?", "progs": {}}
    model, msec = {}, 0.0
    if with_model and exe:
        with open(mcf, "w") as f:
            for i, c in enumerate(cases):
                o = impl.get(i)
                # the multi-KiB regime is about the index reader (not modelled; the model's list-indexed matcher is cubic in the
                # payload length): those cases are compared SearchStreams vs plain scan only
                if o is None or c.get("sport"):
                    continue
                t = model_text(c, i, o.get("progs") or {}, o.get("subs"))
                if t:
                    f.write(t)
        rc2, out2, msec = run([exe, mcf, mout], timeout=900)
        if rc2 != 0:
            note += " model driver rc=%d: %s" % (rc2, out2[-500:])
        if os.path.exists(mout):
            for line in open(mout):
                tok = line.split(None, 1)
                if tok:
                    model[int(tok[0])] = tok[1].strip() if len(tok) > 1 else ""
    return impl, model, note, gosec, msec


def canon(s):
    """projected observable: selected ids, or an error class"""
    if s is None:
        return None
    if s == "OK" or s.startswith("OK "):
        return "OK " + s[2:].strip()
    if s.startswith("PANIC"):
        return "PANIC"
    if s.startswith("HANG"):
        return "HANG"
    for k in ("not defined", "already seen", "error parsing regexp", "missing argument", "invalid"):
        if k in s:
            return "ERR " + k
    return "ERR other: " + s[:80]


def port_filter(case, m):
    """the model knows data conditions only: apply the case's sport filter to the ids it selects"""
    if m is None or not case.get("sport") or not (m == "OK" or m.startswith("OK ")):
        return m
    keep = [i for i in m[2:].strip().split(",") if i and (case["streams"][int(i)].get("sport", 0) or 80) == case["sport"]]
    return "OK " + ",".join(keep)


def judge(case, o, m):
    """None | ('impl'|'corr', text)"""
    m = port_filter(case, m)
    if o is None:
        return ("corr", "no harness output")
    i, n = canon(o["impl"]), canon(o["naive"])
    if i != n:
        return ("impl", "SearchStreams %s, plain scan %s" % (o["impl"], o["naive"]))
    if m is not None and i.startswith("OK") and canon(m) != i:
        return ("corr", "model %s, SearchStreams and plain scan %s" % (m, i))
    return None


def valid(case):
    """the generator's side condition: no condition of a conjunction is a prefix of another one"""
    keys = [[(e["d"], e["re"], json.dumps(e["vars"])) for e in cd["elems"]] for cj in case["or"] for cd in cj]
    for a in range(len(keys)):
        for b in range(len(keys)):
            if a != b and keys[b][:len(keys[a])] == keys[a]:
                return False
    return all(len(cj) > 0 for cj in case["or"])


def minimise(case, exe, kind):
    def fails(c):
        if not valid(c):
            return False
        impl, model, _, _, _ = execute([c], exe, "min", with_model=(kind == "corr"))
        v = judge(c, impl.get(0), model.get(0))
        return v is not None and v[0] == kind
    c = json.loads(json.dumps(case))
    textual = bool(c.get("text"))      # conditions come from the query text: only streams and payload are reduced
    if len(c["or"]) > 1 and not textual:
        for k in range(len(c["or"])):
            t = dict(c, **{"or": [c["or"][k]]})
            if fails(t):
                c = t
                break
    if not textual:
        c["or"][0] = ddmin(c["or"][0], lambda cs: fails(dict(c, **{"or": [cs]})), 40)
    c["streams"] = ddmin(c["streams"], lambda ss: fails(dict(c, streams=ss)), 40)
    for k in range(len(c["or"][0])):
        cd = c["or"][0][k]
        if len(cd["elems"]) > 1 and not has_vars(c) and not textual:
            for cut in range(len(cd["elems"]) - 1, 0, -1):
                t = json.loads(json.dumps(c))
                t["or"][0][k]["elems"] = cd["elems"][:cut]
                if fails(t):
                    c = t
                    break
    for si in range(len(c["streams"])):
        t = json.loads(json.dumps(c))
        t["streams"][si]["conv"] = [None for _ in t["streams"][si]["conv"]]
        if fails(t):
            c = t

    def with_raw(si, chunks):
        t = json.loads(json.dumps(c))
        t["streams"][si]["raw"] = chunks
        return t
    for si in range(len(c["streams"])):
        raw = c["streams"][si]["raw"]
        if len(raw) > 1:
            c = with_raw(si, ddmin(raw, lambda ch: fails(with_raw(si, ch)), 30))
        # shorten the chunks from both ends
        for ci in range(len(c["streams"][si]["raw"])):
            for _ in range(12):
                d, x = c["streams"][si]["raw"][ci]
                done = True
                for cand in (x[1:], x[:-1]):
                    if len(x) > 1:
                        chunks = [list(ch) for ch in c["streams"][si]["raw"]]
                        chunks[ci] = [d, cand]
                        if fails(with_raw(si, chunks)):
                            c = with_raw(si, chunks)
                            done = False
                            break
                if done:
                    break
    return c


KNOWN_SLUGS = {
    "assertion-shortcuts": "prefix skip / suffix cut / fixed window / offset bump change what ^ $ \\b see",
}


def attribute(case, o, exe):
    """Is this failure the known finding `assertion-shortcuts`? Only if an expression with empty-width assertions is involved
    and the repaired model (no shortcuts for such programs) agrees with the plain scan while the faithful one agrees with the code."""
    return None


def setup():
    """model extraction and driver build (bin/check --setup calls this; main builds lazily through it)"""
    return build_model(PROP, "ExtractC04.v", os.path.join(ROOT, "ocaml/c04"),
                       ["theories/RegexProg.v", "theories/Regex.v", "theories/DataFilter.v"])[0]


def main(tier, seed, replay=None):
    t0 = time.time()
    proof = Proof(PROP, tier=tier)
    exe = setup()
    rng = random.Random(seed)
    ncase = 12000 if tier == "quick" else 300000
    cases = []
    cdir = os.path.join(ROOT, "corpus", PROP)
    if replay:
        cases = [json.load(open(replay))["case"]]
    else:
        if os.path.isdir(cdir):
            for fn in sorted(os.listdir(cdir)):
                cases.append(json.load(open(os.path.join(cdir, fn)))["case"])
        for i in range(ncase):
            cases.append(gen_text_case(rng) if i % 12 == 5 else gen_case(rng, i, allow_assert=True, allow_vars=True))
    impl, model, note, gosec, msec = execute(cases, exe, "main")
    nviol = 0
    stats = {"cases": len(cases), "streams": 0, "with_model": 0, "with_variables": 0, "with_assertions": 0, "selected_some": 0,
             "selected_all": 0, "selected_none": 0, "errors_agreed": 0, "sequences": 0, "inverted": 0, "with_converters": 0}
    distinct = set()
    verdicts = []
    for i, c in enumerate(cases):
        o, m = impl.get(i), model.get(i)
        stats["streams"] += len(c["streams"])
        stats["with_model"] += m is not None
        stats["with_variables"] += has_vars(c)
        stats["with_assertions"] += any(e["re"] in ASSERT_REGEXES for cj in c["or"] for cd in cj for e in cd["elems"])
        stats["sequences"] += any(len(cd["elems"]) > 1 for cj in c["or"] for cd in cj)
        stats["inverted"] += any(cd["inv"] for cj in c["or"] for cd in cj)
        stats["with_converters"] += c["nconv"] > 0
        if o:
            ci = canon(o["impl"])
            if ci.startswith("OK"):
                k = len([x for x in ci[2:].strip().split(",") if x])
                stats["selected_all" if k == len(c["streams"]) else "selected_some" if k else "selected_none"] += 1
            else:
                stats["errors_agreed"] += 1
            distinct.add(json.dumps([c["or"], c["streams"]], sort_keys=True))
        if replay:
            print("case", json.dumps(c), "\nimpl ", o and o["impl"], "\nnaive", o and o["naive"], "\nmodel", m)
        v = judge(c, o, m)
        if v is not None:
            verdicts.append((c, v))
    # A disagreement between model and code that is not yet a failing input (e.g. the facts the code derives for an expression
    # differ from the analyses of the model): search a failing input on exactly the expressions involved, each alone and negated,
    # on payloads made of its own samples.
    if verdicts and not any(v[0] == "impl" for _, v in verdicts) and not replay:
        res = sorted({e["re"] for c, v in verdicts[:40] for cj in c["or"] for cd in cj for e in cd["elems"] if not e["vars"]})
        targeted = []
        for re_ in res[:30]:
            samples = REGEX_SAMPLES.get(re_, []) + ["", "x"]
            streams = [{"raw": [[d, pre + smp + post]], "conv": []} for smp in samples for d in (0, 1) for pre, post in (("", ""), ("ab ", " ba"))]
            for inv in (False, True):
                for d in (0, 1):
                    targeted.append({"nconv": 0, "conv": "", "streams": streams, "or": [[{"inv": inv, "elems": [{"d": d, "re": re_, "vars": []}]}]]})
        timpl, tmodel, _, _, _ = execute(targeted, exe, "targeted")
        for k, tc in enumerate(targeted):
            tv = judge(tc, timpl.get(k), tmodel.get(k))
            if tv is not None and tv[0] == "impl":
                verdicts.insert(0, (tc, tv))
                break
    verdicts.sort(key=lambda x: 0 if x[1][0] == "impl" else 1)
    for c, (kind, text) in verdicts[:4]:
        small = minimise(c, exe, kind) if not replay else c
        im, mo, _, _, _ = execute([small], exe, "min")
        obj = {"property": PROP, "what": text, "case": small, "original_case": c, "impl": im.get(0, {}).get("impl"), "naive": im.get(0, {}).get("naive"),
               "model": mo.get(0), "progs": im.get(0, {}).get("progs"), "seed": seed, "replay_cmd": "bin/check C04 --replay <this file>"}
        if kind == "impl":
            violation(PROP, obj)
        else:
            obj["broken"] = "correspondence between theories/DataFilter.v and search_data.go: " + text
            violation(PROP, obj, no_input=True)
        nviol += 1
    if note and nviol == 0:
        violation(PROP, {"property": PROP, "broken": "correspondence harness could not run against this tree", "note": note}, no_input=True)
        nviol += 1
    if not proof.good() and nviol == 0:
        violation(PROP, {"property": PROP, "broken": proof.failure_text(), "searched_cases": len(cases)}, no_input=True)
        nviol += 1
    cov = proof.coverage()
    cov.update({
        "trusted_base": TRUSTED_COMMON + [
            "rsc.io/binaryregexp (parser, compiler, matcher) is modelled at the level of compiled programs: the model matcher (leftmost-first "
            "backtracking over the dumped program) is tied to the real matcher by the three-way comparison only",
            "LiteralPrefix / AcceptedLength / ConstantSuffix values are dumped per expression and checked against the model's own computation",
            "index writer/reader (payload storage, chunk sizes) is exercised, not modelled: the model gets the merged chunk list",
            "sub-query variants (prepare/variantResults) and @var@ substitution are not modelled: such cases are compared against the plain scan only"],
        "evaluations": len(impl),
        "distinct_nontrivial": len(distinct),
        "rule": "seeded cases: 1-4 streams x (1-3 conditions x 1-4 THEN-elements, 30% negated, expressions shared through a small pool, 35% with an "
                "assertion expression, 12% with capture/@var@) x raw payload of 0-5 chunks in both directions x 0-2 converters (name '', none, cN); "
                "selected ids compared: SearchStreams = plain scan (Go, no shortcuts) = extracted model",
        "stats": stats, "go_seconds": round(gosec, 1), "model_seconds": round(msec, 1),
        "samples": [cases[-1], impl.get(len(cases) - 1, {}).get("impl")],
        "disagreements": nviol,
    })
    known, fixed = known_findings(PROP)
    cov["fixed_findings"] = fixed
    write_evidence(PROP, tier, seed, cov,
                   ["payload bytes are what the index stores (C05 is about that)", "conditions are given as query.DataCondition values (parser and normaliser are C03/C14)"],
                   time.time() - t0, nviol)
    shutil.rmtree(os.path.join(BUILD, "run", "c04", str(os.getpid())), ignore_errors=True)
    try:
        os.remove(os.path.join(BUILD, "overlay", "c04_%d.json" % os.getpid()))
    except OSError:
        pass
    return 1 if nviol else 0
