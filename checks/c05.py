"""C05 -- indexed payload equals what the endpoints exchanged on the wire.

Coq: theories/Udp.v, BuilderOrder.v, Tcp.v, Import.v (+ *Proofs.v), props/C05.v.
Tie: generated conversations with known ground truth (TCP handshake-complete with
arbitrary segmentation, bounded reordering, retransmissions, FIN/RST/none; UDP flows
in both directions; IPv4 and IPv6) are rendered to a global packet sequence, cut into
1-5 capture files, imported in batches by the REAL builder.FromPcap (harness/c05 writes
real pcap files with pcapgo) and read back through the produced index readers.  Three
ways: implementation vs ground truth (direct oracle), implementation vs extracted Coq
model of the import (same packet lists), model vs ground truth.

This module also holds the generator / renderer / parser shared with checks/c08.py.
"""
import atexit
import json
import os
import random
import re
import time

from vplib import *

PROP = "C05"
TIMEOUT_US = 300 * 1000000
HARNESS = {"internal/index/builder/zz_verif_c05_test.go": os.path.join(ROOT, "harness/c05/zz_verif_c05_test.go")}


# ---------------------------------------------------------------- ground truth
class Conv:
    """One conversation of the ground truth."""

    def __init__(self, cid, proto, client, server, msgs, close="none", closer="c"):
        self.cid, self.proto, self.client, self.server = cid, proto, client, server
        self.msgs = msgs            # [(dir 'c'|'s', bytes)]
        self.close, self.closer = close, closer
        self.pkts = []              # rendered packets in wire order (dicts)

    def runs(self):
        out = []
        for d, b in self.msgs:
            if not b:
                continue
            if out and out[-1][0] == d:
                out[-1][1] += b
            else:
                out.append([d, bytes(b)])
        return [(d, bytes(b)) for d, b in out]

    def key(self):
        return (self.proto, self.client, self.server)

    def to_json(self):
        return {"cid": self.cid, "proto": self.proto, "client": list(self.client), "server": list(self.server),
                "msgs": [[d, b.hex()] for d, b in self.msgs], "close": self.close, "closer": self.closer}


def host(rng, fam, pool=6):
    i = rng.randrange(1, pool + 1)
    if fam == 4:
        return "0a00%02x%02x" % (rng.choice([0, 0, 1]), i)
    return "fd00" + "00" * 12 + "%02x%02x" % (rng.choice([0, 0, 1]), i)


def rand_payload(rng, n):
    if rng.random() < 0.5:
        words = [b"GET ", b"POST ", b"flag{", b"}", b"\r\n", b"HTTP/1.1 200 OK", b"AAAA", b"\x00", b"\xff\xfe", b"x"]
        out = b""
        while len(out) < n:
            out += rng.choice(words)
        return out[:n]
    return bytes(rng.randrange(256) for _ in range(n))


def pkt(conv, d, ts, **kw):
    src, dst = (conv.client, conv.server) if d == "c" else (conv.server, conv.client)
    p = {"cid": conv.cid, "seqno": len(conv.pkts), "ts": ts, "src": src[0], "sport": src[1], "dst": dst[0], "dport": dst[1],
         "proto": conv.proto, "dir": d}
    p.update(kw)
    conv.pkts.append(p)
    return p


def next_ts(rng, ts, maxgap=None):
    r = rng.random()
    if r < 0.25:
        d = 0
    elif r < 0.5:
        d = rng.randrange(1, 50)
    elif r < 0.8:
        d = rng.randrange(50, 200000)
    else:
        d = rng.randrange(200000, 20000000)
    if maxgap is not None:
        d = min(d, maxgap)
    return ts + d


def render_udp(rng, conv, t0, long_gaps=False):
    ts = t0
    first = True
    for d, b in conv.msgs:
        if not first:
            if long_gaps and rng.random() < 0.3:
                ts += rng.choice([TIMEOUT_US, TIMEOUT_US - 1, TIMEOUT_US // 2, TIMEOUT_US - 1000000])
            else:
                ts = next_ts(rng, ts)
        first = False
        pkt(conv, d, ts, data=b)
    return ts


def segment(rng, data):
    out, i = [], 0
    while i < len(data):
        r = rng.random()
        n = 1 if r < 0.15 else rng.randrange(1, 8) if r < 0.5 else rng.randrange(1, 120) if r < 0.9 else rng.randrange(100, 1400)
        out.append((i, data[i:i + n]))
        i += n
    return out


def perturb(rng, segs, level):
    """bounded reordering + duplication (+ coarser/finer re-segmented retransmissions) of the
    segments (offset, bytes) of ONE direction run.  Every byte stays covered; a segment moves at most
    3 positions."""
    segs = list(segs)
    if level == 0 or len(segs) == 0:
        return segs
    out = list(segs)
    # duplicates: exact copies and overlapping re-segmentations, inserted after the original
    ndup = rng.choice([0, 0, 1, 1, 2, 3]) if level >= 1 else 0
    for _ in range(ndup):
        i = rng.randrange(len(segs))
        off, b = segs[i]
        r = rng.random()
        if r < 0.5:
            dup = (off, b)
        elif r < 0.75 and i + 1 < len(segs):
            dup = (off, b + segs[i + 1][1])            # coalesced retransmission
        else:
            k = rng.randrange(0, len(b))
            dup = (off + k, b[k:])                       # partial retransmission
        pos = out.index(segs[i]) + 1 + rng.randrange(0, 3)
        out.insert(min(pos, len(out)), dup)
    if level >= 2:
        i = 0
        while i + 1 < len(out):
            if rng.random() < 0.3:
                j = min(len(out) - 1, i + rng.randrange(1, 4))
                x = out.pop(i)
                out.insert(j, x)
                i = j + 1
            else:
                i += 1
    return out


def render_tcp(rng, conv, t0, level, isn=None, acks=True, wrap=False):
    """wrap=False: initial sequence numbers are chosen so that no direction crosses 2^32 (gopacket's
    Sequence.Difference is off by one across the wrap; that regime is kept apart, see notes/C05.md)."""
    M = 1 << 32
    tot = {"c": sum(len(b) for d, b in conv.msgs if d == "c") + 3, "s": sum(len(b) for d, b in conv.msgs if d == "s") + 3}
    if wrap:
        ic = (M - rng.randrange(1, tot["c"] + 1)) % M
        is_ = (M - rng.randrange(1, tot["s"] + 1)) % M if rng.random() < 0.5 else rng.randrange(1 << 31)
    else:
        ic = rng.choice([0, 1, 1000, 0x7ffffff0, M - tot["c"] - 1, rng.randrange(M - tot["c"])])
        is_ = rng.choice([0, 5, 0x80000000, M - tot["s"] - 1, rng.randrange(M - tot["s"])])
    if isn:
        ic, is_ = isn
    ts = t0
    pkt(conv, "c", ts, flags="S", seq=ic, ack=0, data=b"")
    ts = next_ts(rng, ts, 3000000)
    pkt(conv, "s", ts, flags="SA", seq=is_, ack=(ic + 1) % M, data=b"")
    ts = next_ts(rng, ts, 3000000)
    pkt(conv, "c", ts, flags="A", seq=(ic + 1) % M, ack=(is_ + 1) % M, data=b"")
    nxt = {"c": ic + 1, "s": is_ + 1}
    for d, b in conv.msgs:
        o = "s" if d == "c" else "c"
        segs = perturb(rng, segment(rng, b), level)
        base = nxt[d]
        for off, sb in segs:
            ts = next_ts(rng, ts, 5000000)
            pkt(conv, d, ts, flags=rng.choice(["A", "PA"]), seq=(base + off) % M, ack=nxt[o] % M, data=sb)
            if acks and rng.random() < 0.3:
                ts = next_ts(rng, ts, 1000000)
                # pure ACK of the peer; acknowledges at most what was sent (value is not checked by the assembler)
                pkt(conv, o, ts, flags="A", seq=nxt[o] % M, ack=(base + off + len(sb)) % M, data=b"")
        nxt[d] = base + len(b)
    if conv.close == "fin":
        a = conv.closer
        b_ = "s" if a == "c" else "c"
        ts = next_ts(rng, ts, 3000000)
        pkt(conv, a, ts, flags="FA", seq=nxt[a] % M, ack=nxt[b_] % M, data=b"")
        nxt[a] += 1
        if rng.random() < 0.5:
            ts = next_ts(rng, ts, 3000000)
            pkt(conv, b_, ts, flags="A", seq=nxt[b_] % M, ack=nxt[a] % M, data=b"")
        ts = next_ts(rng, ts, 3000000)
        pkt(conv, b_, ts, flags="FA", seq=nxt[b_] % M, ack=nxt[a] % M, data=b"")
        nxt[b_] += 1
        ts = next_ts(rng, ts, 3000000)
        pkt(conv, a, ts, flags="A", seq=nxt[a] % M, ack=nxt[b_] % M, data=b"")
    elif conv.close == "rst":
        a = conv.closer
        b_ = "s" if a == "c" else "c"
        ts = next_ts(rng, ts, 3000000)
        pkt(conv, a, ts, flags=rng.choice(["R", "RA"]), seq=nxt[a] % M, ack=nxt[b_] % M, data=b"")
    return ts


def gen_msgs(rng, proto):
    n = rng.choice([0, 1, 1, 2, 2, 3, 4, 6]) if proto == "TCP" else rng.choice([1, 1, 2, 3, 5, 8])
    msgs = []
    d = rng.choice(["c", "c", "c", "s"]) if proto == "TCP" else "c"
    for i in range(n):
        r = rng.random()
        ln = rng.randrange(1, 6) if r < 0.3 else rng.randrange(1, 300) if r < 0.9 else rng.randrange(300, 3000)
        if proto == "UDP":
            ln = min(ln, 1200)
            if rng.random() < 0.08:
                ln = 0
        msgs.append((d, rand_payload(rng, ln)))
        if rng.random() < (0.75 if proto == "TCP" else 0.5):
            d = "s" if d == "c" else "c"
    if proto == "UDP":
        # the first datagram defines the client
        msgs[0] = ("c", msgs[0][1])
    return msgs


class CaptureSet:
    def __init__(self, name):
        self.name = name
        self.convs = []
        self.packets = []      # global wire order
        self.files = []        # file names
        self.assign = []       # file index of every packet of self.packets
        self.regime = ""

    def records(self):
        """(packet, file index) in the order the records are written to the capture files.  Default = wire order;
        regime "unsorted" gives packets an explicit record position "rpos" (records NOT in timestamp order inside a file)."""
        idx = sorted(range(len(self.packets)), key=lambda i: self.packets[i].get("rpos", i))
        return [(self.packets[i], self.assign[i]) for i in idx]

    def file_packets(self):
        out = [[] for _ in self.files]
        for p, f in self.records():
            out[f].append(p)
        return out


def gen_convs(rng, regime, nconv=None):
    """-> list of Conv with rendered packets (absolute ts in us)."""
    convs = []
    nconv = nconv or rng.choice([1, 2, 3, 4, 6, 9])
    used = {}
    fam_bias = rng.choice([4, 4, 6, None])
    for cid in range(nconv):
        fam = fam_bias or rng.choice([4, 6])
        proto = rng.choice(["TCP", "UDP"]) if regime not in ("udp-only", "udp-collide", "udp-reuse") else "UDP"
        if regime == "tcp-only" or regime == "seqwrap":
            proto = "TCP"
        for _ in range(50):
            a, b = host(rng, fam), host(rng, fam)
            pa, pb = rng.choice([1000, 1001, 2000, 40000, rng.randrange(1024, 65536)]), rng.choice([80, 1000, 2000, 53, 31337])
            if regime == "udp-collide" and convs and rng.random() < 0.7:
                o = rng.choice(convs)
                # same hash bucket: hosts/ports permuted (hash = ah^bh^ap^bp)
                a, b = o.client[0], o.server[0]
                pa, pb = rng.choice([(o.server[1], o.client[1]), (o.client[1] ^ 1, o.server[1] ^ 1), (o.client[1], o.server[1])])
                if rng.random() < 0.5:
                    a, b = b, a
            if (a, pa) == (b, pb):
                continue
            k = (proto, frozenset([(a, pa), (b, pb)]))
            if k in used:
                continue
            used[k] = 1
            break
        else:
            continue
        c = Conv(cid, proto, (a, pa), (b, pb), gen_msgs(rng, proto),
                 close=rng.choice(["fin", "fin", "rst", "none"]) if proto == "TCP" else "none", closer=rng.choice(["c", "s"]))
        convs.append(c)
    return convs


def gen_capture_set(rng, name, regime):
    cs = CaptureSet(name)
    cs.regime = regime
    convs = gen_convs(rng, regime)
    level = {"plain": 0, "dup": 1}.get(regime, 2)
    span = rng.choice([0, 1000, 1000000, 60000000, 400000000])
    t_end = {}
    for c in convs:
        t0 = rng.randrange(0, span + 1)
        if c.proto == "TCP":
            te = render_tcp(rng, c, t0, level, wrap=(regime == "seqwrap"))
        else:
            te = render_udp(rng, c, t0, long_gaps=(regime in ("udp-reuse", "udp-only")))
        t_end[c.cid] = te
    if regime == "udp-reuse":
        # second flow on the same 4-tuple after the inactivity timeout; first sender may be either side
        extra = []
        for c in list(convs):
            if c.proto == "UDP" and rng.random() < 0.7:
                cl, sv = (c.client, c.server) if rng.random() < 0.5 else (c.server, c.client)
                c2 = Conv(len(convs) + len(extra), "UDP", cl, sv, gen_msgs(rng, "UDP"))
                gap = rng.choice([TIMEOUT_US + 1, TIMEOUT_US + 1, TIMEOUT_US + 1000, 2 * TIMEOUT_US])
                render_udp(rng, c2, t_end[c.cid] + gap)
                extra.append(c2)
        convs += extra
    cs.convs = convs
    order = list(range(len(convs)))
    rng.shuffle(order)
    rank = {c.cid: order[i] for i, c in enumerate(convs)}
    allp = [p for c in convs for p in c.pkts]
    allp.sort(key=lambda p: (p["ts"], rank[p["cid"]], p["seqno"]))
    cs.packets = allp
    return cs


def cut_files(rng, cs, mode="contig", nfiles=None, cuts=None):
    """contig: cut the global sequence into 1-5 consecutive files named in cut order.
    flowsplit: every conversation goes to one file (overlapping time ranges, names shuffled)."""
    n = len(cs.packets)
    nfiles = nfiles or rng.choice([1, 2, 2, 3, 3, 4, 5])
    nfiles = max(1, min(nfiles, n))
    if mode == "contig":
        if cuts is None:
            cuts = sorted(rng.sample(range(1, n), nfiles - 1)) if nfiles > 1 else []
        cuts = sorted(set(c for c in cuts if 0 < c < n))
        nfiles = len(cuts) + 1
        cs.files = ["c%d.pcap" % i for i in range(nfiles)]
        cs.assign, f = [], 0
        for i in range(n):
            while f < len(cuts) and i >= cuts[f]:
                f += 1
            cs.assign.append(f)
    else:
        names = ["k%d.pcap" % i for i in range(nfiles)]
        rng.shuffle(names)
        cs.files = names
        m = {c.cid: rng.randrange(nfiles) for c in cs.convs}
        cs.assign = [m[p["cid"]] for p in cs.packets]
        # drop empty files
        usedf = sorted(set(cs.assign))
        remap = {f: i for i, f in enumerate(usedf)}
        cs.files = [names[f] for f in usedf]
        cs.assign = [remap[f] for f in cs.assign]
    if cs.regime == "unsorted":
        shuffle_records(rng, cs)
    return cs


def partitions_in_order(rng, nfiles):
    """random partition of 0..nfiles-1 (in this order) into consecutive batches"""
    out, cur = [], [0]
    for i in range(1, nfiles):
        if rng.random() < 0.5:
            out.append(cur)
            cur = []
        cur.append(i)
    out.append(cur)
    return out


# ---------------------------------------------------------------- rendering / parsing
def render_case(cs, runs):
    """runs: [(label, snapevery, [(flags, [fileidx...])...])]"""
    labels = [l for l, _, _ in runs]
    if len(set(labels)) != len(labels):
        raise ValueError("duplicate run labels in set %s: %s" % (cs.name, labels))
    for _, _, steps in runs:
        for _, files in steps:
            if any(f < 0 or f >= len(cs.files) for f in files):
                raise ValueError("schedule of set %s names a capture that does not exist: %s" % (cs.name, steps))
    L = ["CASE " + cs.name]
    for f in cs.files:
        L.append("F " + f)
    for p, f in cs.records():
        d = p["data"].hex() or "-"
        if p["proto"] == "TCP":
            L.append("P %d %d %s %d %s %d T %s %d %d %s" % (f, p["ts"], p["src"], p["sport"], p["dst"], p["dport"], p["flags"], p["seq"], p["ack"], d))
        else:
            L.append("P %d %d %s %d %s %d U %s" % (f, p["ts"], p["src"], p["sport"], p["dst"], p["dport"], d))
    for label, snapevery, steps in runs:
        L.append("RUN %s %d" % (label, snapevery))
        for flags, files in steps:
            L.append("IMPORT %d %s" % (flags, " ".join(map(str, files))))
    L.append("END")
    return "\n".join(L) + "\n"


def parse_out(path):
    """-> {case: {run: {"steps": [ {hdr..., "streams": {id: stream}} ], "panic": str|None}}}"""
    res = {}
    if not os.path.exists(path):
        return res
    case = run_ = step = None
    for line in open(path):
        tok = line.split()
        if not tok:
            continue
        if tok[0] == "CASE":
            case = res.setdefault(tok[1], {})
        elif tok[0] == "RUN":
            run_ = case.setdefault(tok[1], {"steps": [], "panic": None})
        elif tok[0] == "STEP":
            kv = dict(x.split("=", 1) for x in tok[2:])
            step = {"k": int(tok[1]), "streams": {}}
            for k in ("upd", "reset", "added"):
                step[k] = [] if kv.get(k, "-") == "-" else [int(x) for x in kv[k].split(",")]
            step["proc"], step["new"], step["err"], step["snaps"] = int(kv["proc"]), int(kv["new"]), kv["err"], kv.get("snaps", "-")
            run_["steps"].append(step)
        elif tok[0] == "S":
            pk = [] if tok[5] == "-" else [tuple(x.split(".")) for x in tok[5].split(",")]
            pk = [(int(a), int(b), c) for a, b, c in pk]
            chunks = [] if tok[6] == "-" else [(x[0], bytes.fromhex(x[1:])) for x in tok[6].split(",")]
            runs = []
            for d, b in chunks:
                if not b:
                    continue
                if runs and runs[-1][0] == d:
                    runs[-1] = (d, runs[-1][1] + b)
                else:
                    runs.append((d, b))
            ca, cp = tok[3].rsplit(":", 1)
            sa, sp = tok[4].rsplit(":", 1)
            step["streams"][int(tok[1])] = {"id": int(tok[1]), "proto": tok[2], "client": (ca, int(cp)), "server": (sa, int(sp)),
                                            "pk": pk, "runs": runs}
        elif tok[0] in ("PANIC", "DUMPERR"):
            run_["panic"] = line.strip()
    return res


def canon_stream(s):
    """id-free canonical form of a visible stream"""
    return (s["proto"], s["client"], s["server"], tuple(s["pk"]), tuple((d, b.hex()) for d, b in s["runs"]))


def canon_visible(streams):
    return sorted(canon_stream(s) for s in streams.values())


def show_stream(s):
    return "%s %s:%d>%s:%d pk=%s data=%s" % (s["proto"], s["client"][0], s["client"][1], s["server"][0], s["server"][1],
                                               ",".join("%d.%d%s" % p for p in s["pk"]),
                                               ",".join(d + b.hex() for d, b in s["runs"]) or "-")


# ---------------------------------------------------------------- C05 oracle
def expected_streams(cs):
    """ground truth: one stream per conversation: (proto, client, server, runs, packet ids)"""
    fidx = {}
    cnt = [0] * len(cs.files)
    for p, f in cs.records():
        fidx[(p["cid"], p["seqno"])] = (f, cnt[f])
        cnt[f] += 1
    exp = []
    for c in cs.convs:
        pks = tuple(fidx[(c.cid, p["seqno"])] + (p["dir"],) for p in sorted(
            c.pkts, key=lambda p: cs.packets.index(p)))
        exp.append({"proto": c.proto, "client": c.client, "server": c.server, "runs": c.runs(), "pk": list(pks), "cid": c.cid})
    return exp


def oracle_c05(cs, visible):
    """-> list of human-readable mismatches between ground truth and visible streams."""
    exp = expected_streams(cs)
    errs = []
    vis = list(visible.values())
    used = set()
    for e in exp:
        cands = [s for s in vis if s["proto"] == e["proto"] and s["pk"] and s["pk"][0][:2] == e["pk"][0][:2]]
        if len(cands) != 1:
            alt = [s for s in vis if s["proto"] == e["proto"] and {s["client"], s["server"]} == {e["client"], e["server"]}]
            errs.append("conversation %d (%s %s>%s, first packet %s): %d visible streams start with its first packet; streams on its endpoints: %s"
                        % (e["cid"], e["proto"], e["client"], e["server"], e["pk"][0][:2], len(cands), [show_stream(s) for s in alt]))
            continue
        s = cands[0]
        used.add(s["id"])
        if s["client"] != e["client"] or s["server"] != e["server"]:
            errs.append("conversation %d: endpoints %s>%s, expected %s>%s" % (e["cid"], s["client"], s["server"], e["client"], e["server"]))
        if s["runs"] != e["runs"]:
            errs.append("conversation %d: payload runs %s, expected %s" % (e["cid"], [(d, b.hex()) for d, b in s["runs"]], [(d, b.hex()) for d, b in e["runs"]]))
        if s["pk"] != e["pk"]:
            errs.append("conversation %d: packets %s, expected %s" % (e["cid"], s["pk"], e["pk"]))
    for s in vis:
        if s["id"] not in used:
            errs.append("extra visible stream id %d: %s" % (s["id"], show_stream(s)))
    return errs


# ---------------------------------------------------------------- execution
RUN_ID = str(os.getpid())          # concurrent checks of one property must not share case/output files
_RUN_FILES = []


def _cleanup():
    if not os.environ.get("VERIF_KEEP"):
        for f in _RUN_FILES:
            try:
                os.remove(f)
            except OSError:
                pass


atexit.register(_cleanup)


def run_impl(text, tag, prop="c05", overlay_extra=None, env_extra=None, timeout=900, repo_patch=None):
    d = os.path.join(BUILD, "run", prop)
    os.makedirs(d, exist_ok=True)
    tag = tag + "_" + RUN_ID
    cf = os.path.join(d, "cases_%s.txt" % tag)
    open(cf, "w").write(text)
    iout = os.path.join(d, "impl_%s.out" % tag)
    if os.path.exists(iout):
        os.remove(iout)
    _RUN_FILES.extend([cf, iout])
    files = dict(HARNESS)
    files.update(overlay_extra or {})
    ov = go_overlay(files, prop + "_" + tag)
    _RUN_FILES.append(ov)
    env = {"VERIF_CASES": cf, "VERIF_OUT": iout}
    env.update(env_extra or {})
    rc, out, dt = go_test("./internal/index/builder/", ov, "^TestVerifC05$", env, timeout=timeout)
    note = "" if rc == 0 else "go harness rc=%d: %s" % (rc, out[-2000:])
    return parse_out(iout), note, cf, dt


def snap_overlay():
    """Overlay that replaces builder.go by a copy in which the literal snapshot interval 100_000 is the
    package variable verifSnapEvery (defined in the harness, default 100_000): lets the quick tier place
    snapshot points every few packets.  Fails loudly if the literal is not found exactly once."""
    src = open(os.path.join(REPO, "internal/index/builder/builder.go")).read()
    pat = "nPacketsAfterSnapshot >= 100_000"
    if src.count(pat) != 1:
        raise RuntimeError("snapshot interval literal not found exactly once in builder.go")
    d = os.path.join(BUILD, "overlay")
    os.makedirs(d, exist_ok=True)
    p = os.path.join(d, "builder_snapevery_%s.go" % RUN_ID)
    if p not in _RUN_FILES:
        _RUN_FILES.append(p)
    open(p, "w").write(src.replace(pat, "nPacketsAfterSnapshot >= verifSnapEvery"))
    return {"internal/index/builder/builder.go": p}


# ---------------------------------------------------------------- (de)serialisation for replays
def set_to_json(cs, runs):
    return {"name": cs.name, "regime": cs.regime, "files": cs.files, "assign": cs.assign, "lossy": getattr(cs, "lossy", None), "dgap": getattr(cs, "dgap", None),
            "lossinfo": {str(k): list(v) for k, v in getattr(cs, "lossinfo", {}).items()} or None,
            "convs": [c.to_json() for c in cs.convs],
            "packets": [{k: (v.hex() if isinstance(v, bytes) else v) for k, v in p.items()} for p in cs.packets],
            "runs": [[l, se, [[f, fl] for f, fl in st]] for l, se, st in runs]}


def set_from_json(o):
    cs = CaptureSet(o["name"])
    cs.regime, cs.files, cs.assign = o.get("regime", ""), o["files"], o["assign"]
    if o.get("lossy") is not None:
        cs.lossy = o["lossy"]
    if o.get("dgap") is not None:
        cs.dgap = o["dgap"]
    if o.get("lossinfo"):
        cs.lossinfo = {int(k): tuple(v) for k, v in o["lossinfo"].items()}
    byid = {}
    for c in o["convs"]:
        cv = Conv(c["cid"], c["proto"], tuple(c["client"]), tuple(c["server"]), [(d, bytes.fromhex(b)) for d, b in c["msgs"]], c["close"], c["closer"])
        byid[cv.cid] = cv
        cs.convs.append(cv)
    for p in o["packets"]:
        q = dict(p)
        q["data"] = bytes.fromhex(p["data"])
        cs.packets.append(q)
        byid[q["cid"]].pkts.append(q)
    runs = [(l, se, [(f, fl) for f, fl in st]) for l, se, st in o["runs"]]
    return cs, runs


def restrict(cs, cids):
    """capture set with only the conversations cids (files, assignment of the kept packets unchanged)"""
    out = CaptureSet(cs.name)
    out.regime, out.files = cs.regime, cs.files
    if hasattr(cs, "lossy"):
        out.lossy = cs.lossy
    if hasattr(cs, "dgap"):
        out.dgap = cs.dgap
    if hasattr(cs, "lossinfo"):
        out.lossinfo = cs.lossinfo
    keep = set(cids)
    out.convs = [c for c in cs.convs if c.cid in keep]
    out.packets = [p for p in cs.packets if p["cid"] in keep]
    out.assign = [f for p, f in zip(cs.packets, cs.assign) if p["cid"] in keep]
    return out


def nonempty_runs(cs, runs):
    """drop files that became empty (after restrict) from the schedules; renumber"""
    used = sorted(set(cs.assign))
    remap = {f: i for i, f in enumerate(used)}
    cs2 = CaptureSet(cs.name)
    cs2.regime, cs2.convs, cs2.packets = cs.regime, cs.convs, cs.packets
    if hasattr(cs, "lossy"):
        cs2.lossy = cs.lossy
    if hasattr(cs, "dgap"):
        cs2.dgap = cs.dgap
    if hasattr(cs, "lossinfo"):
        cs2.lossinfo = cs.lossinfo
    cs2.files = [cs.files[f] for f in used]
    cs2.assign = [remap[f] for f in cs.assign]
    runs2 = []
    for l, se, steps in runs:
        st2 = [(fl, [remap[f] for f in fs if f in remap]) for fl, fs in steps]
        st2 = [(fl, fs) for fl, fs in st2 if fs]
        runs2.append((l, se, st2))
    return cs2, runs2


# ---------------------------------------------------------------- known findings (shapes)
KF_REUSE = "tcp-4tuple-reuse-swallowed"
KF_WRAP = "gopacket-seqwrap-retransmission"


def expected_with_reuse_defect(cs):
    """What the code is known to do when a TCP 4-tuple is reused within the 5 minute close timeout: the
    later conversation's packets are appended to the first stream (directions relative to the first
    stream's client) and its payload is dropped.  -> expected stream list under that defect."""
    exp = expected_streams(cs)
    out, first = [], {}
    for e in sorted(exp, key=lambda e: e["pk"][0][:2] if False else cs.packets.index(next(p for p in cs.packets if p["cid"] == e["cid"]))):
        k = (e["proto"], frozenset([e["client"], e["server"]]))
        if e["proto"] == "TCP" and k in first:
            f = first[k]
            flip = f["client"] != e["client"]
            f["pk"] = f["pk"] + [(a, b, ({"c": "s", "s": "c"}[d] if flip else d)) for a, b, d in e["pk"]]
            continue
        e = dict(e)
        first[k] = e
        out.append(e)
    return out


def compare_to_expected(exp, visible):
    """exact comparison (id-free) of visible streams with an expected stream list"""
    a = sorted((e["proto"], e["client"], e["server"], tuple(e["pk"]), tuple((d, b.hex()) for d, b in e["runs"])) for e in exp)
    return a == canon_visible(visible)


def wrap_dirs(conv):
    """directions of a TCP conversation whose sequence numbers cross 2^32"""
    out = set()
    for d in "cs":
        seqs = [p["seq"] for p in conv.pkts if p["dir"] == d]
        ends = [p["seq"] + len(p["data"]) + 1 for p in conv.pkts if p["dir"] == d]
        if seqs and (max(seqs) - min(seqs) > (1 << 31) or max(ends) >= (1 << 32)):
            out.add(d)
    return out


def classify_c05(cs, visible):
    """-> ("ok"|"known:<slug>"|"violation", errs)"""
    errs = oracle_lossy(cs, visible) if getattr(cs, "lossinfo", None) else oracle_c05(cs, visible)
    if not errs:
        return "ok", []
    if cs.regime == "tcp-reuse-early" and compare_to_expected(expected_with_reuse_defect(cs), visible):
        return "known:" + KF_REUSE, errs
    if cs.regime == "seqwrap":
        okshape = True
        for e in errs:
            m = re.match(r"conversation (\d+): payload runs", e)
            if not m:
                okshape = False
                break
            c = next(c for c in cs.convs if c.cid == int(m.group(1)))
            if c.proto != "TCP" or not wrap_dirs(c):
                okshape = False
        if okshape:
            return "known:" + KF_WRAP, errs
    return "violation", errs


# ---------------------------------------------------------------- generation of the check's case list
MAIN_REGIMES = ["plain", "dup", "reorder", "tiecut", "udp-only", "udp-collide", "udp-reuse", "tcp-only", "tcp-reuse-late", "mixed", "tiecut", "udp-bucket", "reorder", "udp-bucket", "unsorted", "unsorted", "lossy-end", "lossy-end"]


def gen_reuse(rng, name, early):
    """two or three TCP conversations on one 4-tuple, one after the other (+ bystanders)"""
    cs = CaptureSet(name)
    cs.regime = "tcp-reuse-early" if early else "tcp-reuse-late"
    convs = gen_convs(rng, "mixed", rng.choice([0, 1, 2]))
    fam = rng.choice([4, 6])
    a, b = host(rng, fam), host(rng, fam)
    while a == b:
        b = host(rng, fam)
    cl, sv = (a, rng.randrange(1024, 65536)), (b, rng.choice([80, 443, 31337]))
    ts = rng.randrange(0, 1000000)
    n = rng.choice([2, 2, 3])
    chain = []
    for k in range(n):
        c = Conv(100 + k, "TCP", cl, sv, gen_msgs(rng, "TCP"), close=rng.choice(["fin", "fin", "rst"]), closer=rng.choice(["c", "s"]))
        te = render_tcp(rng, c, ts, rng.choice([0, 1, 2]))
        gap = rng.randrange(1, 200 * 1000000) if early else TIMEOUT_US + rng.choice([1, 1000, 60 * 1000000])
        ts = te + gap
        chain.append(c)
        if rng.random() < 0.3:
            cl, sv = sv, cl
    for c in convs:
        if c.proto == "TCP":
            render_tcp(rng, c, rng.randrange(0, 3000000), 1)
        else:
            render_udp(rng, c, rng.randrange(0, 3000000))
    for i, c in enumerate(convs + chain):
        c.cid = i
        for p in c.pkts:
            p["cid"] = i
    cs.convs = convs + chain
    allp = [p for c in cs.convs for p in c.pkts]
    allp.sort(key=lambda p: (p["ts"], p["cid"], p["seqno"]))
    cs.packets = allp
    return cs


def gen_tiecut(rng, name):
    """equal timestamps across file cuts: every timestamp is rounded down to a coarse quantum, so that whole groups of
    consecutive packets of one conversation (request and reply, handshake and data) share a timestamp; the contiguous
    cut then falls inside such groups, with the earlier file holding the higher or the lower in-file index.  The wire
    order (= ground truth) is the generated order; only (timestamp, capture file name, index) can reproduce it."""
    cs = gen_capture_set(rng, name, rng.choice(["mixed", "mixed", "plain", "dup"]))
    q = rng.choice([1000, 1000000, 5000000, 60000000])
    for p in cs.packets:
        p["ts"] = (p["ts"] // q) * q
    cs.regime = "tiecut"
    return cs


def cut_tiecut(rng, cs):
    """cuts placed between two packets of equal timestamp (preferably of the same conversation); file sizes vary so that
    both index orders occur (first file short -> low index on the early side)"""
    n = len(cs.packets)
    same = [i for i in range(1, n) if cs.packets[i]["ts"] == cs.packets[i - 1]["ts"]]
    same_conv = [i for i in same if cs.packets[i]["cid"] == cs.packets[i - 1]["cid"]]
    pool = same_conv or same or list(range(1, n))
    k = min(len(pool), rng.choice([1, 1, 2, 3]))
    cuts = rng.sample(pool, k) if pool else []
    if rng.random() < 0.5 and n > 2:
        cuts.append(rng.choice([1, 2]))           # a very short first file
    return cut_files(rng, cs, "contig", cuts=cuts)


def gen_udp_bucket(rng, name):
    """k >= 3 UDP flows in ONE bucket of udpreassembly (hash = FastHash(src addr) ^ FastHash(dst addr) ^ sport ^ dport:
    same host pair in either order, same sport^dport).  Some flows go idle (at the same or at different times) for more
    than the timeout while others stay alive across that flush; idle 4-tuples may come back later as new flows (either
    side first).  Exercises the in-place compaction of the bucket in FlushCloseOlderThan."""
    cs = CaptureSet(name)
    cs.regime = "udp-bucket"
    fam = rng.choice([4, 4, 6])
    a, b = host(rng, fam), host(rng, fam)
    while a == b:
        b = host(rng, fam)
    x = rng.choice([1, 1, 3, 256, 257, 0x1234])
    k = rng.choice([3, 3, 4, 5, 6])
    ports, tuples = set(), []
    while len(tuples) < k:
        ap = rng.randrange(1024, 60000)
        bp = ap ^ x
        if ap in ports or bp in ports or bp < 1 or bp > 65535:
            continue
        ports |= {ap, bp}
        tuples.append(((a, ap), (b, bp)) if rng.random() < 0.5 else ((b, ap), (a, bp)))
    S = 1000000
    t0 = rng.randrange(0, 5 * S)
    t_end = t0 + rng.randrange(7 * 60, 25 * 60) * S
    nlive = rng.randrange(1, k - 1)                      # at least two flows die
    order = list(range(k))
    rng.shuffle(order)
    live = set(order[:nlive])
    if rng.random() < 0.7:
        # the flows that die are created first (they precede the live ones in the bucket) ...
        order = [i for i in order if i not in live] + [i for i in order if i in live]
    common_die = t0 + rng.randrange(10, 120) * S
    together = rng.random() < 0.7                          # ... and time out at the same flush
    convs = []

    def mk(client, server, times):
        c = Conv(len(convs), "UDP", client, server, [])
        first = True
        for ts in times:
            d = "c" if first else rng.choice(["c", "s"])
            first = False
            data = rand_payload(rng, rng.choice([0, 1, 2, 5, 40]))
            c.msgs.append((d, data))
            pkt(c, d, ts, data=data)
        convs.append(c)
        return c

    starts = sorted(rng.randrange(t0, t0 + 8 * S) for _ in range(k))   # creation order = bucket order
    for idx, i in enumerate(order):
        cl, sv = tuples[i]
        ts, times = starts[idx], []
        if i in live:
            while ts < t_end:
                times.append(ts)
                ts += rng.choice([1, 5, 60, 200, 299, 300]) * S
            mk(cl, sv, times)
        else:
            die = common_die if (together or rng.random() < 0.4) else t0 + rng.randrange(10, 400) * S
            while ts <= die:
                times.append(ts)
                ts += rng.choice([1, 3, 20, 100]) * S
            times = times or [starts[idx]]
            mk(cl, sv, times)
            if rng.random() < 0.5:                         # the 4-tuple comes back after the timeout
                back = times[-1] + TIMEOUT_US + rng.choice([1, S, 90 * S])
                if back < t_end + 5 * 60 * S:
                    c2, s2 = (cl, sv) if rng.random() < 0.5 else (sv, cl)
                    step = rng.choice([1, 10, 100]) * S
                    mk(c2, s2, [back + j * step for j in range(rng.randrange(1, 4))])
    for c in gen_convs(rng, "mixed", rng.choice([0, 0, 1, 2])):     # bystanders in other buckets
        c.cid = len(convs)
        if c.proto == "TCP":
            render_tcp(rng, c, rng.randrange(t0, t_end), 1)
        else:
            render_udp(rng, c, rng.randrange(t0, t_end))
        for p_ in c.pkts:
            p_["cid"] = c.cid
        if not any(o.proto == c.proto and {o.client, o.server} == {c.client, c.server} for o in convs):
            convs.append(c)
    for i, c in enumerate(convs):
        c.cid = i
        for p_ in c.pkts:
            p_["cid"] = i
    cs.convs = convs
    allp = [p_ for c in convs for p_ in c.pkts]
    allp.sort(key=lambda p_: (p_["ts"], p_["cid"], p_["seqno"]))
    cs.packets = allp
    return cs


def gen_unsorted(rng, name):
    """capture files whose records are NOT in timestamp order (several capture threads, merged or re-written files): all
    timestamps are made distinct, so the wire order (= ground truth) is the timestamp order whatever the record order is;
    cut_files then permutes the records inside every file (rotation / reversal / shuffle: the first record is usually not
    the earliest and the last not the latest).  PacketTimestampMin/Max must be the min/max over ALL records."""
    cs = gen_capture_set(rng, name, rng.choice(["mixed", "mixed", "plain", "dup", "reorder", "tcp-only", "udp-collide"]))
    last = -1
    for p in cs.packets:
        p["ts"] = max(p["ts"], last + 1)
        last = p["ts"]
    cs.regime = "unsorted"
    return cs


def shuffle_records(rng, cs):
    pos = 0
    for f in range(len(cs.files)):
        idx = [i for i in range(len(cs.packets)) if cs.assign[i] == f]
        n = len(idx)
        mode = rng.choice(["rotate", "rotate", "reverse", "shuffle", "swap-ends"])
        if n >= 2:
            if mode == "rotate":
                k = rng.randrange(1, n)
                idx = idx[k:] + idx[:k]
            elif mode == "reverse":
                idx = idx[::-1]
            elif mode == "shuffle":
                rng.shuffle(idx)
            else:
                idx[0], idx[-1] = idx[-1], idx[0]
        for i in idx:
            cs.packets[i]["rpos"] = pos
            pos += 1


def gen_lossy_end(rng, name):
    """capture loss: one data segment (all its copies) of one direction of some TCP conversations is missing, so gopacket
    queues what follows the gap; it is emitted by the FlushAll at the end of the import or by the inactivity flush that a
    later flow in the same port bucket triggers.  The packet processed last belongs to the other side or to another
    stream.  Ground truth for such a conversation: per direction the exchanged bytes minus the missing ones, attributed to
    the right side (the ORDER of direction runs is not defined when payload is emitted late and is not compared)."""
    cs = gen_capture_set(rng, name, rng.choice(["tcp-only", "mixed", "plain", "dup"]))
    info = {}
    for c in cs.convs:
        if c.proto != "TCP":
            continue
        d = rng.choice("cs")
        cand = [p for p in c.pkts if p["dir"] == d and p["data"] and "S" not in p["flags"]]
        if len(cand) >= 2 and rng.random() < 0.8:
            first = min(cand, key=lambda p: p["seq"])
            later = [p for p in cand if p["seq"] + len(p["data"]) < max(q["seq"] + len(q["data"]) for q in cand)]
            if not later:
                continue
            drop = rng.choice(later)
            lo, hi = drop["seq"], drop["seq"] + len(drop["data"])
            gone = [p for p in cand if not (p["seq"] + len(p["data"]) <= lo or p["seq"] >= hi)]
            base = (c.pkts[0]["seq"] if d == "c" else c.pkts[1]["seq"]) + 1
            c.pkts = [p for p in c.pkts if not any(p is g for g in gone)]
            for i, p in enumerate(c.pkts):
                p["seqno"] = i
            info[c.cid] = (d, lo - base, hi - base)
    t_hi = max(p["ts"] for c in cs.convs for p in c.pkts)
    late = []
    if rng.random() < 0.5:
        for c in [c for c in cs.convs if c.cid in info][:2]:
            lc = Conv(len(cs.convs) + len(late), "TCP", ("0a0009%02x" % (len(late) + 1), c.client[1]), ("0a000a01", c.server[1]),
                      [("c", b"late")], close="fin")
            render_tcp(rng, lc, t_hi + TIMEOUT_US + rng.randrange(1, 100 * 1000000), 0, isn=(11, 22))
            late.append(lc)
    cs.convs += late
    allp = [p for c in cs.convs for p in c.pkts]
    allp.sort(key=lambda p: (p["ts"], p["cid"], p["seqno"]))
    cs.packets = allp
    cs.regime = "lossy"
    cs.lossy = sorted(info)
    cs.lossinfo = info
    return cs


def oracle_lossy(cs, visible):
    exp = expected_streams(cs)
    info = {int(k): v for k, v in cs.lossinfo.items()}
    errs, used = [], set()
    vis = list(visible.values())
    for e in exp:
        cands = [s for s in vis if s["proto"] == e["proto"] and s["pk"] and s["pk"][0][:2] == e["pk"][0][:2]]
        if len(cands) != 1:
            errs.append("conversation %d: %d visible streams start with its first packet" % (e["cid"], len(cands)))
            continue
        s = cands[0]
        used.add(s["id"])
        if s["client"] != e["client"] or s["server"] != e["server"]:
            errs.append("conversation %d: endpoints %s>%s, expected %s>%s" % (e["cid"], s["client"], s["server"], e["client"], e["server"]))
        if s["pk"] != e["pk"]:
            errs.append("conversation %d: packets %s, expected %s" % (e["cid"], s["pk"], e["pk"]))
        if e["cid"] in info:
            conv = next(c for c in cs.convs if c.cid == e["cid"])
            d0, lo, hi = info[e["cid"]]
            for d in "cs":
                full = b"".join(b for dd, b in conv.msgs if dd == d)
                want = full
                if d == d0:
                    # what the capture still carries of that direction (other copies of neighbouring bytes may be gone too)
                    base = (conv.pkts[0]["seq"] if d == "c" else next(p for p in conv.pkts if p["dir"] == "s")["seq"]) + 1
                    cov = set()
                    for p in conv.pkts:
                        if p["dir"] == d and p["data"] and "S" not in p["flags"]:
                            cov.update(range(p["seq"] - base, p["seq"] - base + len(p["data"])))
                    want = bytes(full[i] for i in range(len(full)) if i in cov)
                got = b"".join(b for dd, b in s["runs"] if dd == d)
                if got != want:
                    errs.append("conversation %d (capture gap %s[%d:%d]): %s payload %s, expected %s" % (e["cid"], d0, lo, hi, d, got.hex()[:200], want.hex()[:200]))
        elif s["runs"] != e["runs"]:
            errs.append("conversation %d: payload runs %s, expected %s" % (e["cid"], [(d, b.hex()) for d, b in s["runs"]][:6], [(d, b.hex()) for d, b in e["runs"]][:6]))
    for s in vis:
        if s["id"] not in used:
            errs.append("extra visible stream id %d: %s" % (s["id"], show_stream(s)[:200]))
    return errs


def gen_set(rng, name, regime):
    if regime == "lossy-end":
        return gen_lossy_end(rng, name)
    if regime == "unsorted":
        return gen_unsorted(rng, name)
    if regime == "udp-bucket":
        return gen_udp_bucket(rng, name)
    if regime == "tcp-reuse-early":
        return gen_reuse(rng, name, True)
    if regime == "tcp-reuse-late":
        return gen_reuse(rng, name, False)
    if regime == "tiecut":
        return gen_tiecut(rng, name)
    return gen_capture_set(rng, name, regime)


def schedules_c05(rng, cs, mode):
    nf = len(cs.files)
    runs = [("oneshot", 100000, [(0, rng.sample(range(nf), nf))])]
    if nf > 1:
        if mode == "contig":
            runs.append(("chrono", 100000, [(rng.choice([0, 0, 1]), rng.sample(b, len(b))) for b in partitions_in_order(rng, nf)]))
        else:
            perm = rng.sample(range(nf), nf)
            runs.append(("anyorder", 100000, [(rng.choice([0, 0, 1]), [perm[j] for j in b]) for b in partitions_in_order(rng, nf)]))
    return runs


def check_set(cs, runs, res):
    """-> list of (label, verdict, errs, panic)"""
    out = []
    for label, _, steps in runs:
        r = res.get(cs.name, {}).get(label)
        if not r or len(r["steps"]) != len(steps) or r["panic"]:
            out.append((label, "violation", ["harness produced no/incomplete result: %s" % (r and r["panic"])], r and r["panic"]))
            continue
        if any(st["err"] != "-" for st in r["steps"]):
            out.append((label, "violation", ["FromPcap returned an error: %s" % [st["err"] for st in r["steps"]]], None))
            continue
        v, errs = classify_c05(cs, r["steps"][-1]["streams"])
        out.append((label, v, errs, None))
    return out


def model_exe():
    return build_model(PROP, "ExtractC05.v", os.path.join(ROOT, "ocaml/c05"),
                       ["theories/BuilderOrder.v", "theories/Udp.v", "theories/Tcp.v", "theories/Attrib.v", "theories/Import.v"])[0]


def setup():
    """bin/check --setup: extraction + driver build (the Coq project is built by setup itself)"""
    model_exe()


def model_flags():
    """switches of the faithful model that follow the tree under test (tiny translator: one grep)"""
    src = open(os.path.join(REPO, "internal/index/builder/builder.go")).read()
    return ["flushall"] if re.search(r"range tcpAssembler \{\s*a\.FlushAll\(\)", src) else []


def run_model(exe, cf, tag, prop="c05"):
    d = os.path.join(BUILD, "run", prop)
    mout = os.path.join(d, "model_%s_%s.out" % (tag, RUN_ID))
    if os.path.exists(mout):
        os.remove(mout)
    _RUN_FILES.append(mout)
    # extracted list functions are not tail recursive: large capture sets need a large stack
    rc, out, dt = run(["bash", "-c", 'ulimit -s unlimited 2>/dev/null || ulimit -s 4000000 2>/dev/null; exec "$@"', "bash", exe, cf, mout] + model_flags(), timeout=1800)
    note = "" if rc == 0 else "model driver rc=%d: %s" % (rc, out[-800:])
    return parse_out(mout), note, dt


def step_obs(st):
    """what is compared between model and implementation after one import"""
    return {"new": st["new"], "upd": sorted(st["upd"]), "reset": sorted(st["reset"]), "added": sorted(st["added"]),
            "streams": {i: canon_stream(s) for i, s in st["streams"].items()}}


def diff_model_impl(cs, runs, res, mres):
    for label, _, steps in runs:
        a, b = res.get(cs.name, {}).get(label), mres.get(cs.name, {}).get(label)
        if not a or not b:
            return label, "missing result (impl %s, model %s)" % (bool(a), bool(b))
        if len(a["steps"]) != len(b["steps"]):
            return label, "step count impl %d model %d" % (len(a["steps"]), len(b["steps"]))
        for k, (x, y) in enumerate(zip(a["steps"], b["steps"])):
            ox, oy = step_obs(x), step_obs(y)
            if ox != oy:
                for f in ("new", "upd", "reset", "added"):
                    if ox[f] != oy[f]:
                        return label, "step %d %s: impl %s model %s" % (k, f, ox[f], oy[f])
                for i in sorted(set(ox["streams"]) | set(oy["streams"])):
                    if ox["streams"].get(i) != oy["streams"].get(i):
                        return label, "step %d stream %d: impl %s model %s" % (k, i, ox["streams"].get(i), oy["streams"].get(i))
    return None, None


def snaps_drift(cs, runs, res, mres):
    n = 0
    for label, _, steps in runs:
        a, b = res.get(cs.name, {}).get(label), mres.get(cs.name, {}).get(label)
        if a and b:
            n += sum(1 for x, y in zip(a["steps"], b["steps"]) if x["snaps"] != y["snaps"])
    return n


def main(tier, seed, replay=None):
    t0 = time.time()
    nomodel = bool(os.environ.get("VERIF_NOMODEL"))      # development only
    proof = Proof(PROP, tier=tier)
    exe = None if nomodel else model_exe()
    rng = random.Random(seed)
    known, fixed = known_findings(PROP)
    known_ids = {k.get("id") for k in known}
    sets = []
    cdir = os.path.join(ROOT, "corpus", PROP)
    if replay:
        o = json.load(open(replay))
        sets.append(set_from_json(o["set"]))
    else:
        if os.path.isdir(cdir):
            for fn in sorted(os.listdir(cdir)):
                if fn.endswith(".json"):
                    sets.append(set_from_json(json.load(open(os.path.join(cdir, fn)))["set"]))
        nmain = 400 if tier == "quick" else 4000
        nknown = 30 if tier == "quick" else 300
        for i in range(nmain):
            regime = MAIN_REGIMES[i % len(MAIN_REGIMES)]
            cs = gen_set(rng, "m%d" % i, regime)
            mode = rng.choice(["contig", "contig", "flowsplit"])
            if regime == "tiecut":
                mode = "contig"
                cut_tiecut(rng, cs)
            else:
                cut_files(rng, cs, mode)
            sets.append((cs, schedules_c05(rng, cs, mode)))
        for i in range(nknown):
            cs = gen_set(rng, "k%d" % i, ["tcp-reuse-early", "seqwrap"][i % 2])
            cut_files(rng, cs, "contig")
            sets.append((cs, schedules_c05(rng, cs, "contig")))
    # a few sets are also imported with snapshot points every few packets (overlay, see snap_overlay)
    snap_sets = []
    if not replay:
        for i in range(60 if tier == "quick" else 600):
            cs = gen_set(rng, "s%d" % i, MAIN_REGIMES[i % len(MAIN_REGIMES)])
            cut_files(rng, cs, "contig")
            nf = len(cs.files)
            runs = [("snap%d" % k, rng.choice([1, 2, 3, 5, 8, 20]),
                     [(rng.choice([0, 0, 1, 2, 3]), rng.sample(b, len(b))) for b in partitions_in_order(rng, nf)]) for k in range(2)]
            snap_sets.append((cs, runs))
    use_overlay = {cs.name for cs, _ in snap_sets}
    if replay and json.load(open(replay)).get("snap_overlay"):
        use_overlay = {cs.name for cs, _ in sets}
        snap_sets, sets = sets, []
    res, mres, note, mnote, dt_go, dt_model = {}, {}, "", "", 0.0, 0.0
    for tag, group in (("main", sets), ("snap", snap_sets)):
        if not group:
            continue
        text = "".join(render_case(cs, runs) for cs, runs in group)
        r, n1, cf, dt = run_impl(text, tag, overlay_extra=(snap_overlay() if tag == "snap" else None))
        m, n2, dtm = (r, "", 0.0) if nomodel else run_model(exe, cf, tag)
        res.update(r)
        mres.update(m)
        note, mnote, dt_go, dt_model = note + n1, mnote + n2, dt_go + dt, dt_model + dtm
    sets = sets + snap_sets
    nviol, kf_seen, verdicts = 0, {}, {"ok": 0}
    samples = []
    model_diffs = 0
    wrap_diffs = unexplained_diffs = 0
    drift = 0
    for cs, runs in sets:
        results = check_set(cs, runs, res)
        for label, v, errs, panic in results:
            verdicts[v] = verdicts.get(v, 0) + 1
            if replay:
                print("run %s: %s" % (label, v))
                for e in errs:
                    print("   ", e[:400])
                for who, rr_ in (("impl ", res), ("model", mres)):
                    st_ = (rr_.get(cs.name, {}).get(label) or {"steps": []})["steps"]
                    if st_:
                        print("    %s visible after the last import:" % who)
                        for s_ in st_[-1]["streams"].values():
                            print("        id %d %s" % (s_["id"], show_stream(s_)[:300]))
                print("    spec (ground truth):")
                for e_ in expected_streams(cs):
                    print("        %s %s:%d>%s:%d data=%s" % (e_["proto"], e_["client"][0], e_["client"][1], e_["server"][0], e_["server"][1],
                                                             ",".join(d + b.hex() for d, b in e_["runs"])[:300] or "-"))
        bad = [(l, v, e) for l, v, e, _ in results if v == "violation"]
        for l, v, e, _ in results:
            if v.startswith("known:"):
                slug = v.split(":", 1)[1]
                if slug in known_ids:
                    kf_seen.setdefault(slug, []).append(cs.name + "/" + l)
                else:
                    bad.append((l, "violation", e + ["(shape of finding %s, which is not listed in KNOWN_FINDINGS.txt)" % slug]))
        if bad and nviol == 0:
            label = bad[0][0]

            def fails(cids, label=label, cs=cs, runs=runs):
                sub, r2 = nonempty_runs(restrict(cs, cids), [r for r in runs if r[0] == label])
                if not sub.packets:
                    return False
                rr, _, _, _ = run_impl(render_case(sub, r2), "min", overlay_extra=(snap_overlay() if cs.name in use_overlay else None))
                return any(v == "violation" for _, v, _, _ in check_set(sub, r2, rr))
            cids = ddmin([c.cid for c in cs.convs], fails, max_tests=40)
            sub, r2 = nonempty_runs(restrict(cs, cids), [r for r in runs if r[0] == label])
            rr, _, _, _ = run_impl(render_case(sub, r2), "min", overlay_extra=(snap_overlay() if cs.name in use_overlay else None))
            mm = rr if nomodel else run_model(exe, os.path.join(BUILD, "run", "c05", "cases_min_%s.txt" % RUN_ID), "min")[0]
            violation(PROP, {"property": PROP, "kind": "impl!=ground-truth", "snap_overlay": cs.name in use_overlay, "set": set_to_json(sub, r2), "errors": check_set(sub, r2, rr)[0][2][:10],
                             "impl_visible": [show_stream(s) for s in (rr.get(sub.name, {}).get(label, {"steps": [{"streams": {}}]})["steps"] or [{"streams": {}}])[-1]["streams"].values()],
                             "model_visible": [show_stream(s) for s in (mm.get(sub.name, {}).get(label, {"steps": [{"streams": {}}]})["steps"] or [{"streams": {}}])[-1]["streams"].values()],
                             "expected": ["%s %s>%s %s" % (e["proto"], e["client"], e["server"], [(d, b.hex()) for d, b in e["runs"]]) for e in expected_streams(sub)],
                             "seed": seed, "replay_cmd": "bin/check C05 --replay <this file>"})
            nviol += 1
        elif bad:
            nviol += 1
        # model vs implementation (all steps, ids, classification, packets, payload)
        l, why = diff_model_impl(cs, runs, res, mres)
        drift += snaps_drift(cs, runs, res, mres)
        if l is not None:
            model_diffs += 1
            if replay:
                print("model/impl difference in run %s: %s" % (l, why[:600]))
            if cs.regime == "seqwrap":
                wrap_diffs += 1                  # the ideal model is right there, the library is not (known finding)
            elif not bad:
                unexplained_diffs += 1
            if not bad and cs.regime != "seqwrap" and unexplained_diffs == 1:
                violation(PROP, {"property": PROP, "kind": "model!=impl", "broken": "correspondence: the extracted model of the import (theories/Import.v) and builder.FromPcap disagree on an input where the implementation meets the ground truth; the theorems no longer describe this code",
                                 "run": l, "difference": why[:1500], "set": set_to_json(cs, runs), "seed": seed}, no_input=True)
                nviol += 1
        if len(samples) < 3 and not bad:
            samples.append({"regime": cs.regime, "files": cs.files, "packets": len(cs.packets), "convs": len(cs.convs), "runs": [[l, st] for l, _, st in runs]})
    for slug, where in sorted(kf_seen.items()):
        what = {KF_REUSE: "a TCP 4-tuple reused within 5 minutes after FIN/RST close is not indexed as its own stream (packets appended to the old stream, payload dropped)",
                KF_WRAP: "TCP payload wrong when a retransmitted/out-of-order segment crosses the 2^32 sequence wrap (gopacket reassembly Sequence.Difference)"}[slug]
        print("KNOWN-FINDING: property=%s id=%s %s [%d runs, e.g. %s]" % (PROP, slug, what, len(where), where[0]), flush=True)
    if note or mnote:
        violation(PROP, {"property": PROP, "broken": "correspondence harness could not run against this tree", "note": note + mnote}, no_input=True)
        nviol += 1
    if not proof.good() and nviol == 0:
        violation(PROP, {"property": PROP, "broken": proof.failure_text(), "searched_sets": len(sets)}, no_input=True)
        nviol += 1
    regimes = {}
    for cs, runs in sets:
        regimes[cs.regime] = regimes.get(cs.regime, 0) + 1
    cov = proof.coverage()
    nruns = sum(len(r) for _, r in sets)
    cov.update({
        "trusted_base": TRUSTED_COMMON + [
            "gopacket (layers decoding, reassembly.Assembler, ip4defrag) and libpcap are MODELLED, not verified: theories/Tcp.v is an ideal reassembler used as their specification; the tie to them is this correspondence only",
            "the pcap generator (harness/c05, pcapgo + layers serialisation) and the ground-truth renderer in checks/c05.py",
            "sequence numbers are unbounded in the model (no 2^32 wrap); IPv4 fragments, SCTP, non-IP frames and truncated packets are not generated",
            "index writer/reader round trip is C01's subject; here it is exercised (streams are read back through index.Reader) but not modelled"],
        "evaluations": nruns,
        "distinct_nontrivial": len({(cs.name, l) for cs, runs in sets for l, _, _ in runs if len(cs.packets) >= 4}),
        "rule": "seeded capture sets: 1-9 conversations (TCP handshake-complete, segmentation 1..1400 bytes, duplicates / coalesced / partial retransmissions, reordering by <=3 positions inside a direction run, FIN/RST/none; UDP both directions, zero-length datagrams, 4-tuple reuse after the timeout, colliding hash buckets; IPv4 and IPv6), merged by timestamp (ties included), cut into 1-5 files (contiguous or per-flow overlapping), imported one-shot and in batches (restart of the Builder between imports); every run: visible streams = ground truth (exactly one stream per conversation, endpoints, protocol, packets with directions, payload runs) and = extracted model after every import",
        "regimes": regimes, "verdicts": verdicts, "packets_total": sum(len(cs.packets) for cs, _ in sets),
        "model_impl_differences": model_diffs, "model_impl_differences_in_seqwrap_regime": wrap_diffs,
        "model_impl_differences_unexplained": unexplained_diffs, "internal_drift": {"snapshot lists differing (not an alarm)": drift},
        "known_findings_seen": {k: len(v) for k, v in kf_seen.items()}, "fixed_findings": fixed,
        "go_seconds": round(dt_go, 1), "model_seconds": round(dt_model, 1), "coq_seconds": round(proof.seconds, 1),
        "samples": samples, "disagreements": nviol,
    })
    write_evidence(PROP, tier, seed, cov,
                   ["gopacket reassembly behaves like the ideal reassembler Tcp.v on handshake-complete conversations (checked by correspondence, not proved)",
                    "capture timestamps have microsecond resolution and lie after 1970; a TCP conversation has no gap above 5 minutes"],
                   time.time() - t0, nviol)
    return 1 if nviol else 0
