"""C17 -- bitmask containers behave like sets of integers.

Coq: theories/Bitmask.v (model), BitmaskProofs.v, props/C17.v.
Tie: op histories over 4 registers x 3 representations, executed by the Go code
(harness/c17, overlay in package bitmask), by the extracted model and by a Python
integer-set oracle; every observation (IsSet on probes, OnesCount, Len, IsZero,
Equal against every register, Next) is compared three ways.
"""
import os
import shutil
import random
import time

from vplib import *

PROP = "C17"
NREG = 4
BOUND = [0, 1, 2, 62, 63, 64, 65, 126, 127, 128, 129, 191, 192, 193, 255, 256, 319, 320, 511, 512]


def pick_bit(rng, sets):
    r = rng.random()
    if r < 0.35:
        return rng.choice(BOUND)
    if r < 0.65:
        s = rng.choice(sets)
        if s:
            b = rng.choice(sorted(s)) + rng.choice([-2, -1, 0, 1, 2])
            return max(0, b)
    if r < 0.95:
        return rng.randrange(0, 200)
    return rng.randrange(0, 3000)


def runs_of(s):
    out, xs = [], sorted(s)
    for x in xs:
        if out and out[-1][1] + 1 == x:
            out[-1][1] = x
        else:
            out.append([x, x])
    return out


def apply_op(sets, op):
    """Integer-set oracle. Returns (dest, ret)."""
    k, d = op[0], op[1]
    ret = None
    if k == "set":
        sets[d] = sets[d] | {op[2]}
    elif k == "unset":
        sets[d] = sets[d] - {op[2]}
    elif k == "flip":
        sets[d] = sets[d] ^ {op[2]}
    elif k == "or":
        sets[d] = sets[d] | sets[op[2]]
    elif k == "and":
        sets[d] = sets[d] & sets[op[2]]
    elif k == "xor":
        sets[d] = sets[d] ^ sets[op[2]]
    elif k == "sub":
        sets[d] = sets[d] - sets[op[2]]
    elif k == "orc":
        sets[d] = sets[op[2]] | sets[op[3]]
    elif k == "andc":
        sets[d] = sets[op[2]] & sets[op[3]]
    elif k == "xorc":
        sets[d] = sets[op[2]] ^ sets[op[3]]
    elif k == "subc":
        sets[d] = sets[op[2]] - sets[op[3]]
    elif k == "copy":
        sets[d] = set(sets[op[2]])
    elif k == "shrink":
        pass
    elif k == "inject":
        b, v = op[2], op[3]
        sets[d] = {x for x in sets[d] if x < b} | {x + 1 for x in sets[d] if x >= b} | ({b} if v else set())
    elif k == "extract":
        b = op[2]
        ret = b in sets[d]
        sets[d] = {x for x in sets[d] if x < b} | {x - 1 for x in sets[d] if x > b}
    elif k == "make":
        sets[d] = set(range(op[2], op[3] + 1))
    else:
        raise ValueError(k)
    return d, ret


def probes_for(sets, op, d):
    ps = {0, 63, 64, 65, 127, 128}
    for x in op[2:]:
        if isinstance(x, int) and x > 3:
            ps |= {x - 1, x, x + 1, x + 63, x + 64}
    for mn, mx in runs_of(sets[d])[:6]:
        ps |= {max(0, mn - 1), mn, mx, mx + 1}
    ps = sorted(ps)
    return ps[:28]


def expected_line(sets, op, d, ret, probes):
    s = sets[d]
    bits = "".join("1" if p in s else "0" for p in probes)
    eq = "".join("1" if s == sets[i] else "0" for i in range(NREG))
    core = "%s/%d/%d/%s/%s" % (bits, len(s), (max(s) + 1) if s else 0, "1" if not s else "0", eq)
    nx = []
    for p in probes:
        c = [x for x in s if x >= p]
        nx.append(str(min(c)) if c else "-")
    line = "C:%s S:%s L:%s/%s" % (core, core, core, ",".join(nx))
    if ret is not None:
        line += " ret=" + ("11" if ret else "00")
    return line


def op_text(op, probes):
    return " ".join(str(int(x)) if isinstance(x, bool) else str(x) for x in op) + " ; " + ",".join(map(str, probes))


def gen_history(rng, maxlen):
    sets = [set() for _ in range(NREG)]
    ops, lines, exp = [], [], []
    n = rng.randrange(1, maxlen + 1)
    kinds = ["set"] * 6 + ["unset"] * 4 + ["flip"] * 3 + ["or", "and", "xor", "sub"] * 2 + \
            ["orc", "andc", "xorc", "subc"] * 2 + ["copy", "shrink"] + ["inject"] * 4 + ["extract"] * 4 + ["make"] * 3
    for _ in range(n):
        k = rng.choice(kinds)
        d = rng.randrange(NREG)
        if k in ("set", "unset", "flip"):
            op = (k, d, pick_bit(rng, sets))
        elif k in ("or", "and", "xor", "sub"):
            op = (k, d, rng.randrange(NREG))
        elif k in ("orc", "andc", "xorc", "subc"):
            op = (k, d, rng.randrange(NREG), rng.randrange(NREG))
        elif k == "copy":
            op = (k, d, rng.randrange(NREG))
        elif k == "shrink":
            op = (k, d)
        elif k == "inject":
            op = (k, d, pick_bit(rng, sets), rng.random() < 0.5)
        elif k == "extract":
            op = (k, d, pick_bit(rng, sets))
        else:
            mn = pick_bit(rng, sets)
            op = (k, d, mn, mn + rng.choice([0, 0, 1, 2, 5, 63, 64, 65, 130]))
        ops.append(op)
    return ops


def render(histories):
    """-> (case file text, expected lines per history)"""
    text, exp = [], []
    for hi, ops in enumerate(histories):
        sets = [set() for _ in range(NREG)]
        text.append("H %d" % hi)
        e = []
        for op in ops:
            d, ret = apply_op(sets, op)
            pr = probes_for(sets, op, d)
            text.append(op_text(op, pr))
            e.append(expected_line(sets, op, d, ret, pr))
        exp.append(e)
    return "\n".join(text) + "\n", exp


def split_out(path):
    hs = []
    if not os.path.exists(path):
        return hs
    for line in open(path):
        line = line.rstrip("\n")
        if line.startswith("H "):
            hs.append([])
        elif hs:
            hs[-1].append(line)
    return hs


def execute(histories, exe, tag):
    """Runs implementation and model on the histories. Returns (impl, model, expected, note)."""
    d = os.path.join(BUILD, "run", "c17", "p%d" % os.getpid())
    os.makedirs(d, exist_ok=True)
    cf = os.path.join(d, "cases_%s.txt" % tag)
    text, exp = render(histories)
    open(cf, "w").write(text)
    iout, mout = os.path.join(d, "impl_%s.out" % tag), os.path.join(d, "model_%s.out" % tag)
    for p in (iout, mout):
        if os.path.exists(p):
            os.remove(p)
    ov = go_overlay({"internal/tools/bitmask/zz_verif_c17_test.go": os.path.join(ROOT, "harness/c17/zz_verif_c17_test.go")}, "c17-%d" % os.getpid())
    rc, out, _ = go_test("./internal/tools/bitmask/", ov, "^TestVerifC17$", {"VERIF_CASES": cf, "VERIF_OUT": iout}, timeout=600)
    note = "" if rc == 0 else "go harness rc=%d: %s" % (rc, out[-1500:])
    rc2, out2, _ = run([exe, cf, mout], timeout=600)
    if rc2 != 0:
        note += " model driver rc=%d: %s" % (rc2, out2[-500:])
    return split_out(iout), split_out(mout), exp, note


def first_diff(impl, model, exp):
    """index of first history where anything differs, with kind"""
    for i in range(len(exp)):
        im = impl[i] if i < len(impl) else None
        mo = model[i] if i < len(model) else None
        if im != exp[i]:
            return i, "impl!=spec"
        if mo != exp[i]:
            return i, "model!=spec"
    return None, None


def setup():
    return build_model(PROP, "ExtractC17.v", os.path.join(ROOT, "ocaml/c17"), ["theories/Bitmask.v"])[0]


def main(tier, seed, replay=None):
    t0 = time.time()
    proof = Proof(PROP, tier=tier)
    exe = setup()
    rng = random.Random(seed)
    nhist = 1500 if tier == "quick" else 60000
    histories = []
    cdir = os.path.join(ROOT, "corpus", PROP)
    if replay:
        histories = [[tuple(o) for o in json.load(open(replay))["history"]]]
    else:
        if os.path.isdir(cdir):
            for fn in sorted(os.listdir(cdir)):
                histories.append([tuple(o) for o in json.load(open(os.path.join(cdir, fn)))["history"]])
        ncorpus = len(histories)
        for i in range(nhist):
            histories.append(gen_history(rng, 12 if i % 3 else 60))
    impl, model, exp, note = execute(histories, exe, "main")
    idx, kind = first_diff(impl, model, exp)
    nviol = 0
    if replay:
        print("history:", histories[0])
        for a, b, c in zip(exp[0], impl[0] if impl else [], model[0] if model else []):
            print("spec ", a, "\nimpl ", b, "\nmodel", c, "\n")
    if idx is not None:
        # minimise the failing history (same kind of failure)
        def fails(h):
            im, mo, ex, _ = execute([h], exe, "min")
            j, k = first_diff(im, mo, ex)
            return j is not None and k == kind
        h = ddmin(list(histories[idx]), fails)
        im, mo, ex, _ = execute([h], exe, "min")
        obj = {"property": PROP, "kind": kind, "history": [list(o) for o in h], "spec": ex[0],
               "impl": im[0] if im else None, "model": mo[0] if mo else None, "seed": seed, "note": note,
               "replay_cmd": "bin/check C17 --replay <this file>"}
        if kind == "impl!=spec":
            violation(PROP, obj)
        else:
            obj["broken"] = "correspondence: the extracted model (theories/Bitmask.v) disagrees with the set oracle although the implementation agrees; theorem props/C17.v no longer covers the model"
            violation(PROP, obj, no_input=True)
        nviol += 1
    elif note:
        violation(PROP, {"property": PROP, "broken": "correspondence harness could not run against this tree", "note": note}, no_input=True)
        nviol += 1
    if not proof.good():
        # a proof obligation no longer checks; the search above is the failing-input search
        if nviol == 0:
            violation(PROP, {"property": PROP, "broken": proof.failure_text(), "searched_histories": len(histories)}, no_input=True)
            nviol += 1
    distinct = {repr(h) for h in histories if len(h) >= 3}
    opcount = {}
    for h in histories:
        for o in h:
            opcount[o[0]] = opcount.get(o[0], 0) + 1
    cov = proof.coverage()
    cov.update({
        "trusted_base": TRUSTED_COMMON + [
            "model uses unbounded N for uint: equals the code while no bit index reaches 2^63 (harness keeps operands < 2^13)",
            "ShortBitmask's linked word list is modelled as a non-empty list of words"],
        "evaluations": sum(len(h) for h in histories),
        "distinct_nontrivial": len(distinct),
        "rule": "seeded op histories (1-60 ops) over 4 registers x {Connected,Short,Long}Bitmask; operands biased to word boundaries and to run ends +-2; non-trivial = >=3 ops, distinct by op list; every op observed (IsSet on <=28 probes, OnesCount, Len, IsZero, Equal vs all registers, Next) and compared impl = model = integer-set oracle",
        "histories": len(histories),
        "op_distribution": opcount,
        "traces_validated_against_impl": len(impl),
        "samples": [[list(o) for o in histories[-1]], exp[-1][-1] if exp and exp[-1] else ""],
        "disagreements": nviol,
    })
    known, fixed = known_findings(PROP)
    cov["fixed_findings"] = fixed
    shutil.rmtree(os.path.join(BUILD, "run", "c17", "p%d" % os.getpid()), ignore_errors=True)
    write_evidence(PROP, tier, seed, cov,
                   ["uint never wraps (bit indexes < 2^63)", "Go test harness observes through the exported methods only"],
                   time.time() - t0, nviol)
    return 1 if nviol else 0
