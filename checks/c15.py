"""C15 -- the converter cache behaves like a map from stream to latest output.

Coq: theories/CacheFile.v (model of cachefile.go), CacheFileProofs.v, props/C15.v.
Tie: op histories over {store, inval, reset, compact, reopen, crash n, sweep} executed by
  (1) the real cacheFile (harness/c15, overlay in package converters),
  (2) the extracted model (ocaml/c15/driver.ml), once with all C15 repairs on and, when
      KNOWN_FINDINGS.txt lists an unrepaired C15 defect, once more with that repair off,
  (3) the oracle below: a Python log of records with a dict on top (the property itself).
After every op the three print Contains / StreamCount / Data / DataForSearch for every stream
of the history; the lines must be identical.  Text after ' # ' on a line is internal drift
information (sizes, free space) and never raises an alarm.

Case file (one op per line, '; ids' = streams to observe):
  H <n> <id>:<t0> ...            new history, fresh file; t0 = first-packet time (ns) of the stream
  store <id> <chunk> ...         chunk = dir,content,time_ns,cthex ; content = h<hex> | p<len>.<seed>
  inval <id,id,...> | reset | compact | reopen | crash <n> | sweep <from>
"""
import os
import random
import time
import zlib

from vplib import *

PROP = "C15"
RUNDIR = os.path.join(BUILD, "run", "c15", "p%d" % os.getpid())     # concurrent checks must not share files
W64 = 1 << 64
HDR = 8
MIN_FREE = 16 * 1024 * 1024
FINDINGS = ["torn-tail", "inval-memory-only", "empty-chunk"]     # order = fixes flags of the model
PATCH = {"torn-tail": "fixes/C15-1-torn-tail.patch", "inval-memory-only": "fixes/C15-2-tombstone.patch",
         "empty-chunk": "fixes/C15-3-empty-chunk.patch"}


# ---------------------------------------------------------------- oracle
def content_bytes(spec):
    if spec[0] == "h":
        return bytes.fromhex(spec[1:])
    n, seed = spec[1:].split(".")
    n, seed = int(n), int(seed)
    if n > 65536:       # the pattern has period 65536
        period = bytes((seed + 131 * i + 7 * (i >> 8)) & 255 for i in range(65536))
        return (period * (n // 65536 + 1))[:n]
    return bytes((seed + 131 * i + 7 * (i >> 8)) & 255 for i in range(n))


_content_cache = {}


def content(spec):
    c = _content_cache.get(spec)
    if c is None:
        c = content_bytes(spec)
        if len(_content_cache) > 4000:
            _content_cache.clear()
        _content_cache[spec] = c
    return c


def varint_len(n):
    return max(1, (n.bit_length() + 6) // 7)


def trunc_us(d):
    return d // 1000 if d >= 0 else -((-d) // 1000)


def record_size(t0, chunks):
    """Size of the record setData writes (without the 8-byte stream id); chunks non-empty."""
    sz, want = 0, 0
    for d, c, t, ct in chunks:
        if d != want:
            sz += 1
        sz += varint_len(len(content(c)))
        want = 1 - d
    sz += 2
    sz += sum(len(content(c)) for _, c, _, _ in chunks)
    last = t0
    for _, _, t, _ in chunks:
        sz += varint_len(trunc_us(t - last) % W64)
        last = t
    cts = {}
    for i, (_, _, _, ct) in enumerate(chunks):
        if ct:
            cts[ct] = i
    for ct, mx in cts.items():
        bl = mx // 8 + 1
        sz += (8 * bl + 6) // 7 + varint_len(len(ct) // 2) + len(ct) // 2
    return sz + 1


class Oracle:
    """The property: a log of records (what is on disk, in order) and the map it denotes."""

    def __init__(self, t0):
        self.t0 = t0
        self.log = []          # dicts: id, chunks, size (with header), dead

    def live(self):
        return {r["id"]: r for r in self.log if not r["dead"]}

    def sizes(self):
        return HDR + sum(r["size"] for r in self.log), sum(r["size"] for r in self.log if r["dead"])

    def drop_dead(self):
        self.log = [r for r in self.log if not r["dead"]]

    def kill(self, sid):
        for r in self.log:
            if r["id"] == sid and not r["dead"]:
                r["dead"] = True
                return True
        return False

    def load(self):
        """what opening the file means: the latest record of a stream wins, dead space is reclaimed"""
        seen = {}
        for r in self.log:
            if r["dead"]:
                continue
            if r["id"] in seen:
                seen[r["id"]]["dead"] = True
            seen[r["id"]] = r
        self.drop_dead()

    def cut(self, n):
        if n < HDR:
            self.log = []
            return
        keep, end = [], HDR
        for r in self.log:
            end += r["size"]
            if end > n:
                break
            keep.append(r)
        self.log = keep

    def apply(self, op):
        k = op[0]
        if k == "store":
            sid = op[1]
            chunks = [c for c in op[2] if len(content(c[1])) > 0]
            self.kill(sid)
            fs, free = self.sizes()
            if free >= MIN_FREE and free >= fs // 2:
                self.drop_dead()
            self.log.append({"id": sid, "chunks": chunks, "size": HDR + record_size(self.t0[sid], chunks), "dead": False})
            return "ok"
        if k == "inval":
            hit = sorted({i for i in op[1] if self.kill(i)})
            return "inv=" + ",".join(map(str, hit))
        if k == "reset":
            self.log = []
        elif k == "compact":
            self.drop_dead()
        elif k == "reopen":
            self.load()
        elif k == "crash":
            self.cut(op[1])
            self.load()
        else:
            raise ValueError(k)
        return "ok"

    def obs_id(self, sid):
        r = self.live().get(sid)
        if r is None:
            return "%d:0:D-:S-" % sid
        t, last = self.t0[sid], self.t0[sid]
        cb = sb = 0
        ds, ps, cd, sd = [], ["0,0"], [], []
        for d, c, tm, ct in r["chunks"]:
            b = content(c)
            t += 1000 * trunc_us(tm - last)
            last = tm
            if d == 0:
                cb += len(b)
                cd.append(b)
            else:
                sb += len(b)
                sd.append(b)
            ds.append("%d,%d,%08x,%d,%s" % (d, len(b), zlib.crc32(b), t, ct))
            ps.append("%d,%d" % (cb, sb))
        return "%d:1:D%s:S%s" % (sid, ";".join(["%d,%d" % (cb, sb)] + ds),
                                 ";".join(["%d,%d,%08x,%08x" % (cb, sb, zlib.crc32(b"".join(cd)), zlib.crc32(b"".join(sd)))] + ps))

    def obs(self, ids):
        return " ".join(["C=%d" % len(self.live())] + [self.obs_id(i) for i in ids])

    def sweep(self, frm, ids):
        size = self.sizes()[0]
        out, start, prev, cache = ["sweep size=%d" % size], 0, "", {}
        ends, e = [], HDR
        for r in self.log:
            e += r["size"]
            ends.append(e)
        for n in range(frm, size + 1):
            k = -1 if n < HDR else sum(1 for x in ends if x <= n)
            if k not in cache:
                o = Oracle(self.t0)
                o.log = [dict(r) for r in self.log]
                o.cut(n)
                o.load()
                cache[k] = "ok:%08x" % zlib.crc32(o.obs(ids).encode())
            if cache[k] != prev:
                if prev:
                    out.append("%d-%d:%s" % (start, n - 1, prev))
                start, prev = n, cache[k]
        if prev:
            out.append("%d-%d:%s" % (start, size, prev))
        return " ".join(out)


# ---------------------------------------------------------------- cases
def op_text(op):
    k = op[0]
    if k == "store":
        return "store %d %s" % (op[1], " ".join("%d,%s,%d,%s" % tuple(c) for c in op[2]))
    if k == "inval":
        return "inval " + ",".join(map(str, op[1]))
    if k in ("crash", "sweep"):
        return "%s %d" % (k, op[1])
    return k


def render(histories):
    """-> (case file text, expected lines per history, drift lines per history)"""
    text, exp, drift = [], [], []
    for hi, h in enumerate(histories):
        ids = sorted(int(i) for i in h["ids"])
        t0 = {int(i): int(t) for i, t in h["ids"].items()}
        text.append("H %d %s" % (hi, " ".join("%d:%d" % (i, t0[i]) for i in ids)))
        o, e, dr = Oracle(t0), [], []
        for op in h["ops"]:
            if op[0] == "sweep":
                text.append(op_text(op))
                e.append(o.sweep(op[1], ids))
                dr.append("")
                continue
            ret = o.apply(op)
            text.append(op_text(op) + " ; " + " ".join(map(str, ids)))
            e.append(ret + " " + o.obs(ids))
            fs, free = o.sizes()
            dr.append("fs=%d free=%d" % (fs, free))
        exp.append(e)
        drift.append(dr)
    return "\n".join(text) + "\n", exp, drift


SMALL_IDS = [0, 1, 2, 3, 63, 64, 65, 4095]
BIG_IDS = [(1 << 32) + 5, (1 << 63), (1 << 64) - 2]
CTS = ["61", "666f6f", "746578742f68746d6c", "62" * 130, "00", "ff80"]


def gen_chunks(rng, t0, regime):
    if regime == "many":
        n = rng.choice([9, 17, 64, 65, 70, 130])
    elif regime == "big":
        n = rng.randrange(1, 5)
    else:
        n = rng.choice([0, 1, 1, 2, 2, 3, 4, 5, 7, 9])
    t = t0 + rng.choice([0, 0, 1000, 5000000, 123456789000, -2000, -7000000])
    chunks, d = [], rng.randrange(2) if rng.random() < 0.5 else 0
    ctset = rng.sample(CTS, rng.choice([0, 0, 1, 2, 3]))
    for i in range(n):
        if regime == "big":
            ln = rng.choice([16383, 16384, 16385, 70000, 127, 128, 1])
        elif regime == "many":
            ln = rng.choice([1, 1, 2, 3, 127, 128])
        else:
            ln = rng.choice([1, 1, 2, 3, 5, 126, 127, 128, 129, 300, 1000])
        if regime == "empty" and rng.random() < 0.35:
            ln = 0
        if ln <= 8 and rng.random() < 0.7:
            spec = "h" + bytes(rng.randrange(256) for _ in range(ln)).hex()
        else:
            spec = "p%d.%d" % (ln, rng.randrange(256))
        if regime == "ns":
            t += rng.choice([0, 1, 999, 1001, 123456, 999999999, -1, -999, -1500, 86400 * 10 ** 9 + 7])
        else:
            t += rng.choice([0, 0, 1000, 2000, 1000000, 1000000000, 37000, 3600 * 10 ** 9]) if rng.random() < 0.93 \
                else rng.choice([-1000, -5000000])
        ct = rng.choice(ctset) if ctset and rng.random() < 0.4 else ""
        chunks.append([d, spec, t, ct])
        if rng.random() < 0.65:          # runs in the same direction otherwise
            d = 1 - d
    return chunks


def gen_history(rng, regime=None):
    regime = regime or rng.choice(["small"] * 5 + ["ns"] * 2 + ["many"] * 2 + ["empty"] * 2 + ["big"])
    ids = rng.sample(SMALL_IDS, rng.randrange(2, 5))
    if rng.random() < 0.25:
        ids.append(rng.choice(BIG_IDS))
    t0 = {i: 1700000000 * 10 ** 9 + rng.randrange(0, 10 ** 12) * rng.choice([1000, 1000, 1]) for i in ids}
    o = Oracle(t0)
    ops = []
    nops = rng.randrange(2, 9 if regime == "big" else 26)
    for _ in range(nops):
        r = rng.random()
        live = sorted(o.live())
        if r < 0.45 or not o.log:
            sid = rng.choice(ids) if rng.random() < 0.7 or not live else rng.choice(live)
            op = ["store", sid, gen_chunks(rng, t0[sid], regime)]
        elif r < 0.65:
            cand = [i for i in ids if i < 100000]
            sel = rng.sample(cand, rng.randrange(1, min(3, len(cand)) + 1)) if cand else []
            if rng.random() < 0.3:
                sel.append(rng.choice([5, 77, 640]))
            op = ["inval", sorted(set(sel))]
        elif r < 0.77:
            op = ["reopen"]
        elif r < 0.84:
            op = ["compact"]
        elif r < 0.87:
            op = ["reset"]
        else:
            size = o.sizes()[0]
            ends, e = [HDR], HDR
            for rec in o.log:
                e += rec["size"]
                ends.append(e)
            q = rng.random()
            if q < 0.15:
                n = rng.randrange(0, HDR + 1)
            elif q < 0.5:
                n = max(0, min(size, rng.choice(ends) + rng.choice([-1, 0, 1, 2, 7, 8, 9])))
            else:
                lo = ends[-2] if len(ends) > 1 else 0
                n = rng.randrange(lo, size + 1)
            op = ["crash", n]
        o.apply(op)
        ops.append(op)
    size = o.sizes()[0]
    if size < 6000 and rng.random() < 0.35:
        ends, e = [HDR], HDR
        for rec in o.log:
            e += rec["size"]
            ends.append(e)
        frm = ends[-3] if len(ends) > 2 else 0
        ops.append(["sweep", max(frm, size - 400)])
    return {"ids": {str(i): t0[i] for i in ids}, "ops": ops, "regime": regime}


def huge_histories():
    """Natural compaction (thorough tier): freeSize crosses 16 MiB and half of the file inside setData.
    A: five 4 MiB streams, four invalidated (free = 16 MiB + 4 records' overhead >= 16 MiB) -> the next store compacts.
    B: the same with one stream 64 bytes shorter so that free stays just below 16 MiB -> no compaction,
       then one more invalidation -> compaction."""
    t = 1700000000 * 10 ** 9
    mib4 = 4 * 1024 * 1024
    hs = []
    for name, ln in (("huge-compacts", mib4 - 24), ("huge-just-below", mib4 - 40)):
        # a record with one chunk of ln bytes takes ln + 25 bytes: four of them are >= 16 MiB only for the first
        ids = [1, 2, 3, 4, 5, 6]
        ops = []
        for i in ids[:5]:
            ops.append(["store", i, [[0, "p%d.%d" % (ln if i != 5 else 1000, i), t + 1000 * i, ""], [1, "p3.%d" % i, t + 2000 * i, "61"]]])
        ops.append(["inval", [1, 2, 3]])
        ops.append(["store", 6, [[0, "h78", t + 5, ""]]])
        ops.append(["inval", [4]])
        ops.append(["store", 6, [[0, "h79", t + 6, ""]]])         # compacts in the first history only
        ops.append(["store", 3, [[1, "h7a", t + 7, ""]]])
        ops.append(["inval", [5]])
        ops.append(["store", 2, [[1, "h7b", t + 8, ""]]])         # now also in the second
        ops.append(["reopen"])
        hs.append({"ids": {str(i): t for i in ids}, "ops": ops, "regime": name})
    return hs


# ---------------------------------------------------------------- execution
def split_out(path):
    hs = []
    if not os.path.exists(path):
        return hs
    for line in open(path):
        line = line.rstrip("\n")
        if line.startswith("H "):
            hs.append([])
        elif hs:
            hs[-1].append(line)
    return hs


def core(line):
    return line.split(" # ", 1)[0]


def run_model(exe, cf, out, flags, timeout=1500):
    if os.path.exists(out):
        os.remove(out)
    # the extracted list functions are not tail recursive: unlimited stack, and a large minor heap because
    # OCaml 4 scans the whole stack at every minor collection (quadratic on 16 MiB files otherwise)
    rc, o, _ = run(["bash", "-c", 'ulimit -s unlimited; export OCAMLRUNPARAM=s=256M; exec "$0" "$@"', exe, cf, out, flags], timeout=timeout)
    return split_out(out), ("" if rc == 0 else " model driver(%s) rc=%d: %s" % (flags, rc, o[-500:]))


def big_histories(rng, n):
    """In-session compaction inside setData (quick and thorough): a few streams of 3-8 MiB are replaced and/or
    invalidated until at least 16 MiB and half of the file are free, so that one of the following stores runs
    truncateFile itself; every stream (in particular the one just stored) is read after every op.  Run against the
    implementation and the oracle only: the extracted model needs minutes on 30 MiB byte lists (it runs the
    16 MiB histories of huge_histories() in the thorough tier)."""
    t = 1700000000 * 10 ** 9
    mib = 1024 * 1024
    hs = []
    for k in range(n):
        ids = rng.sample([0, 1, 2, 3, 5, 64, 4095], 4) + [7]
        t0 = {i: t + rng.randrange(0, 10 ** 9) * 1000 for i in ids}
        o = Oracle(t0)
        ops = []

        def big(sid, mb):
            ln = int(mb * mib) + rng.randrange(-3, 4)
            return ["store", sid, [[rng.randrange(2), "p%d.%d" % (ln, rng.randrange(256)), t0[sid] + 1000, rng.choice(["", "61"])],
                                   [1, "p%d.%d" % (rng.choice([1, 3, 200]), rng.randrange(256)), t0[sid] + 3000, ""]]]

        def small(sid):
            return ["store", sid, [[rng.randrange(2), "h%02x%02x" % (rng.randrange(256), rng.randrange(256)), t0[sid] + 2000, ""]]]
        todo = [big(i, rng.choice([3, 4, 5, 6, 8])) for i in ids[:4]] + [small(7)]
        steps = 0
        while steps < 40:
            steps += 1
            if todo:
                op = todo.pop(0)
            else:
                fs, free = o.sizes()
                live = sorted(o.live())
                bigs = [i for i in live if i != 7 and o.live()[i]["size"] > mib]
                r = rng.random()
                if free >= MIN_FREE and free >= fs // 2:    # the next store compacts
                    op = small(rng.choice(ids)) if r < 0.6 else big(rng.choice(ids[:4]), rng.choice([3, 4]))
                elif bigs and r < 0.45:
                    op = ["inval", sorted(rng.sample(bigs, rng.randrange(1, min(2, len(bigs)) + 1)))]
                elif bigs and r < 0.75:
                    op = small(rng.choice(bigs)) if rng.random() < 0.6 else big(rng.choice(bigs), rng.choice([3, 5]))
                elif r < 0.9:
                    op = small(rng.choice(ids))
                else:
                    op = big(rng.choice(ids[:4]), rng.choice([3, 4, 6]))
            before = len(o.log)
            o.apply(op)
            ops.append(op)
            if op[0] == "store" and len(o.log) < before:        # this store compacted
                ops.append(small(rng.choice(ids)))
                ops.append(["inval", [rng.choice(ids[:4])]])
                ops.append(big(ids[0], 3))
                ops.append(["reopen"])
                break
        hs.append({"ids": {str(i): t0[i] for i in ids}, "ops": ops, "regime": "bigcompact"})
    return hs


def execute(histories, exe, tag, cfg_flags, want_impl=True, want_model=True):
    """-> dict(impl, model_all, model_cfg, spec, drift, note)"""
    d = RUNDIR
    os.makedirs(d, exist_ok=True)
    cf = os.path.join(d, "cases_%s.txt" % tag)
    text, exp, drift = render(histories)
    open(cf, "w").write(text)
    res = {"spec": exp, "drift": drift, "note": "", "impl": []}
    if want_impl:
        iout = os.path.join(d, "impl_%s.out" % tag)
        if os.path.exists(iout):
            os.remove(iout)
        ov = go_overlay({"internal/index/converters/zz_verif_c15_test.go": os.path.join(ROOT, "harness/c15/zz_verif_c15_test.go")}, "c15_p%d" % os.getpid())
        rc, out, _ = go_test("./internal/index/converters/", ov, "^TestVerifC15$", {"VERIF_CASES": cf, "VERIF_OUT": iout}, timeout=1500)
        if rc != 0:
            res["note"] += "go harness rc=%d: %s" % (rc, out[-1500:])
        res["impl"] = split_out(iout)
    if not want_model:
        res["model_all"] = res["model_cfg"] = [list(e) for e in exp]
        return res
    res["model_all"], n = run_model(exe, cf, os.path.join(d, "model_all_%s.out" % tag), "111")
    res["note"] += n
    if cfg_flags != "111":
        res["model_cfg"], n = run_model(exe, cf, os.path.join(d, "model_cfg_%s.out" % tag), cfg_flags)
        res["note"] += n
    else:
        res["model_cfg"] = res["model_all"]
    return res


def classify(res, i):
    """First differing line of history i -> (line index, kind) or (None, None).
    kinds: impl!=spec, model!=spec, known (impl = faithful model, repaired model = spec)"""
    spec = res["spec"][i]
    impl = res["impl"][i] if i < len(res["impl"]) else []
    mall = res["model_all"][i] if i < len(res["model_all"]) else []
    mcfg = res["model_cfg"][i] if i < len(res["model_cfg"]) else []
    for j in range(len(spec)):
        im = core(impl[j]) if j < len(impl) else None
        ma = core(mall[j]) if j < len(mall) else None
        mc = core(mcfg[j]) if j < len(mcfg) else None
        if ma != spec[j]:
            return j, "model!=spec"
        if im != spec[j]:
            if mc == im and mc != ma:
                return j, "known"
            return j, "impl!=spec"
    return None, None


def drift_notes(res, limit=5):
    notes = []
    for i, dr in enumerate(res["drift"]):
        impl = res["impl"][i] if i < len(res["impl"]) else []
        mall = res["model_all"][i] if i < len(res["model_all"]) else []
        for j, want in enumerate(dr):
            if not want or j >= len(impl) or " # " not in impl[j]:
                continue
            got = impl[j].split(" # ", 1)[1]
            mod = mall[j].split(" # ", 1)[1] if j < len(mall) and " # " in mall[j] else ""
            g = dict(x.split("=") for x in got.split())
            w = dict(x.split("=") for x in want.split())
            if g.get("fs") != w["fs"] or g.get("free") != w["free"] or got != mod:
                notes.append("history %d op %d: impl[%s] model[%s] oracle[%s]" % (i, j, got, mod, want))
                if len(notes) >= limit:
                    return notes
                break
    return notes


def setup():
    return build_model(PROP, "ExtractC15.v", os.path.join(ROOT, "ocaml/c15"), ["theories/CacheFile.v"])[0]


def main(tier, seed, replay=None):
    t0 = time.time()
    proof = Proof(PROP, tier=tier)
    exe = setup()
    known, fixed = known_findings(PROP)
    known_ids = [k.get("id") for k in known]
    cfg_flags = "".join("0" if f in known_ids else "1" for f in FINDINGS)
    rng = random.Random(seed)
    nhist = 260 if tier == "quick" else 4000
    histories, ncorpus = [], 0
    cdir = os.path.join(ROOT, "corpus", PROP)
    if replay:
        histories = [json.load(open(replay))["history"]]
    else:
        if os.path.isdir(cdir):
            for fn in sorted(os.listdir(cdir)):
                if fn.endswith(".json"):
                    histories.append(json.load(open(os.path.join(cdir, fn)))["history"])
        ncorpus = len(histories)
        for i in range(nhist):
            histories.append(gen_history(rng))
        if tier == "thorough":
            histories.extend(huge_histories())
    res = execute(histories, exe, "main", cfg_flags)
    if replay:
        print("history:", json.dumps(histories[0]))
        unp = execute(histories, exe, "unpatched", "000", want_impl=False)["model_cfg"]
        for j, s in enumerate(res["spec"][0]):
            print("op   ", op_text(histories[0]["ops"][j]))
            print("spec ", s)
            print("impl ", res["impl"][0][j] if res["impl"] and j < len(res["impl"][0]) else None)
            print("model", res["model_all"][0][j] if res["model_all"] and j < len(res["model_all"][0]) else None)
            print("model of the code before the C15 repairs (fx_none)", unp[0][j] if unp and j < len(unp[0]) else None)
            if cfg_flags != "111":
                print("model[%s]" % cfg_flags, res["model_cfg"][0][j] if res["model_cfg"] and j < len(res["model_cfg"][0]) else None)
            print()
    nviol, known_hits = 0, {}
    failing = []
    for i in range(len(histories)):
        j, kind = classify(res, i)
        if kind is not None:
            failing.append((i, j, kind))
    # which single repair, switched off in the model, reproduces the implementation's line?
    sig = {}
    if any(k != "model!=spec" for _, _, k in failing):
        sub = [x for x in failing if x[2] != "model!=spec"]
        for k, f in enumerate(FINDINGS):
            fl = "".join("0" if x == k else "1" for x in range(3))
            rr = execute([histories[i] for i, _, _ in sub], exe, "sig", fl, want_impl=False)
            for n, (i, j, _) in enumerate(sub):
                m = rr["model_cfg"][n] if n < len(rr["model_cfg"]) else []
                im = res["impl"][i] if i < len(res["impl"]) else []
                if j < len(m) and j < len(im) and core(m[j]) == core(im[j]):
                    sig.setdefault(i, []).append(f)
    groups, seen_sig = {}, set()
    for i, j, kind in failing:
        if kind == "known":
            known_hits[i] = j
            continue
        groups.setdefault((kind, tuple(sig.get(i, []))), []).append((len(histories[i]["ops"]), i))
    for (kind, like), members in sorted(groups.items())[:5]:
        i = min(members)[1]

        def fails(ops, kind=kind, h=histories[i]):
            r = execute([dict(h, ops=ops)], exe, "min", cfg_flags)
            return classify(r, 0)[1] == kind
        ops = ddmin(list(histories[i]["ops"]), fails, max_tests=80) if not replay else histories[i]["ops"]
        if not replay:
            # second stage: fewer chunks inside each store
            for oi in range(len(ops)):
                if ops[oi][0] == "store" and len(ops[oi][2]) > 1:
                    def fails_chunks(chs, oi=oi):
                        return fails(ops[:oi] + [["store", ops[oi][1], chs]] + ops[oi + 1:])
                    ops = ops[:oi] + [["store", ops[oi][1], ddmin(list(ops[oi][2]), fails_chunks, max_tests=25)]] + ops[oi + 1:]
        hmin = dict(histories[i], ops=ops)
        r = execute([hmin], exe, "min", cfg_flags)
        jj, _ = classify(r, 0)
        obj = {"property": PROP, "kind": kind, "history": hmin, "failing_op": jj,
               "spec": r["spec"][0], "impl": r["impl"][0] if r["impl"] else None,
               "model": r["model_all"][0] if r["model_all"] else None,
               "histories_failing_this_way": len(members),
               "seed": seed, "note": r["note"] or res["note"], "replay_cmd": "bin/check C15 --replay <this file>"}
        if kind == "impl!=spec":
            # on the minimised history: which single repair, switched off, reproduces the implementation?
            like2 = []
            for k, f in enumerate(FINDINGS):
                fl = "".join("0" if x == k else "1" for x in range(3))
                rr = execute([hmin], exe, "min", fl, want_impl=False)
                if r["impl"] and rr["model_cfg"] and [core(x) for x in rr["model_cfg"][0]] == [core(x) for x in r["impl"][0]]:
                    like2.append(f)
            if tuple(like2) in seen_sig and like2:
                continue            # same defect as a replay already written
            seen_sig.add(tuple(like2))
            obj["matches_model_without_repair"] = ["%s (repair: %s)" % (f, PATCH[f]) for f in like2]
            violation(PROP, obj)
        else:
            obj["broken"] = "correspondence: the extracted model (theories/CacheFile.v, all repairs on) disagrees with the map oracle; the theorems of props/C15.v no longer cover what is compared"
            violation(PROP, obj, no_input=True)
        nviol += 1
    if known_hits:
        per = {}
        for i, j in known_hits.items():
            who = [f for f in sig.get(i, []) if f in known_ids]
            per.setdefault(",".join(who) or "combination-of-listed-findings", []).append(i)
        for f, hs in sorted(per.items()):
            print("KNOWN-FINDING: property=%s id=%s %d histories fail exactly as the model without this repair predicts, e.g. history %d at op %d (%s)"
                  % (PROP, f, len(hs), hs[0], known_hits[hs[0]], op_text(histories[hs[0]]["ops"][known_hits[hs[0]]])[:80]), flush=True)
    # ---- in-session compaction (>= 16 MiB freed inside setData): implementation vs oracle
    nbig, big_ops = 0, 0
    if not replay:
        bigs = big_histories(random.Random(seed * 7919 + 13), 4 if tier == "quick" else 24)
        nbig, big_ops = len(bigs), sum(len(h["ops"]) for h in bigs)
        rb = execute(bigs, exe, "big", cfg_flags, want_model=False)
        if rb["note"]:
            res["note"] += " " + rb["note"]
        for i in range(len(bigs)):
            j, kind = classify(rb, i)
            if kind is None:
                continue

            def fails_big(ops, h=bigs[i]):
                r = execute([dict(h, ops=ops)], exe, "bigmin", cfg_flags, want_model=False)
                return classify(r, 0)[1] is not None
            ops = ddmin(list(bigs[i]["ops"]), fails_big, max_tests=25)
            hmin = dict(bigs[i], ops=ops)
            r = execute([hmin], exe, "bigmin", cfg_flags, want_model=False)
            jj, _ = classify(r, 0)
            violation(PROP, {"property": PROP, "kind": "impl!=spec", "history": hmin, "failing_op": jj,
                             "spec": [x[:600] for x in r["spec"][0]], "impl": [x[:600] for x in r["impl"][0]] if r["impl"] else None,
                             "model": "not run in this pass (30 MiB byte lists); bin/check C15 --replay <this file> runs it",
                             "what": "a store that runs truncateFile itself (>= 16 MiB and half of the file free); all streams are read after every op",
                             "seed": seed, "note": r["note"], "replay_cmd": "bin/check C15 --replay <this file>"})
            nviol += 1
            break
        _content_cache.clear()
    if nviol == 0 and res["note"]:
        violation(PROP, {"property": PROP, "broken": "correspondence harness could not run against this tree", "note": res["note"]}, no_input=True)
        nviol += 1
    if not proof.good() and nviol == 0:
        violation(PROP, {"property": PROP, "broken": proof.failure_text(), "searched_histories": len(histories)}, no_input=True)
        nviol += 1
    # ---- evidence
    opcount, regimes, nops, nsweep = {}, {}, 0, 0
    for h in histories:
        regimes[h.get("regime", "corpus")] = regimes.get(h.get("regime", "corpus"), 0) + 1
        for o in h["ops"]:
            opcount[o[0]] = opcount.get(o[0], 0) + 1
            nops += 1
    for e in res["spec"]:
        for line in e:
            if line.startswith("sweep"):
                for part in line.split()[2:]:
                    a, b = part.split(":")[0].split("-")
                    nsweep += int(b) - int(a) + 1
    distinct = {json.dumps(h["ops"]) for h in histories if len(h["ops"]) >= 3}
    cov = proof.coverage()
    cov.update({
        "trusted_base": TRUSTED_COMMON + [
            "the cache file is modelled as a byte list that is always in sync with the OS file (every Go operation ends with Flush; page cache / fsync ordering is not modelled); a crash is modelled as a byte prefix of the file",
            "truncateFile rewrites the file in place while reading it; the model builds the new tail and replaces the old one (safe because the write position never passes the read position; not proved about the OS)",
            "Go's map iteration order for content types is modelled as first-occurrence order; theorem C15_roundtrip_any_ct_order covers every order",
            "int64/uint64 sizes and offsets are unbounded N in the model (file sizes stay far below 2^53, where int64(float64(fileSize)*0.5) = fileSize/2 is exact)",
            "time.Time is modelled as integer nanoseconds; Time.Sub saturation (|delta| >= 2^63 ns) is excluded by hypothesis",
            "locking (rwmutex) and concurrent callers are not modelled: operations are atomic in the model",
            "CRC32 of chunk contents stands for the contents in the observation lines",
        ],
        "evaluations": nops + nsweep,
        "distinct_nontrivial": len(distinct),
        "rule": "seeded op histories (2-25 ops over 2-5 stream ids) on one real cache file; after every op Contains, StreamCount, Data, DataForSearch of every stream of the history are compared impl = extracted model = Python log/dict oracle; crash = close, truncate to n bytes, NewCacheFile; sweep = every truncation point of the last records; non-trivial = >=3 ops, distinct by op list",
        "in_session_compaction_histories": nbig, "in_session_compaction_ops": big_ops,
        "histories": len(histories), "corpus_histories": ncorpus, "ops": nops, "truncation_points_swept": nsweep,
        "op_distribution": opcount, "regime_distribution": regimes,
        "model_config_compared_with_impl": cfg_flags + " (torn-tail, tombstone, empty-chunk repair switches)",
        "known_findings_listed": [k["text"] for k in known], "known_finding_histories": len(known_hits),
        "fixed_findings": fixed,
        "internal_drift": drift_notes(res),
        "traces_validated_against_impl": len(res["impl"]),
        "samples": [histories[-1], res["spec"][-1][-1][:400] if res["spec"] and res["spec"][-1] else ""],
        "disagreements": nviol,
    })
    write_evidence(PROP, tier, seed, cov,
                   ["single caller at a time (the harness is sequential)", "stream ids < 2^64-1 (the tombstone value)",
                    "the harness reads a stream with the first-packet time it was stored with",
                    "file system returns what was written (no I/O errors, no partial in-place writes)"],
                   time.time() - t0, nviol)
    log("C15 %s: %d histories, %d ops, %d swept truncation points, %d violations, %d known-finding histories, %.1fs"
        % (tier, len(histories), nops, nsweep, nviol, len(known_hits), time.time() - t0))
    if not nviol and not replay:
        shutil.rmtree(RUNDIR, ignore_errors=True)
    return 1 if nviol else 0
