"""C10 -- a view is a complete and stable snapshot of everything imported
   C13 -- index files live exactly as long as they are needed   (checks/c13.py calls main_for("C13", ...))

Coq: theories/Indexes.v (model of the index list, use counts, import queue, merge/import/tag
jobs with their captured snapshots, views), IndexesProofs.v, props/C10.v, props/C13.v.
Tie: a gated scenario harness (harness/c10, overlay in package manager, build tag verif) drives a
real Manager: background jobs park in manager.VerifGate and the seeded script decides which one
proceeds.  After every action the service-loop state is dumped, the index directory is listed
and every open View is queried.  Three-way on every step:
   implementation  vs  extracted model replaying the same action list  vs  direct oracles
(ground truth of the generated captures; holder counting; directory listing).
Both properties share one scenario run (cached under build/run/c10 keyed by seed, tier and the
hash of the Go sources); each property writes its own evidence.
"""
import glob
import hashlib
import json
import os
import random
import time

from vplib import *

HARNESS = os.path.join(ROOT, "harness/c10/zz_verif_c10_test.go")
PKG = "./internal/index/manager/"
RUN = os.path.join(BUILD, "run", "c10")
TAGDEFS = ['cdata:"^a+$"', 'cdata:"bb"', 'cdata:"^[ab]+$"']   # anchored: a stream stops matching when a later capture extends it
GEN_VERSION = 12
KF_REFETCH = "view-refetch-empty"


# ------------------------------------------------------------------ generator
def gen_scenario(rng, name, big=False):
    nflows = rng.randint(2, 5)
    ncaps = rng.randint(3, 9 if big else 7)
    caps, seen, bad = [], [], []
    for k in range(ncaps):
        r0 = rng.random()
        if r0 < 0.05:
            caps.append([])          # unreadable file: the import reports it processed, cuts the batch there, creates nothing
            bad.append(k)
            continue
        if k > 0 and r0 < 0.10:
            caps.append([])          # capture without packets: processed, creates nothing
            continue
        pk = []
        for _ in range(rng.choice([1, 1, 2, 2, 3])):
            if seen and rng.random() < 0.55:
                f = rng.choice(seen)             # extends a stream of an earlier capture
            else:
                f = rng.randrange(nflows)
            if f not in seen:
                seen.append(f)
            pk.append([f, rng.randint(1, 5)])
        caps.append(pk)
    script = []
    n = rng.randint(8, 60 if big else 38)
    style = rng.random()
    ops = ["import", "step", "view", "read", "release", "tagadd", "tagdel", "tagupd", "failmerge", "markadd", "markdel", "reftag"]
    if style < 0.25:      # merge-heavy: few tags, many steps, merges that fail on a damaged input
        w = [0.22, 0.40, 0.12, 0.03, 0.09, 0.02, 0.01, 0.01, 0.14, 0.02, 0.01, 0.01]
    elif style < 0.5:     # view-heavy, with mark edits under open views and a tag that references the mark
        w = [0.18, 0.28, 0.22, 0.05, 0.12, 0.03, 0.02, 0.02, 0.04, 0.08, 0.06, 0.05]
    elif style < 0.75:
        w = [0.22, 0.35, 0.13, 0.04, 0.09, 0.06, 0.03, 0.03, 0.05, 0.04, 0.03, 0.02]
    else:                 # tag-heavy: tags deleted / redefined while their tagging job is parked, marks edited, referencing tag
        w = [0.18, 0.32, 0.10, 0.02, 0.06, 0.09, 0.08, 0.08, 0.02, 0.07, 0.06, 0.05]
    for _ in range(n):
        k = rng.choices(ops, weights=w)[0]
        if k == "import":
            script.append(["import", rng.choice([1, 1, 1, 2, 3])])
        elif k in ("step", "read", "release", "tagdel", "tagupd", "markadd", "markdel", "reftag"):
            script.append([k, rng.randrange(6)])
        elif k == "view":
            script.append(["viewp"] if rng.random() < 0.4 else ["view"])   # viewp: battery asks with PrefetchAllTags
        else:
            script.append([k])
    return {"name": name, "caps": caps, "script": script, "tags": TAGDEFS[:rng.randint(0, 3)] if style < 0.75 else TAGDEFS, "probe": nflows + 2, "bad": bad,
            "restart": rng.random() < 0.3}


def gen_conv_scenario(rng, name):
    """Histories with a converter executable: a tag carries the converter, converter jobs hold the index list; the
    converter is detached / removed / re-added while its job is parked."""
    sc = gen_scenario(rng, name)
    sc["conv"], sc["bad"], sc["tags"] = True, [], TAGDEFS[:rng.randint(0, 1)]
    sc["caps"] = [c if c else [[0, 1]] for c in sc["caps"]]
    script = [["import", 1], ["step", 0], ["step", 0], ["convtag"], ["step", 0], ["step", 0], ["convattach"]]
    for _ in range(rng.randint(8, 30)):
        k = rng.choices(["import", "step", "view", "release", "convattach", "convdetach", "convremove", "convadd", "tagdel", "tagupd"],
                        weights=[0.16, 0.44, 0.08, 0.06, 0.07, 0.06, 0.05, 0.05, 0.01, 0.02])[0]
        if k == "import":
            script.append(["import", rng.choice([1, 1, 2])])
        elif k in ("step", "release", "tagdel", "tagupd"):
            script.append([k, rng.randrange(6)])
        else:
            script.append([k])
    sc["script"] = script
    return sc


def fixed_scenarios():
    """Hand-written histories that are always run (shapes the random generator reaches rarely)."""
    out = []
    # a view and an import job hold files across the merge that replaces them
    out.append({"name": "fix-merge-under-holders", "caps": [[[0, 3]], [[1, 2]], [[2, 1]], [[0, 4], [3, 1]], [[1, 1]]], "tags": [], "probe": 6,
                "script": [["import", 1], ["step", 0], ["step", 0], ["import", 1], ["step", 0], ["step", 0], ["view"],
                           ["import", 1], ["job", "import"], ["job", "import"], ["view"], ["import", 1], ["job", "merge"],
                           ["job", "merge"], ["view"], ["job", "import"], ["job", "import"], ["import", 1], ["release", 0]]})
    # import completes between merge start and merge completion: the replaced run is followed by a newer file
    out.append({"name": "fix-append-during-merge", "caps": [[[0, 1]], [[1, 1]], [[2, 1]], [[0, 2], [1, 2]], [[2, 5]]], "tags": [], "probe": 5,
                "script": [["import", 1], ["job", "import"], ["job", "import"], ["import", 1], ["job", "import"], ["job", "import"],
                           ["import", 1], ["job", "import"], ["job", "import"], ["job", "merge"], ["import", 1], ["job", "import"],
                           ["job", "import"], ["view"], ["job", "merge"], ["view"], ["import", 1]]})
    # queued imports are taken together; tagging job holds the list
    out.append({"name": "fix-queue-and-tag", "caps": [[[0, 2]], [[0, 1], [1, 1]], [[1, 3]], [[2, 2]]], "tags": ['cdata:"a"'], "probe": 5,
                "script": [["import", 1], ["import", 1], ["import", 2], ["view"], ["job", "import"], ["job", "import"], ["tagadd"], ["view"],
                           ["job", "import"], ["job", "tag"], ["job", "import"], ["job", "tag"], ["view"]]})
    # the tag of a parked tagging job is deleted / redefined: its result is discarded, its locks must still be released
    out.append({"name": "fix-tag-deleted-under-job", "caps": [[[0, 3]], [[1, 2]], [[2, 1]], [[0, 1]]], "tags": ['cdata:"a"', 'cdata:"bb"'], "probe": 5,
                "script": [["import", 1], ["job", "import"], ["job", "import"], ["tagadd"], ["job", "tag"], ["tagdel", 0], ["job", "tag"],
                           ["import", 1], ["job", "import"], ["job", "import"], ["import", 1], ["job", "import"], ["job", "import"],
                           ["job", "merge"], ["job", "merge"], ["view"], ["import", 1]]})
    out.append({"name": "fix-tag-redefined-under-job", "caps": [[[0, 3]], [[1, 2]], [[2, 1]]], "tags": ['cdata:"a"'], "probe": 5,
                "script": [["import", 1], ["job", "import"], ["job", "import"], ["tagadd"], ["tagupd", 0], ["job", "tag"], ["tagupd", 0], ["job", "tag"],
                           ["job", "tag"], ["job", "tag"], ["import", 2], ["view"], ["job", "import"], ["tagdel", 0], ["job", "import"]]})
    # unreadable capture files: first of a batch (dropped alone), in the middle of a batch (batch cut there)
    out.append({"name": "fix-unreadable-captures", "caps": [[], [[0, 3]], [[1, 2]], [], [[0, 1], [2, 2]], [[1, 1]]], "bad": [0, 3], "tags": [], "probe": 5,
                "script": [["import", 2], ["view"], ["job", "import"], ["import", 3], ["job", "import"], ["job", "import"], ["view"], ["job", "import"],
                           ["job", "import"], ["job", "import"], ["view"], ["job", "import"], ["job", "import"], ["import", 1]]})
    # restart after merges, with tags and one unloadable file in the directory; one more import after the restart
    out.append({"name": "fix-restart", "caps": [[[0, 3]], [[1, 2]], [[2, 1]], [[0, 1], [3, 2]], [[1, 4]]], "tags": ['cdata:"a"'], "probe": 6, "restart": True,
                "script": [["import", 1], ["job", "import"], ["job", "import"], ["import", 1], ["job", "import"], ["job", "import"], ["tagadd"],
                           ["import", 1], ["view"], ["step", 0], ["step", 0], ["step", 0], ["step", 0], ["step", 0], ["step", 0], ["import", 1]]})
    # a merge fails on a damaged input: nothing may be left behind, its inputs stay served, the run counts as unmergeable
    out.append({"name": "fix-failed-merge", "caps": [[[0, 3]], [[1, 2]], [[2, 1]], [[0, 1]], [[3, 1]]], "tags": [], "probe": 6, "restart": True,
                "script": [["import", 1], ["job", "import"], ["job", "import"], ["import", 1], ["job", "import"], ["job", "import"],
                           ["import", 1], ["job", "import"], ["job", "import"], ["view"], ["failmerge"], ["import", 1], ["job", "import"],
                           ["job", "merge"], ["job", "import"], ["view"], ["import", 1]]})
    # view A holds a tag copy; a later capture extends the stream and un-matches the tag; while the tag is still uncertain
    # view B evaluates it lazily (PrefetchAllTags): A's copy of the tag details must not change
    out.append({"name": "fix-prefetch-other-view", "caps": [[[0, 3], [1, 2]], [[0, 2]], [[1, 1]]], "tags": ['cdata:"^a+$"'], "probe": 4,
                "script": [["import", 1], ["job", "import"], ["job", "import"], ["tagadd"], ["job", "tag"], ["job", "tag"], ["view"],
                           ["import", 1], ["job", "import"], ["job", "import"], ["viewp"], ["read", 0], ["import", 1], ["job", "import"],
                           ["viewp"], ["job", "import"], ["viewp"], ["job", "tag"], ["job", "tag"]]})
    # mark edits (add / remove ids inside the existing words of the bitmask) while views hold a copy of the mark tag
    out.append({"name": "fix-mark-edits-under-views", "caps": [[[0, 3], [1, 2], [2, 1]], [[0, 1], [3, 2]]], "tags": [], "probe": 6,
                "script": [["import", 1], ["job", "import"], ["job", "import"], ["markadd", 0], ["markadd", 1], ["view"], ["markdel", 0],
                           ["viewp"], ["markadd", 2], ["import", 1], ["job", "import"], ["view"], ["markdel", 1], ["job", "import"], ["markadd", 3]]})
    # a tag that references the mark tag: its tagging job is parked after a mark edit, a view is opened, the mark is edited again
    out.append({"name": "fix-referencing-tag-under-view", "caps": [[[0, 3], [1, 2], [2, 1]], [[3, 2]]], "tags": [], "probe": 5,
                "script": [["import", 1], ["job", "import"], ["job", "import"], ["markadd", 0], ["reftag", 0], ["job", "tag"], ["job", "tag"],
                           ["markadd", 1], ["view"], ["markdel", 0], ["viewp"], ["job", "tag"], ["markadd", 2], ["job", "tag"], ["view"],
                           ["import", 1], ["markdel", 1]]})
    out.append({"name": "fix-referencing-tag-negated", "caps": [[[0, 3], [1, 2], [2, 1]]], "tags": [], "probe": 4,
                "script": [["import", 1], ["job", "import"], ["job", "import"], ["markadd", 1], ["reftag", 1], ["job", "tag"], ["job", "tag"],
                           ["view"], ["markadd", 0], ["view"], ["markdel", 1], ["job", "tag"], ["viewp"], ["markdel", 0], ["job", "tag"]]})
    # several unmerged index files of different sizes: paged, sorted searches must still list every stream once
    out.append({"name": "fix-paged-search-unmerged", "caps": [[[0, 3], [1, 2], [2, 1]], [[3, 4]], [[0, 1], [4, 2]], [[1, 1]]], "tags": ['cdata:"bb"'], "probe": 7,
                "script": [["import", 1], ["job", "import"], ["job", "import"], ["tagadd"], ["import", 1], ["job", "import"], ["job", "import"],
                           ["view"], ["import", 1], ["job", "import"], ["job", "import"], ["viewp"], ["import", 1], ["job", "import"], ["job", "import"], ["view"]]})
    # chained import jobs with captures queued behind them: the pcap-processed report must name the finished files
    out.append({"name": "fix-report-names-finished-files", "caps": [[[0, 1]], [[1, 1]], [[2, 1]], [[0, 2]], [[3, 1]], [[1, 2]], [[4, 1]]], "tags": [], "probe": 7,
                "script": [["import", 1], ["import", 2], ["job", "import"], ["job", "import"], ["import", 1], ["job", "import"], ["import", 1],
                           ["job", "import"], ["view"], ["job", "import"], ["import", 2], ["job", "import"], ["view"], ["job", "import"], ["job", "import"]]})
    # view opened on an empty service (shape of finding view-refetch-empty)
    out.append({"name": "fix-view-on-empty", "caps": [[[0, 3], [1, 2]], [[0, 1]]], "tags": [], "probe": 4,
                "script": [["view"], ["import", 1], ["job", "import"], ["job", "import"], ["read", 0], ["import", 1], ["job", "import"], ["job", "import"]]})
    return out


# ------------------------------------------------------------------ running the harness
def tree_hash():
    h = hashlib.sha256()
    pats = ["internal/index/*.go", "internal/index/*/*.go", "internal/tools/*.go", "internal/tools/*/*.go", "internal/query/*.go", "go.mod"]
    for pat in pats:
        for p in sorted(glob.glob(os.path.join(REPO, pat))):
            h.update(p[len(REPO):].encode())
            h.update(open(p, "rb").read())
    h.update(open(HARNESS, "rb").read())
    return h.hexdigest()[:20]


def parse_out(path):
    traces = []
    if not os.path.exists(path):
        return traces
    for line in open(path):
        line = line.strip()
        if not line:
            continue
        try:
            o = json.loads(line)
        except ValueError:
            continue
        if o.get("h"):
            traces.append({"name": o["h"], "steps": []})
        elif traces:
            traces[-1]["steps"].append(o)
    return traces


def run_harness(scenarios, tag, timeout=900):
    """Runs the scenarios on the implementation. Returns (traces, note)."""
    os.makedirs(RUN, exist_ok=True)
    private = not tag.startswith("main_")          # concurrent checks (other trees) must not share scratch files
    if private:
        tag = "%s_%d" % (tag, os.getpid())
    cf = os.path.join(RUN, "cases_%s.jsonl" % tag)
    of = os.path.join(RUN, "impl_%s.jsonl" % tag)
    with open(cf, "w") as f:
        for s in scenarios:
            f.write(json.dumps(s) + "\n")
    if os.path.exists(of):
        os.remove(of)
    ov = go_overlay({"internal/index/manager/zz_verif_c10_test.go": HARNESS}, "c10_%d" % os.getpid())   # private overlay file
    try:
        rc, out, dt = go_test(PKG, ov, "^TestVerifC10$", {"VERIF_CASES": cf, "VERIF_OUT": of}, timeout=timeout)
    finally:
        if os.path.exists(ov):
            os.remove(ov)
    note = "" if rc == 0 else "go harness rc=%d: %s" % (rc, out[-1500:])
    traces = parse_out(of)
    if private:
        for x in (cf, of):
            if os.path.exists(x):
                os.remove(x)
    return traces, note


def run_cached(scenarios, seed, tier):
    """The main batch is shared by C10 and C13: cached by seed/tier/tree/generator."""
    key = hashlib.sha256(json.dumps([seed, tier, tree_hash(), GEN_VERSION, len(scenarios)]).encode()).hexdigest()[:16]
    cp = os.path.join(RUN, "cache_%s.json" % key)
    # one lock PER KEY: only the twin check of the same seed/tier/tree waits for this run; a check on another tree or tier
    # (e.g. a quick run while a thorough run is in progress) must not queue behind it
    os.makedirs(RUN, exist_ok=True)
    with Lock("run/c10/lock_" + key):
        if os.path.exists(cp):
            try:
                c = json.load(open(cp))
                if c["scenarios"] == scenarios:
                    return c["traces"], c["note"], True, c["seconds"]
            except (ValueError, KeyError):
                pass
        t0 = time.time()
        traces, note = run_harness(scenarios, "main_" + key, timeout=1500 if tier != "quick" else 600)
        dt = time.time() - t0
        for old in glob.glob(os.path.join(RUN, "cache_*.json")) + glob.glob(os.path.join(RUN, "lock_*.lock")):
            if time.time() - os.path.getmtime(old) > 6 * 3600:
                os.remove(old)
        json.dump({"scenarios": scenarios, "traces": traces, "note": note, "seconds": dt}, open(cp, "w"))
        for x in glob.glob(os.path.join(RUN, "*_main_%s.jsonl" % key)):
            os.remove(x)
    return traces, note, False, dt


# ------------------------------------------------------------------ ground truth
def truth(caps, processed):
    """flow -> (version = total bytes, payload) over the processed captures (in capture order)."""
    t = {}
    for k in sorted(processed):
        for f, n in caps[k]:
            v, d = t.get(f, (0, b""))
            t[f] = (v + n, d + bytes([97 + k % 26]) * n)
    return t


def parse_ans(ans):
    """answer string of the harness battery -> dict"""
    out = {}
    for part in ans.split(" "):
        if "=" not in part:
            continue
        k, v = part.split("=", 1)
        err = None
        if "!" in v:
            v, err = v.split("!", 1)
        more = v.endswith("+more")
        if more:
            v = v[:-5]
        items = [tuple(x.split(":")) for x in v.split(",") if x]
        out[k] = {"items": items, "err": err, "more": more}
    return out


def expected_answers(sc, processed):
    """What a view over exactly the processed captures must answer (as comparable structures)."""
    t = truth(sc["caps"], processed)
    exp = {"A": sorted((f, v) for f, (v, _) in t.items())}
    exp["data"] = {f: (v, hashlib.sha1(d).hexdigest()[:8]) for f, (v, d) in t.items()}
    exp["Q0"] = sorted(t)                                   # sport:4321 -> all
    exp["Q1"] = sorted(f for f, (v, _) in t.items() if v >= 7)   # cbytes:7:
    exp["Q2"] = sorted(f for f in t if f == 1)              # cport:1001
    return exp


def check_view_answer(sc, ans, processed):
    """Completeness oracle: answer == everything of the processed captures, exactly once, newest version.
    Returns list of problem strings."""
    a = parse_ans(ans)
    exp = expected_answers(sc, processed)
    bad = []
    if a["A"]["err"]:
        return ["AllStreams failed: " + a["A"]["err"]]
    got = [(int(f), int(v)) for (_i, f, v) in a["A"]["items"]]
    ids = [int(i) for (i, _f, _v) in a["A"]["items"]]
    if len(set(ids)) != len(ids):
        bad.append("AllStreams returns a stream id twice: %s" % ids)
    if sorted(got) != exp["A"]:
        bad.append("AllStreams (flow,version) = %s, processed captures %s give %s" % (sorted(got), sorted(processed), exp["A"]))
    id2flow = {int(i): int(f) for (i, f, _v) in a["A"]["items"]}
    # Stream(id): every id of AllStreams must be found with the newest version and the full payload; others absent
    for pos, it in enumerate(a["S"]["items"]):
        if it == ("-",):
            if pos in id2flow:
                bad.append("Stream(%d) not found but AllStreams lists it" % pos)
            continue
        sid, cb, n, hh = int(it[0]), int(it[1]), int(it[2]), it[3]
        f = id2flow.get(sid)
        if f is None or sid != pos:
            bad.append("Stream(%d) returned id %d which AllStreams does not list" % (pos, sid))
            continue
        if f in exp["data"] and (cb, hh) != exp["data"][f] or n != cb:
            bad.append("Stream(%d) (flow %d) bytes=%d datalen=%d sha=%s, expected %s" % (pos, f, cb, n, hh, exp["data"].get(f)))
    if a["S"]["err"]:
        bad.append("Stream failed: " + a["S"]["err"])
    for q in ("Q0", "Q1", "Q2"):
        if a[q]["err"]:
            bad.append("%s failed: %s" % (q, a[q]["err"]))
            continue
        gotf = sorted(id2flow.get(int(i), -1) for (i, _v) in a[q]["items"])
        if gotf != exp[q]:
            bad.append("%s returns flows %s, expected %s" % (q, gotf, exp[q]))
    if not a["Q3"]["err"]:
        g = [int(i) for (i, _v) in a["Q3"]["items"]]
        if g != ([0] if 0 in id2flow else []):
            bad.append("Q3 (id:0) returns %s" % g)
    return bad


# ------------------------------------------------------------------ direct oracles on a trace
class Fail(dict):
    pass


def fail(prop, kind, step, detail, **kw):
    f = Fail(property=prop, kind=kind, step=step, detail=detail)
    f.update(kw)
    return f


def processed_sets(sc, steps):
    """processed[i] = set of capture indexes reported processed after step i (files that left the import queue
    at a `complete import`), plus consistency of the pcapProcessed events."""
    res, cur, probs = [], set(), []
    prevq, prevev = [], 0
    for i, s in enumerate(steps):
        st = s.get("st")
        if not st:
            res.append(set(cur))
            continue
        q = st["queue"]
        act = s.get("act") or []
        if act[:2] == ["complete", "import"]:
            gone = len(prevq) - len(q)
            if gone < 0 or prevq[gone:] != q:
                probs.append(fail("C10", "queue", i, "import completion changed the queue from %s to %s (not a prefix removal)" % (prevq, q)))
                gone = max(gone, 0)
            # WHICH captures are reported processed is read from the pcap-processed webhook, not assumed
            reported = list(s.get("reported") or [])
            if sorted(reported) != sorted(prevq[:gone]):
                probs.append(fail("C10", "report", i, "the pcap-processed report names %s but the captures this import job finished are %s (still queued: %s)" % (reported, prevq[:gone], q)))
            for name in reported:
                if name[1:4].isdigit():
                    cur.add(int(name[1:4]))
            if s.get("events", 0) != prevev + 1:
                probs.append(fail("C10", "event", i, "import completion without exactly one pcapProcessed event (%d -> %d)" % (prevev, s.get("events", 0))))
        elif act and act[0] == "import":
            if q != prevq + ["c%03d.pcap" % k for k in act[1]]:
                probs.append(fail("C10", "queue", i, "ImportPcaps(%s) changed the queue from %s to %s" % (act[1], prevq, q)))
        elif q != prevq:
            probs.append(fail("C10", "queue", i, "queue changed from %s to %s by %s" % (prevq, q, act)))
        prevq, prevev = q, s.get("events", 0)
        res.append(set(cur))
    return res, probs


def check_paged(ob):
    """Sorted searches with a page size over the view's (possibly unmerged) index files: all pages together must be the
    view's AllStreams -- every stream exactly once, newest version -- in the order of the sort key, full pages."""
    bad = []
    a = parse_ans(ob["ans"])
    if a["A"]["err"]:
        return bad
    full = {int(i): (int(f), int(v)) for (i, f, v) in a["A"]["items"]}
    for p in ob.get("paged") or []:
        head, body = p.split("=", 1)
        key, limit = head.split("/")
        limit = int(limit)
        pages = [[tuple(int(x) for x in e.split(":")) for e in pg.split(",") if e] for pg in body.split("|")]
        ids = [i for pg in pages for (i, _v) in pg]
        if sorted(ids) != sorted(full) or any(full[i][1] != v for pg in pages for (i, v) in pg if i in full):
            bad.append("search sort:%s with page size %d returns %s over all pages, the view's streams are %s" % (
                key, limit, [list(pg) for pg in pages], sorted((i, v) for i, (_f, v) in full.items())))
            continue
        if any(len(pg) != limit for pg in pages[:-1]) or len(pages[-1]) > limit:
            bad.append("search sort:%s with page size %d: page sizes %s" % (key, limit, [len(pg) for pg in pages]))
        col = {"id": lambda i: i, "cbytes": lambda i: full[i][1], "cport": lambda i: full[i][0]}.get(key.lstrip("-"))
        if col:
            ks = [col(i) for i in ids]
            if ks != sorted(ks, reverse=key.startswith("-")):
                bad.append("search sort:%s with page size %d is not in sort order: keys %s" % (key, limit, ks))
    return bad


def vdiff(a, b):
    """the parts of two battery answers that differ"""
    pa, pb = a.split(" "), b.split(" ")
    da = [x for x, y in zip(pa, pb) if x != y] + pa[len(pb):]
    db = [y for x, y in zip(pa, pb) if x != y] + pb[len(pa):]
    return " ".join(da), " ".join(db)


def oracle_c10(sc, trace):
    steps = trace["steps"]
    fails = []
    proc, probs = processed_sets(sc, steps)
    fails += probs
    first = {}       # view id -> (step, answer, processed at open, held at open)
    for i, s in enumerate(steps):
        if s.get("fatal"):
            fails.append(fail("C10", "fatal", i, s["fatal"]))
            break
        for vid, ob in sorted((s.get("views") or {}).items()):
            pg = check_paged(ob)
            if pg:
                fails.append(fail("C10", "paged", i, "view %s: %s" % (vid, "; ".join(pg[:2])), view=vid))
            ob = dict(ob, ans=ob["ans"] + " TAGCOPY=" + ob.get("tags", ""))
            if vid not in first:
                first[vid] = (i, ob["ans"], set(proc[i]), list(ob["held"]))
                bad = check_view_answer(sc, ob["ans"], proc[i])
                if bad:
                    fails.append(fail("C10", "incomplete", i, "view %s opened after captures %s were reported processed: %s" % (vid, sorted(proc[i]), "; ".join(bad[:3])), view=vid))
            else:
                i0, a0, p0, h0 = first[vid]
                if ob["ans"] != a0:
                    # shape of the known finding: the view's snapshot was empty when it was opened
                    shape = KF_REFETCH if h0 == [] else None
                    fails.append(fail("C10", "unstable", i, "view %s (opened at step %d over %s) changed its answers after %s: %s  ->  %s" % (vid, i0, h0, s.get("act"), vdiff(a0, ob["ans"])[0][:260], vdiff(a0, ob["ans"])[1][:260]), view=vid, known=shape))
                    first[vid] = (i0, ob["ans"], p0, ["changed"])   # report once per change
    return fails


def oracle_c13(sc, trace):
    steps = trace["steps"]
    fails = []
    jobs = {}        # kind -> list of files the job holds (inferred at launch, fixed afterwards)
    pending = {}     # kind -> files written by a job that has run but not completed
    prevdir, prevlive = set(), set()
    junk = set()     # index files manager.New could not load at a restart: they stay in the directory, uncounted
    for i, s in enumerate(steps):
        if s.get("fatal"):
            fails.append(fail("C13", "fatal", i, s["fatal"]))
            break
        st, act = s["st"], (s.get("act") or [])
        L, U, D = st["idx"], st["used"], set(s["dir"])
        if act[:1] == ["restart"]:
            # manager.New on the directory the previous instance left at quiescence: every loadable file served, count 1
            before = steps[i - 1]["st"]["idx"]
            junk.add(act[1])
            jobs, pending, prevlive = {}, {}, set()
            if sorted(L) != sorted(before) or act[1] in L:
                fails.append(fail("C13", "restart", i, "after the restart the service serves %s, before it served %s (unloadable: %s)" % (L, before, sorted(junk))))
        views = s.get("views") or {}
        # (1) reads through held views succeed; job bodies report no failed file operation
        for vid, ob in sorted(views.items()):
            if ob.get("errs"):
                fails.append(fail("C13", "read-failed", i, "read through held view %s failed: %s" % (vid, ob["errs"][:2]), view=vid))
            for f in ob["held"]:
                if f not in D:
                    fails.append(fail("C13", "deleted-in-use", i, "file %s is held by view %s but is not in the index directory" % (f, vid)))
        badnames = ["c%03d.pcap" % k for k in sc.get("bad", [])] + sorted(junk)
        unexpected = [l for l in (s.get("log") or []) if not any(b in l for b in badnames)
                      and not (act[:1] == ["failmerge"] and "mergeIndexesJob" in l)     # the merge this action makes fail
                      and not (sc.get("conv") and "onver" in l)]      # failed conversions (converter removed under its job) are C16's business
        if unexpected:
            fails.append(fail("C13", "job-failed", i, "manager log reports: %s" % unexpected[:2]))
        if st.get("readerr"):
            fails.append(fail("C13", "read-failed", i, "served/used file unreadable: %s" % st["readerr"][:2]))
        # (2) which jobs ended / were launched by this action
        live = set(s.get("parked") or {})
        if act[:1] == ["complete"]:
            k = act[1]
            jobs.pop(k, None)
            done = pending.pop(k, [])
            for f in done:
                if f not in L:
                    fails.append(fail("C13", "output-lost", i, "file %s written by the %s job is not served after its completion" % (f, k)))
            prevlive = prevlive - {k}
        new = sorted(live - prevlive)
        if act[:1] == ["start"]:
            created = sorted(D - prevdir)
            if created:
                pending[act[1]] = created
        # (3) count equation: used = [in service list] + views + jobs
        exp = {}
        for f in L:
            exp[f] = exp.get(f, 0) + 1
        for vid, ob in views.items():
            for f in ob["held"]:
                exp[f] = exp.get(f, 0) + 1
        for k, fs in jobs.items():
            for f in fs:
                exp[f] = exp.get(f, 0) + 1
        resid = {f: U.get(f, 0) - exp.get(f, 0) for f in set(U) | set(exp)}
        nfull = len([k for k in new if k in ("import", "tag", "convert")])
        for k in new:
            if k != "merge":
                jobs[k] = list(L)
        r2 = {f: resid.get(f, 0) - (nfull if f in L else 0) for f in resid}
        okc = True
        if "merge" in new:
            held = [f for f in L if r2.get(f, 0) == 1]
            off = len(L) - len(held)
            if held != L[off:] or len(held) < 2 or any(v != (1 if f in held else 0) for f, v in r2.items()):
                okc = False
            jobs["merge"] = held
        elif any(v != 0 for v in r2.values()):
            okc = False
        if not okc:
            fails.append(fail("C13", "count", i, "use counts %s differ from holders: served %s, views %s, jobs %s (new jobs %s); residual %s" % (
                U, L, {v: o["held"] for v, o in views.items()}, jobs, new, {f: v for f, v in r2.items() if v})))
        if any(v <= 0 or v > 1000 for v in U.values()):
            fails.append(fail("C13", "count", i, "use count out of range: %s" % U))
        # (4) a file exists exactly while something uses it (or its writer has not completed yet)
        pend = {f for fs in pending.values() for f in fs} | junk
        if D != set(U) | pend:
            extra, missing = sorted(D - set(U) - pend), sorted((set(U) | pend) - D)
            fails.append(fail("C13", "directory", i, "index directory differs from the files in use: only on disk %s, in use but missing %s" % (extra, missing)))
        # (5) Status
        if s.get("locks") != sum(U.values()) or s.get("nidx") != len(L):
            fails.append(fail("C13", "status", i, "Status(): IndexLockCount=%s IndexCount=%s but counts sum to %d over %d served files" % (s.get("locks"), s.get("nidx"), sum(U.values()), len(L))))
        prevdir, prevlive = D, live
    if steps and steps[-1].get("end"):
        s = steps[-1]
        L, U, D = s["st"]["idx"], s["st"]["used"], set(s["dir"])
        if s.get("parked") or s["st"]["queue"]:
            fails.append(fail("C13", "quiescence", len(steps) - 1, "jobs still live at the end: %s queue %s" % (s.get("parked"), s["st"]["queue"])))
        elif D != set(L) | junk or U != {f: 1 for f in L}:
            fails.append(fail("C13", "quiescent-directory", len(steps) - 1, "at quiescence directory %s, served %s, counts %s" % (sorted(D), L, U)))
    elif not any(f["kind"] == "fatal" for f in fails):
        fails.append(fail("C13", "fatal", len(steps), "scenario did not reach its end"))
    return fails


# ------------------------------------------------------------------ model side
def uid_map(steps):
    """file name -> uid in order of first appearance in the directory (= creation order)."""
    m = {}
    for s in steps:
        for f in sorted(s.get("dir") or []):
            if f not in m:
                m[f] = len(m)
        for f in sorted((s.get("st") or {}).get("idx") or []):
            if f not in m:
                m[f] = len(m)
    return m


def model_case_text(sc, trace):
    """Action list for the model driver. Every action is preceded by the environment inputs the model does not compute
    (tag evaluation and converter caches are C06/C16): the number of uncertain tags after the closure and whether
    the converter scheduler found work in it (= a converter job was launched), both observed on the implementation."""
    lines = ["H " + sc["name"]]
    for k, pk in enumerate(sc["caps"]):
        lines.append("cap %d %s" % (k, " ".join("%d:%d" % (f, n) for f, n in pk)))
    for k in sc.get("bad", []):
        lines.append("bad %d" % k)
    prevparked = {}
    for s in trace["steps"]:
        act = s.get("act")
        if not act or s.get("fatal"):
            continue
        parked = s.get("parked") or {}
        if act[0] not in ("init", "end"):
            lines.append("envunc %d" % s["st"]["unc"])
            launched = "convert" in parked and ("convert" not in prevparked or act[:2] == ["complete", "convert"])
            lines.append("envconv %d" % (1 if launched else 0))
        if act[0] == "import":
            lines.append("import " + " ".join(str(k) for k in act[1]))
        elif act[0] == "view":
            lines.append("view %d%s" % (act[1], " p" if len(act) > 2 else ""))
        elif act[0] in ("read", "release"):
            lines.append("%s %d" % (act[0], act[1]))
        elif act[0] in ("tagadd", "convtag"):
            lines.append("tagadd")
        elif act[0] in ("tagdel", "tagupd"):
            lines.append("%s %d" % (act[0], int(act[3])))
        elif act[0] in ("convattach", "convdetach"):
            lines.append("convset")
        elif act[0] in ("convremove", "convadd"):
            lines.append(act[0])
        elif act[0] == "failmerge":
            lines.append("mergefail")
        elif act[0] in ("marknew", "markedit"):
            lines.append(act[0])
        elif act[0] in ("start", "complete"):
            lines.append("%s %s" % (act[0], act[1]))
        elif act[0] == "restart":
            lines.append("restart %d" % uid_map(trace["steps"])[act[1]])
        elif act[0] in ("init", "end"):
            lines.append("obs")
        prevparked = parked
    return "\n".join(lines) + "\n"


def impl_projection(trace):
    """Per step: the observables the model predicts, with file names replaced by uids."""
    um = uid_map(trace["steps"])
    content = {}
    out = []
    reported_all = []      # captures named by the pcap-processed reports so far, in order
    for s in trace["steps"]:
        st = s.get("st")
        if not st or s.get("fatal"):
            break
        reported_all += [int(n[1:4]) for n in (s.get("reported") or []) if n[1:4].isdigit()]
        for f, ents in (st.get("files") or {}).items():
            content[f] = sorted((e[0], e[1], e[2]) for e in ents)
        o = {
            "idx": [(um[f], content.get(f)) for f in st["idx"]],
            "used": sorted((um[f], n) for f, n in st["used"].items()),
            "disk": sorted(um[f] for f in s["dir"]),
            "views": sorted((int(v), [um[f] for f in ob["held"]], sorted((int(i), int(fl), int(ver)) for (i, fl, ver) in parse_ans(ob["ans"])["A"]["items"]))
                            for v, ob in (s.get("views") or {}).items()),
            "queue": [int(n[1:4]) for n in st["queue"]],
            "jobs": sorted((s.get("parked") or {}).items()),
            "unc": st["unc"],
            "proc": list(reported_all),
            "next": st["next"],
        }
        out.append(o)
    return out


def parse_model_line(line):
    """idx=0[0:0:3,1:1:2];1[..] used=0:2,1:1 disk=0,1 views=0:0.1/0:0:3,1:1:2|1:/ queue=1,2 jobs=import:start unc=1/2 next=3"""
    if line.startswith("STUCK"):
        return {"stuck": line}
    o = {}
    for part in line.split(" "):
        k, v = part.split("=", 1)
        o[k] = v

    def ents(t):
        return sorted(tuple(int(x) for x in e.split(":")) for e in t.split(",") if e)
    idx = []
    for f in [x for x in o["idx"].split(";") if x]:
        u, rest = f.split("[", 1)
        idx.append((int(u), ents(rest.rstrip("]"))))
    views = []
    for v in [x for x in o["views"].split("|") if x]:
        vid, rest = v.split(":", 1)
        held, ans = rest.split("/", 1)
        views.append((int(vid), [int(x) for x in held.split(".") if x], ents(ans)))
    return {
        "idx": idx,
        "used": sorted(tuple(int(x) for x in e.split(":")) for e in o["used"].split(",") if e),
        "disk": sorted(int(x) for x in o["disk"].split(",") if x),
        "views": sorted(views),
        "queue": [int(x) for x in o["queue"].split(",") if x],
        "jobs": sorted(tuple(e.split(":")) for e in o["jobs"].split(",") if e),
        "unc": int(o["unc"]),
        "proc": [int(x) for x in o["proc"].split(",") if x],
        "next": int(o["next"]),
    }


# what each property speaks about: a difference there raises an alarm, the rest is drift information only
OBSERVABLES = {"C10": ("idx", "views", "proc"), "C13": ("idx", "used", "disk", "views")}
ALLFIELDS = ("idx", "used", "disk", "views", "queue", "jobs", "unc", "next", "proc")


def run_model(exe, scs, traces, tag):
    os.makedirs(RUN, exist_ok=True)
    tag = "%s_%d" % (tag, os.getpid())
    cf = os.path.join(RUN, "model_cases_%s.txt" % tag)
    of = os.path.join(RUN, "model_%s.out" % tag)
    with open(cf, "w") as f:
        for sc, tr in zip(scs, traces):
            f.write(model_case_text(sc, tr))
    if os.path.exists(of):
        os.remove(of)
    rc, out, _ = run([exe, cf, of], timeout=900)
    res, cur = [], None
    if os.path.exists(of):
        for line in open(of):
            line = line.rstrip("\n")
            if line.startswith("H "):
                cur = []
                res.append(cur)
            elif cur is not None and line:
                cur.append(line)
    for x in (cf, of):
        if os.path.exists(x):
            os.remove(x)
    return res, ("" if rc == 0 else "model driver rc=%d: %s" % (rc, out[-600:]))


def compare_model(sc, trace, mlines, prop="C13"):
    """-> (failures on observables, drift notes)"""
    obs = OBSERVABLES[prop]
    proj = impl_projection(trace)
    fails, drift = [], []
    if "expect_steps" in sc:
        # an enumerated schedule must be followed action by action (plus init, the release of open views, end)
        acts = [s.get("act") for s in trace["steps"]]
        body = [a for a in acts[1:] if a and a[0] != "end"]
        if len(body) < sc["expect_steps"] or any(a[0] in ("start", "complete") for a in body[sc["expect_steps"]:]):
            fails.append(fail("MODEL", "schedule-not-followed", 0, "the implementation did not follow the enumerated schedule %s: resolved actions %s" % (sc["script"], acts)))
    if len(mlines) < len(proj):
        fails.append(fail("MODEL", "model-short", len(mlines), "model printed %d observation lines for %d steps" % (len(mlines), len(proj))))
    for i, (p, ml) in enumerate(zip(proj, mlines)):
        m = parse_model_line(ml)
        if "stuck" in m:
            fails.append(fail("MODEL", "model-stuck", i, "model cannot follow action %s: %s" % (trace["steps"][i].get("act"), m["stuck"])))
            break
        bad = [k for k in obs if p[k] != m[k]]
        if bad:
            fails.append(fail("MODEL", "model-differs", i, "after %s: " % (trace["steps"][i].get("act"),) + "; ".join("%s impl=%s model=%s" % (k, p[k], m[k]) for k in bad), fields=bad))
            break
        d = [k for k in ALLFIELDS if k not in obs and p[k] != m[k]]
        if d:
            drift.append("%s step %d: %s" % (sc["name"], i, "; ".join("%s impl=%s model=%s" % (k, p[k], m[k]) for k in d)))
    return fails, drift


# ------------------------------------------------------------------ statistics of what the histories exercised
def history_features(sc, trace):
    steps = trace["steps"]
    feat = set()
    for i, s in enumerate(steps):
        act = s.get("act") or []
        st = s.get("st") or {}
        if act[:2] == ["complete", "merge"]:
            feat.add("merge-completed")
            prev = steps[i - 1]["st"]
            gone = [f for f in prev["idx"] if f not in st["idx"]]
            if any(f in st["used"] for f in gone):
                feat.add("merged-files-outlive-merge(held)")
            heldv = [v for v, ob in (s.get("views") or {}).items() if any(f in gone for f in ob["held"])]
            if heldv:
                feat.add("view-holds-replaced-files")
        if act[:2] == ["complete", "import"] and "merge" in (s.get("parked") or {}) and (steps[i - 1].get("parked") or {}).get("merge") in ("start", "done"):
            feat.add("import-appends-during-merge")
        if act[:1] == ["import"] and len(st.get("queue", [])) > len(act[1]):
            feat.add("import-queued-behind-running-import")
        if "convert" in (s.get("parked") or {}):
            feat.add("converter-job-in-flight")
            if act[:1] in (["convdetach"], ["convremove"]):
                feat.add("converter-detached-or-removed-under-its-job")
        if act[:1] == ["restart"]:
            feat.add("restart-with-unloadable-index-file")
        if act[:1] == ["failmerge"]:
            feat.add("merge-failed-on-damaged-input")
        if act[:1] == ["view"]:
            feat.add("view-opened")
            if s.get("parked"):
                feat.add("view-opened-while-jobs-in-flight")
        if act[:2] == ["complete", "tag"]:
            feat.add("tag-job-completed")
        if act[:1] in (["tagdel"], ["tagupd"]) and len(act) > 3 and act[3]:
            feat.add("tag-of-parked-job-deleted-or-redefined")
    return feat


# ------------------------------------------------------------------ exhaustive schedules (thorough tier)
EXH_BASES = [
    # (name, captures, API actions in order, limit): every schedule of the API list is enumerated unless the limit is hit
    ("imports-view", [[[0, 3]], [[1, 2]], [[0, 4], [2, 1]]], [("import", 1), ("import", 1), ("view",), ("import", 1)], 2000),
    ("merge-vs-import", [[[0, 1]], [[1, 1]], [[2, 1]], [[0, 2], [3, 1]]], [("import", 1), ("import", 1), ("import", 1), ("view",), ("import", 1)], 2000),
    ("queued-imports", [[[0, 2]], [[0, 1], [1, 1]], [[1, 3]], [[2, 2]]], [("import", 1), ("import", 2), ("view",), ("import", 1), ("release", 0)], 2000),
    ("view-released-midway", [[[0, 1]], [[1, 1]], [[2, 1]]], [("import", 1), ("import", 1), ("view",), ("import", 1), ("release", 0)], 2000),
    ("view-after-three", [[[0, 1]], [[1, 1]], [[2, 1]]], [("import", 1), ("import", 1), ("import", 1), ("view",)], 2000),
    ("batch-import", [[[0, 1]], [[0, 1], [1, 1]], [[2, 1]]], [("import", 2), ("view",), ("import", 1), ("release", 0)], 2000),
    ("tag-holds-list", [[[0, 3]], [[1, 2]]], [("import", 1), ("tagadd",), ("view",), ("import", 1)], 2000),
    ("tag-and-merge", [[[0, 3]], [[1, 2]], [[2, 1]]], [("import", 1), ("tagadd",), ("import", 1), ("view",), ("import", 1)], 400),
    ("tag-deleted-under-job", [[[0, 3]], [[1, 2]]], [("import", 1), ("tagadd",), ("tagdel", 0), ("import", 1)], 2000),
    ("tag-redefined-under-job", [[[0, 3]], [[1, 2]]], [("import", 1), ("tagadd",), ("tagupd", 0), ("import", 1)], 2000),
]


def exhaustive_scenarios(exe):
    """Every schedule (order of job starts/completions relative to the API calls and to each other) of a few small
    API histories, enumerated on the extracted model (`modelrun enum`) and then executed on the implementation."""
    os.makedirs(RUN, exist_ok=True)
    inp, outp = os.path.join(RUN, "enum_in_%d.txt" % os.getpid()), os.path.join(RUN, "enum_out_%d.txt" % os.getpid())
    with open(inp, "w") as f:
        for name, caps, api, limit in EXH_BASES:
            f.write("H %s\n" % name)
            for k, pk in enumerate(caps):
                f.write("cap %d %s\n" % (k, " ".join("%d:%d" % (a, b) for a, b in pk)))
            nxt, nv = 0, 0
            for a in api:
                if a[0] == "import":
                    f.write("api import %s\n" % " ".join(str(nxt + i) for i in range(a[1])))
                    nxt += a[1]
                elif a[0] == "view":
                    f.write("api view %d\n" % nv)
                    nv += 1
                elif a[0] == "release":
                    f.write("api release %d\n" % a[1])
                elif a[0] in ("tagdel", "tagupd"):
                    f.write("api %s1\n" % a[0])     # single-tag history: the driver derives the flags
                else:
                    f.write("api tagadd\n")
            f.write("limit %d\n" % limit)
    rc, out, _ = run([exe, "enum", inp, outp], timeout=300)
    if rc != 0:
        raise RuntimeError("modelrun enum failed: " + out[-500:])
    scs, info, cur = [], {}, None
    bases = {b[0]: b for b in EXH_BASES}
    for line in open(outp):
        line = line.strip()
        if line.startswith("H "):
            cur = bases[line[2:]]
            n = 0
        elif line.startswith("#"):
            info[cur[0]] = line[1:].strip()
        elif line and cur:
            api = list(cur[2])
            script = []
            for tok in line.split():
                if tok == "a":
                    script.append(list(api.pop(0)))
                else:
                    script.append(["job", {"i": "import", "m": "merge", "t": "tag"}[tok]])
            scs.append({"name": "x-%s-%d" % (cur[0], n), "caps": cur[1], "script": script, "tags": TAGDEFS[:1], "probe": 6,
                        "expect_steps": len(script)})
            n += 1
    for x in (inp, outp):
        os.remove(x)
    return scs, info


# ------------------------------------------------------------------ main
EXH_INFO = {}


def build_scenarios(tier, seed):
    rng = random.Random(seed * 7919 + 10)
    scs = []
    cdir = os.path.join(ROOT, "corpus")
    for d in ("C10", "C13"):
        for fn in sorted(glob.glob(os.path.join(cdir, d, "*.json"))):
            o = json.load(open(fn))
            sc = o.get("scenario", o)
            sc = dict(sc, name="corpus-%s-%s" % (d, os.path.basename(fn)[:-5]))
            scs.append(sc)
    scs += fixed_scenarios()
    n = 100 if tier == "quick" else 2500
    for i in range(n):
        scs.append(gen_scenario(rng, "h%04d" % i, big=(tier != "quick" and i % 4 == 0)))
    for i in range(14 if tier == "quick" else 300):
        scs.append(gen_conv_scenario(rng, "c%04d" % i))
    if tier != "quick":
        xs, info = exhaustive_scenarios(model_exe())
        scs += xs
        EXH_INFO.update(info)
    return scs


def failing(prop, sc, kinds, exe):
    """Does the (reduced) scenario still fail the same way on the implementation?"""
    traces, note = run_harness([sc], "min")
    if not traces:
        return False
    fs = (oracle_c10 if prop == "C10" else oracle_c13)(sc, traces[0])
    return any(f["kind"] in kinds for f in fs)


def minimise(prop, sc, kinds, exe, budget=28, seconds=45):
    """ddmin over the script (captures are kept); bounded in tests and in wall time (a broken tree may hang per run)."""
    t0 = time.time()

    def fails(script):
        if time.time() - t0 > seconds:
            return False
        return failing(prop, dict(sc, script=script), kinds, exe)
    script = ddmin(list(sc["script"]), fails, max_tests=budget)
    return dict(sc, script=script)


def model_exe():
    return build_model("C10", "ExtractC10.v", os.path.join(ROOT, "ocaml/c10"), ["theories/Indexes.v"])[0]


def setup():
    """Setup hook (bin/check --setup): extract + build the model driver, compile the harness test binary once so that
    the first check finds a warm Go build cache. main_for() calls model_exe() itself, so the check also works without it."""
    exe = model_exe()
    ov = go_overlay({"internal/index/manager/zz_verif_c10_test.go": HARNESS}, "c10_%d" % os.getpid())
    try:
        go_test(PKG, ov, "^$", {}, timeout=600)
    finally:
        if os.path.exists(ov):
            os.remove(ov)
    return exe


def main_for(prop, tier, seed, replay=None):
    t0 = time.time()
    proof = Proof(prop, tier=tier)
    exe = model_exe()
    oracle = oracle_c10 if prop == "C10" else oracle_c13
    known, fixed = known_findings(prop)
    known_ids = {k.get("id") for k in known}
    if replay:
        o = json.load(open(replay))
        scs = [o.get("scenario", o)]
        traces, note = run_harness(scs, "replay")
        cached, hsec = False, 0
    else:
        scs = build_scenarios(tier, seed)
        traces, note, cached, hsec = run_cached(scs, seed, tier)
    mouts, mnote = run_model(exe, scs[:len(traces)], traces, prop.lower())
    nviol, nknown = 0, 0
    reported = set()
    drift_all, feats_all = [], {}
    nsteps, nviewreads, nontrivial = 0, 0, set()
    for idx, (sc, tr) in enumerate(zip(scs, traces)):
        nsteps += len(tr["steps"])
        nviewreads += sum(len(s.get("views") or {}) for s in tr["steps"])
        fs = oracle(sc, tr)
        feats = history_features(sc, tr)
        for f in feats:
            feats_all[f] = feats_all.get(f, 0) + 1
        if len(tr["steps"]) >= 6 and ("merge-completed" in feats or "view-opened-while-jobs-in-flight" in feats):
            nontrivial.add(json.dumps([sc["caps"], [s.get("act") for s in tr["steps"]]]))
        mf, drift = compare_model(sc, tr, mouts[idx] if idx < len(mouts) else [], prop)
        drift_all += drift
        if replay:
            print("scenario:", json.dumps(sc))
            for i, s in enumerate(tr["steps"]):
                print("step %d act=%s" % (i, s.get("act")))
                print("  impl :", json.dumps(impl_projection({"steps": tr["steps"][:i + 1]})[-1] if not s.get("fatal") else s.get("fatal")))
                print("  model:", mouts[idx][i] if idx < len(mouts) and i < len(mouts[idx]) else "-")
            print("oracle failures:", json.dumps(fs, indent=1))
            print("model differences:", json.dumps(mf, indent=1))
        # known findings: exactly the recognised shape and listed in KNOWN_FINDINGS.txt
        real = []
        for f in fs:
            if f.get("known") and f["known"] in known_ids:
                if f["known"] not in reported:
                    print("KNOWN-FINDING: property=%s id=%s %s" % (prop, f["known"], f["detail"][:200]), flush=True)
                    reported.add(f["known"])
                nknown += 1
            else:
                real.append(f)
        if real and nviol < 3:
            kinds = {f["kind"] for f in real}
            small = sc if replay else minimise(prop, sc, kinds, exe)
            t2, _ = run_harness([small], "min")
            fs2 = [f for f in oracle(small, t2[0])] if t2 else real
            m2, _n = run_model(exe, [small], t2, "min") if t2 else ([], "")
            obj = {"property": prop, "scenario": small, "failures": (fs2 or real)[:6], "original_failures": real[:4],
                   "impl": [{"act": s.get("act"), "obs": p} for s, p in zip(t2[0]["steps"], impl_projection(t2[0]))] if t2 else None,
                   "model": m2[0] if m2 else None, "seed": seed, "replay_cmd": "bin/check %s --replay <this file>" % prop}
            violation(prop, obj)
            nviol += 1
        elif real:
            nviol += 1
        elif mf and nviol < 3:
            # implementation satisfies the property's oracles on this history but the model predicts something else
            obj = {"property": prop, "scenario": sc, "broken": "correspondence: the extracted model (theories/Indexes.v) no longer predicts the implementation's "
                   "index list / use counts / directory / view contents on this history although the direct oracles hold; the theorems of props/%s.v are about a model that is not the code any more" % prop,
                   "differences": mf[:4], "seed": seed}
            violation(prop, obj, no_input=True)
            nviol += 1
    if len(traces) < len(scs) or note or mnote:
        violation(prop, {"property": prop, "broken": "correspondence harness could not run all scenarios against this tree", "note": note, "model_note": mnote,
                         "scenarios": len(scs), "traces": len(traces)}, no_input=True)
        nviol += 1
    if not proof.good() and nviol == 0:
        violation(prop, {"property": prop, "broken": proof.failure_text(), "searched_histories": len(scs)}, no_input=True)
        nviol += 1
    cov = proof.coverage()
    cov.update({
        "trusted_base": TRUSTED_COMMON + [
            "gate hook verifGate (commit 913d8a0, build tag verif) and the harness' gate controller: a job runs only between the gates the script opens; preemption inside a job body or a service-loop closure is not explored (C20)",
            "captures: UDP flows with increasing timestamps, imported in timestamp order (arrival-order effects belong to C08); < 100000 packets, so the builder never uses snapshots",
            "merge is modelled as 'newest version of every id' (its correctness on real files is C07); tags are all of the data-feature class, the model tracks only how many are uncertain",
            "a deleted-but-still-open file keeps answering reads on Linux, therefore 'not deleted while in use' is checked through the directory listing, 'not closed while in use' through the reads",
        ],
        "evaluations": nsteps,
        "view_reads": nviewreads,
        "histories": len(traces),
        "distinct_nontrivial": len(nontrivial),
        "rule": "gated histories of a real Manager (8-60 script entries + drain to quiescence): ImportPcaps (also queued), open/read/release view, AddTag, start/complete of parked import/merge/tag jobs; "
                "after every action: state dump from inside the service loop, directory listing, battery on every open view. non-trivial = >= 6 steps and (a merge completed or a view was opened while jobs were in flight), distinct by captures+resolved action list",
        "feature_counts": feats_all,
        "exhaustive_schedules": {k: v + ("" if "limit" in v else " (all schedules of this API history)") for k, v in EXH_INFO.items()},
        "harness_seconds": round(hsec, 1), "harness_cached": cached,
        "internal_drift": drift_all[:10], "internal_drift_count": len(drift_all),
        "known_findings_seen": nknown, "fixed_findings": fixed, "known_findings_listed": [k["text"] for k in known],
        "samples": [{"scenario": scs[min(len(scs) - 1, 6)], "actions": [s.get("act") for s in traces[min(len(traces) - 1, 6)]["steps"]] if traces else None}],
        "disagreements": nviol,
    })
    assumptions = ["job bodies and service-loop closures are atomic with respect to each other (what the gates can order)",
                   "merge preserves the visible map (C07)", "capture arrival in timestamp order (C08)"]
    write_evidence(prop, tier, seed, cov, assumptions, time.time() - t0, nviol)
    return 1 if nviol else 0


def main(tier, seed, replay=None):
    return main_for("C10", tier, seed, replay)
